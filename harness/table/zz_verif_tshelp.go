package table

import (
	"fmt"

	"github.com/dgraph-io/badger/v4/y"
	"github.com/dgraph-io/ristretto/v2/z"
)

// Helpers for H-TS / H-FSDROP (package badger, zz_verif_ts.go / zz_verif_fsdrop.go): tables whose
// MaxVersion() is chosen by the harness (Table.MaxVersion reads the cheap index, an unexported
// field). Same construction as VpFSOpenTable / VpFSTable in zz_verif_fshelp.go.

// VpTSOpenTable stands in for OpenTable: real prologue (Fd.Stat, ParseFileID, Close on failure),
// no parsing of the file; key range from rng(id), max version from maxVersion(id).
func VpTSOpenTable(rng func(id uint64) (smallest, biggest []byte), maxVersion func(id uint64) uint64) func(mf *z.MmapFile, opts Options) (*Table, error) {
	return func(mf *z.MmapFile, opts Options) (*Table, error) {
		fi, err := mf.Fd.Stat()
		if err != nil {
			mf.Close(-1)
			return nil, y.Wrap(err, "")
		}
		id, ok := ParseFileID(fi.Name())
		if !ok {
			mf.Close(-1)
			return nil, fmt.Errorf("Invalid filename: %s", fi.Name())
		}
		t := &Table{MmapFile: mf, id: id, opt: &opts, tableSize: int(fi.Size()), _cheap: &cheapIndex{MaxVersion: maxVersion(id)}}
		t.ref.Store(1)
		t.smallest, t.biggest = rng(id)
		return t, nil
	}
}

// VpTSTable: a table that already exists (one reference), with the given max version.
func VpTSTable(mf *z.MmapFile, id uint64, smallest, biggest []byte, maxVersion uint64, inMemory bool) *Table {
	t := &Table{MmapFile: mf, id: id, opt: &Options{}, tableSize: len(mf.Data), _cheap: &cheapIndex{MaxVersion: maxVersion},
		smallest: smallest, biggest: biggest, IsInmemory: inMemory}
	t.ref.Store(1)
	return t
}

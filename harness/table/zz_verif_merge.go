package table

import (
	"bytes"
	"encoding/binary"

	"github.com/dgraph-io/badger/v4/y"
)

// vpListIter is the harness' own y.Iterator: a sorted, duplicate-free list of internal keys
// with one value byte each. Forward: Seek = first key >= target; reverse: last key <= target.
type vpListIter struct {
	keys    [][]byte
	vals    []byte
	idx     int
	reverse bool
	closed  int
}

func (it *vpListIter) Next() {
	if it.reverse {
		it.idx--
	} else {
		it.idx++
	}
}
func (it *vpListIter) Rewind() {
	if it.reverse {
		it.idx = len(it.keys) - 1
	} else {
		it.idx = 0
	}
}
func (it *vpListIter) Seek(key []byte) {
	if !it.reverse {
		it.idx = 0
		for it.idx < len(it.keys) && y.CompareKeys(it.keys[it.idx], key) < 0 {
			it.idx++
		}
		return
	}
	it.idx = len(it.keys) - 1
	for it.idx >= 0 && y.CompareKeys(it.keys[it.idx], key) > 0 {
		it.idx--
	}
}
func (it *vpListIter) Key() []byte { return it.keys[it.idx] }
func (it *vpListIter) Value() y.ValueStruct {
	return y.ValueStruct{Value: []byte{it.vals[it.idx]}}
}
func (it *vpListIter) Valid() bool  { return it.idx >= 0 && it.idx < len(it.keys) }
func (it *vpListIter) Close() error { it.closed++; return nil }

// reference order on 9-byte internal keys, written without y.CompareKeys:
// user byte ascending, then version descending.
func vpRefTs(k []byte) uint64 { return ^binary.BigEndian.Uint64(k[len(k)-8:]) }
func vpRefLess(a, b []byte) bool {
	return vpOr(a[0] < b[0], vpAnd(a[0] == b[0], vpRefTs(a) > vpRefTs(b)))
}

// H-MERGE: the real NewMergeIterator / MergeIterator / node over 2..N harness iterators.
func VpHMerge() {
	maxIters := vpParam("merge.iters", 3)
	maxKeys := vpParam("merge.keys", 2)
	pre := vpParam("merge.pre", 0)
	maxTotal := vpParam("merge.total", 6) // bound on the number of entries over all inputs

	if vpParam("merge.forkcmp", 0) == 0 {
		// y.CompareKeys forks three ways per call on symbolic keys (user-key part, then the
		// timestamp part); the merge iterator calls it once per comparison, so the path count
		// grows as 3^comparisons. Its result is replaced here by the same value computed without
		// branching (one ite term). The real CompareKeys is decided on its own by y.VpHKeys
		// (C20); merge.forkcmp=1 runs the real one here as a cross-check (thorough tier).
		vpStub("badger/y.CompareKeys", func(a, b []byte) int {
			c1 := bytes.Compare(a[:len(a)-8], b[:len(b)-8])
			c2 := bytes.Compare(a[len(a)-8:], b[len(b)-8:])
			return vpIteInt(c1 != 0, c1, c2)
		})
	}
	n := 2 + vpChoose("iters", maxIters-1)
	reverse := vpChoose("reverse", 2) == 1

	lists := make([]*vpListIter, n)
	its := make([]y.Iterator, n)
	have := 0
	for i := 0; i < n; i++ {
		room := maxTotal - have
		if room > maxKeys {
			room = maxKeys
		}
		cnt := vpChoose("cnt", room+1)
		have += cnt
		l := &vpListIter{reverse: reverse, idx: -1}
		for j := 0; j < cnt; j++ {
			u := vpBytes("u", 1)
			ts := vpU64("ts")
			k := y.KeyWithTs(u, ts)
			if j > 0 {
				// sorted and duplicate free
				vpAssume(vpRefLess(l.keys[j-1], k))
			}
			l.keys = append(l.keys, k)
			l.vals = append(l.vals, vpU8("val"))
		}
		if cnt == 0 {
			vpCover("merge.empty-input")
		}
		lists[i] = l
		its[i] = l
	}

	mi := NewMergeIterator(its, reverse)

	// optional disturbance before the checked positioning call (stale curKey / small)
	if pre > 0 {
		switch vpChoose("pre", 5) {
		case 4:
			// a reused iterator that was drained to the end first (every node exhausted,
			// curKey/small stale), after Rewind (4) or after a Seek (5)
			if vpChoose("pre.drain.seek", 2) == 1 {
				mi.Seek(y.KeyWithTs(vpBytes("pu", 1), vpU64("pts")))
			} else {
				mi.Rewind()
			}
			for n := 0; mi.Valid() && n <= maxTotal; n++ {
				mi.Next()
			}
			vpCover("merge.pre-drained")
		case 0:
		case 1:
			mi.Rewind()
		case 2:
			mi.Rewind()
			if mi.Valid() {
				mi.Next()
			}
		case 3:
			mi.Seek(y.KeyWithTs(vpBytes("pu", 1), vpU64("pts")))
			if mi.Valid() {
				mi.Next()
			}
		}
	}

	seek := vpChoose("seek", 2) == 1
	var target []byte
	if seek {
		target = y.KeyWithTs(vpBytes("tu", 1), vpU64("tts"))
		mi.Seek(target)
		vpCover("merge.seek")
	} else {
		mi.Rewind()
		vpCover("merge.rewind")
	}
	// inRange(k): k is at/after the target in iteration direction
	inRange := func(k []byte) bool {
		if !seek {
			return true
		}
		if reverse {
			return vpNot(vpRefLess(target, k)) // k <= target
		}
		return vpNot(vpRefLess(k, target)) // k >= target
	}

	total := 0
	for _, l := range lists {
		total += len(l.keys)
	}
	var outK [][]byte
	var outV []byte
	for steps := 0; mi.Valid(); steps++ {
		if steps > total {
			vpAssert(false, "C21,C05:merge.terminates")
			break
		}
		k := mi.Key()
		if len(k) != 9 {
			vpAssert(false, "C21:merge.key-shape")
			break
		}
		v := mi.Value()
		if len(v.Value) != 1 {
			vpAssert(false, "C21:merge.value-shape")
			break
		}
		outK = append(outK, append([]byte(nil), k...))
		outV = append(outV, v.Value[0])
		mi.Next()
	}
	if len(outK) > 0 {
		vpObserveBytes("first", outK[0])
		vpObserveU64("firstVal", uint64(outV[0]))
	}
	vpObserveU64("count", uint64(len(outK)))

	// One obligation per category and path (conjunction over all positions): a solver query
	// per element would triple the cost without deciding more.
	// 1. strictly monotone in iteration direction (=> one copy per key)
	order := true
	for i := 1; i < len(outK); i++ {
		if reverse {
			order = vpAnd(order, vpRefLess(outK[i], outK[i-1]))
		} else {
			order = vpAnd(order, vpRefLess(outK[i-1], outK[i]))
		}
	}
	vpAssert(order, "C21,C05:merge.order")
	// 2. every output is an input entry, at/after the target, with the value of the
	//    lowest-numbered input holding that internal key
	onlyInputs, precedence, bound := true, true, true
	for i := range outK {
		found := false
		val := uint8(0)
		for li := len(lists) - 1; li >= 0; li-- {
			l := lists[li]
			for j := range l.keys {
				eq := bytes.Equal(l.keys[j], outK[i])
				found = vpOr(found, eq)
				val = vpIteU8(eq, l.vals[j], val)
			}
		}
		onlyInputs = vpAnd(onlyInputs, found)
		precedence = vpAnd(precedence, vpImplies(found, val == outV[i]))
		bound = vpAnd(bound, inRange(outK[i]))
	}
	vpAssert(onlyInputs, "C21:merge.only-inputs")
	vpAssert(precedence, "C21,C12:merge.precedence")
	vpAssert(bound, "C21,C05:merge.seek-bound")
	// 3. every input entry at/after the target is in the output
	complete := true
	for _, l := range lists {
		for j := range l.keys {
			present := false
			for i := range outK {
				present = vpOr(present, bytes.Equal(l.keys[j], outK[i]))
			}
			complete = vpAnd(complete, vpImplies(inRange(l.keys[j]), present))
		}
	}
	vpAssert(complete, "C21,C05:merge.complete")
	if len(outK) >= 2 {
		vpCover("merge.two-or-more")
	}
	if err := mi.Close(); err != nil {
		vpAssert(false, "C21:merge.close")
	}
}

package table

import (
	"bytes"
	"crypto/aes"
	"encoding/binary"
	"io"

	"github.com/dgraph-io/badger/v4/fb"
	"github.com/dgraph-io/badger/v4/options"
	"github.com/dgraph-io/badger/v4/pb"
	"github.com/dgraph-io/badger/v4/y"
)

// H-BLOCK / H-TABLEITER / H-BUILDERMETA (C18, C05) and the encrypted variant H-BLOCK-ENC (C23): the
// real table builder and the real table readers on symbolic entries.
//
// Everything of badger/table is real here, and so are the flatbuffers index (third-party, pure
// Go, executed by the engine) and the in-memory table open:
//   Builder.Add/addInternal/shouldFinishBlock/finishBlock/addHelper/keyDiff/allocate/append,
//   Builder.Finish/Done/buildIndex/writeBlockOffsets/calculateChecksum, buildData.Copy,
//   OpenInMemoryTable/initBiggestAndSmallest/initIndex/readTableIndex/fetchIndex/offsets,
//   Table.block (trailer parsing), Block.verifyCheckSum, Table.VerifyChecksum,
//   blockIterator.*, Iterator.*, ConcatIterator.*; with a data key also Builder.handleBlock
//   (goroutine), Builder.encrypt, Table.decrypt.
// VpHBlock, VpHTableIter and VpHBuilderMeta use no vpStub and are replayed natively;
// VpHBlockEnc stubs crypto/rand.Read and Table.fetchIndex (see there).
//
// Not executed / modelled by the engine (see checks.d/block.json assumptions):
//   - NewTableBuilder itself: it takes a z.Allocator from a z.AllocatorPool (ristretto:
//     unsafe, jemalloc or Go heap, global registry). vpNewBuilder builds the Builder value with
//     the same field assignments and a nil *z.Allocator; (*z.Allocator)(nil).Allocate(n) is
//     make([]byte, n) in ristretto, so Builder.allocate / addInternal run unchanged.
//   - proto.Marshal/Unmarshal of pb.Checksum: engine model emitting the real wire bytes
//     (engine/intr_pbchecksum.go); checksum container length fixed to 6 bytes (5-byte varint)
//     unless meta.pbchecksum=0.
//   - crc32: uninterpreted step function (engine/intr_crc.go).
//   - flatbuffers.NewBuilder(3 MiB): initial size capped at 256 (engine/intr_flatbuf.go).
//   - table.header Encode/Decode, y.U32SliceToBytes/BytesToU32Slice: little-endian models
//     (engine/unsafe.go).
//   - compression (snappy/zstd), AES, mmap files, block/index caches, bloom filter: not reached
//     (options off).

type vpEnt struct {
	key []byte // internal key: user key ++ 8-byte inverted version
	ver uint64
	v   y.ValueStruct
	blk int // block the real builder put it into
}

type vpGen struct {
	maxK    int // user key length 1..maxK
	maxV    int // value length 0..maxV
	verBits int // versions < 2^verBits (8, 16, 32 or 64 bit input)
	expBits int // 0: expiresAt of entry 0 in [2^7, 2^14) (2-byte varint), others < 2^7 (no varint-length
	// fork); k>0: every expiresAt < 2^k (forks once per varint length)
	klenFull bool // false: key lengths follow one of the first klenPats patterns of (alternating 1,maxK,1,..;
	// all maxK; all 1; alternating maxK,1,maxK,..); true: every combination
	klenPats int
	vfull    bool // false: value length of entry i = (i+1) mod (maxV+1); true: every combination
}

func vpGenFromParams(prefix string) vpGen {
	return vpGen{
		maxK:     vpParam(prefix+".maxkey", 2),
		maxV:     vpParam(prefix+".maxval", 2),
		verBits:  vpParam(prefix+".verbits", 16),
		expBits:  vpParam(prefix+".expbits", 0),
		klenFull: vpParam(prefix+".klenfull", 0) == 1,
		klenPats: vpParam(prefix+".klenpats", 3),
		vfull:    vpParam(prefix+".vfull", 0) == 1,
	}
}

func vpSymBits(name string, bits int) uint64 {
	var v uint64
	switch {
	case bits <= 8:
		v = uint64(vpU8(name))
	case bits <= 16:
		v = uint64(vpU16(name))
	case bits <= 32:
		v = uint64(vpU32(name))
	default:
		v = vpU64(name)
	}
	if bits < 64 && bits != 8 && bits != 16 && bits != 32 {
		vpAssume(v < uint64(1)<<uint(bits))
	}
	return v
}

// reference order on internal keys, written without y.CompareKeys / bytes.Compare and without
// branches: user key ascending (lexicographic, a proper prefix first), then the stored
// (inverted) version ascending = version descending.
func vpLess(a, b []byte) bool {
	ua, ub := a[:len(a)-8], b[:len(b)-8]
	lt, eq := false, true
	for i := 0; i < len(ua) && i < len(ub); i++ {
		lt = vpOr(lt, vpAnd(eq, ua[i] < ub[i]))
		eq = vpAnd(eq, ua[i] == ub[i])
	}
	if len(ua) < len(ub) {
		lt = vpOr(lt, eq)
	}
	if len(ua) != len(ub) {
		eq = false
	}
	ta := binary.BigEndian.Uint64(a[len(a)-8:])
	tb := binary.BigEndian.Uint64(b[len(b)-8:])
	return vpOr(lt, vpAnd(eq, ta < tb))
}

// vpFirstGE: "r is the index of the first entry >= k at or after index from (len(ents) if none)",
// for a sorted duplicate-free list; r and from concrete, k symbolic.
func vpFirstGE(ents []vpEnt, k []byte, from, r int) bool {
	if r < from || r > len(ents) {
		return false
	}
	ok := true
	if r < len(ents) {
		ok = vpNot(vpLess(ents[r].key, k))
	}
	if r > from {
		ok = vpAnd(ok, vpLess(ents[r-1].key, k))
	}
	return ok
}

// vpLastLE: "r is the index of the last entry <= k (-1 if none)".
func vpLastLE(ents []vpEnt, k []byte, r int) bool {
	if r < -1 || r >= len(ents) {
		return false
	}
	ok := true
	if r >= 0 {
		ok = vpNot(vpLess(k, ents[r].key))
	}
	if r+1 < len(ents) {
		ok = vpAnd(ok, vpLess(k, ents[r+1].key))
	}
	return ok
}

// vpSymKey: internal key with a user key of kl symbolic bytes and a symbolic version.
func vpSymKey(name string, kl int, g vpGen) ([]byte, uint64) {
	u := vpBytes(name+".u", kl)
	ver := vpSymBits(name+".ver", g.verBits)
	return y.KeyWithTs(u, ver), ver
}

// vpSeekKey: the key handed to seek/Seek: any user key length 1..maxK.
func vpSeekKey(name string, g vpGen) []byte {
	k, _ := vpSymKey(name, 1+vpChoose(name+".klen", g.maxK), g)
	return k
}

// vpGenEntries: n strictly increasing internal keys with values.
func vpGenEntries(n int, g vpGen) []vpEnt {
	ents := make([]vpEnt, n)
	pat := 0
	if !g.klenFull && g.maxK > 1 {
		pat = vpChoose("klenpat", g.klenPats)
	}
	for i := 0; i < n; i++ {
		kl := 1
		switch {
		case g.maxK == 1:
		case g.klenFull:
			kl = 1 + vpChoose("klen", g.maxK)
		case pat == 1:
			kl = g.maxK
		case pat == 0 && i%2 == 1, pat == 3 && i%2 == 0:
			kl = g.maxK
		}
		k, ver := vpSymKey("k", kl, g)
		if i > 0 {
			vpAssume(vpLess(ents[i-1].key, k))
		}
		vl := (i + 1) % (g.maxV + 1)
		if g.vfull {
			vl = vpChoose("vlen", g.maxV+1)
		}
		exp := uint64(0)
		switch {
		case g.expBits > 0:
			exp = vpSymBits("exp", g.expBits)
		case i == 0:
			exp = uint64(vpU16("exp"))
			vpAssume(vpAnd(exp >= 1<<7, exp < 1<<14))
		default:
			exp = uint64(vpU8("exp"))
			vpAssume(exp < 1<<7)
		}
		ents[i] = vpEnt{key: k, ver: ver, v: y.ValueStruct{
			Value: vpBytes("val", vl), Meta: vpU8("meta"), UserMeta: vpU8("umeta"), ExpiresAt: exp}}
	}
	return ents
}

// vpNewBuilder: the assignments of NewTableBuilder for an unencrypted, uncompressed table, with a
// nil allocator (ristretto: nil Allocator.Allocate(n) == make([]byte, n)).
func vpNewBuilder(opts Options) *Builder {
	b := &Builder{opts: &opts}
	b.curBlock = &bblock{data: b.alloc.Allocate(opts.BlockSize + padding)}
	b.opts.tableCapacity = uint64(float64(b.opts.TableSize) * 0.95)
	return b
}

var vpBuildStaleAt = -1

var vpBlockSizes = [3]int{40, 72, 1024} // 1 entry per block / about 2 per block / one block

// vpBuild runs the real builder over ents (recording the block each entry went to), the real
// Finish and the real OpenInMemoryTable.
func vpBuild(ents []vpEnt, blockSize int, id uint64, tag string) (*Builder, *Table) {
	b := vpNewBuilder(Options{BlockSize: blockSize, TableSize: 1 << 20, ChkMode: options.NoVerification})
	// vpBuildStaleAt >= 0: that entry is added through AddStaleKey (what compaction does for
	// tombstones, expired and superseded versions): it is an ordinary entry of the table - it is
	// iterated, hashed and counts for the max version - only the stale-data size differs
	for i := range ents {
		if i == vpBuildStaleAt {
			b.AddStaleKey(ents[i].key, ents[i].v, 0)
		} else {
			b.Add(ents[i].key, ents[i].v, 0)
		}
		ents[i].blk = len(b.blockList)
	}
	vpBuildStaleAt = -1
	buf := b.Finish()
	opts := *b.opts
	t, err := OpenInMemoryTable(buf, id, &opts)
	if err != nil {
		vpAssert(false, tag+".open-noerror")
		return b, nil
	}
	return b, t
}

// vpAcc collects obligations per assertion id and states each id once (one solver query per id
// and path instead of one per position; the conjunction is what is claimed anyway).
type vpAcc struct {
	ids []string
	ok  []bool
}

func (a *vpAcc) add(c bool, id string) {
	for i := range a.ids {
		if a.ids[i] == id {
			a.ok[i] = vpAnd(a.ok[i], c)
			return
		}
	}
	a.ids = append(a.ids, id)
	a.ok = append(a.ok, c)
}

func (a *vpAcc) flush() {
	for i := range a.ids {
		vpAssert(a.ok[i], a.ids[i])
	}
	a.ids, a.ok = nil, nil
}

func vpSameVS(got, want y.ValueStruct) bool {
	return vpAnd(vpAnd(bytes.Equal(got.Value, want.Value), got.Meta == want.Meta),
		vpAnd(got.UserMeta == want.UserMeta, got.ExpiresAt == want.ExpiresAt))
}

func vpBlockOf(ents []vpEnt, bi int) []vpEnt {
	var out []vpEnt
	for _, e := range ents {
		if e.blk == bi {
			out = append(out, e)
		}
	}
	return out
}

func vpCoverLayout(prefix string, ents []vpEnt, nblk int) {
	switch {
	case nblk == 1:
		vpCover(prefix + ".blocks-1")
	case nblk == 2:
		vpCover(prefix + ".blocks-2")
	default:
		vpCover(prefix + ".blocks-3plus")
	}
	for bi := 0; bi < nblk; bi++ {
		if len(vpBlockOf(ents, bi)) >= 2 && nblk >= 2 {
			vpCover(prefix + ".multi-entry-block-in-multi-block-table")
		}
	}
}

// ---------------------------------------------------------------------------------------------
// H-BLOCK
// ---------------------------------------------------------------------------------------------

// vpBlkCheck: the block iterator is at model position idx of exp.
func vpBlkCheck(acc *vpAcc, it *blockIterator, exp []vpEnt, idx int, id string) {
	valid := idx >= 0 && idx < len(exp)
	if it.Valid() != valid {
		vpAssert(false, "C18:block."+id+".valid")
		return
	}
	if !valid {
		acc.add(it.Error() == io.EOF, "C18:block."+id+".eof")
		return
	}
	var vs y.ValueStruct
	if len(it.val) < 3 { // meta, userMeta, >= 1 varint byte
		vpAssert(false, "C18:block."+id+".value-shape")
		return
	}
	vs.Decode(it.val)
	acc.add(vpAnd(bytes.Equal(it.key, exp[idx].key), vpSameVS(vs, exp[idx].v)), "C18:block."+id+".entry")
}

// vpSeqStep performs step digit d of a positioning sequence on it (current block *cur, model
// index *idx). Digits 0..len+1: move to index d-1 (by next/prev when adjacent to the current
// index, seekToFirst/seekToLast for 0/len-1, setIdx otherwise); digits len+2..: setBlock(another
// block). Returns false when d is not a digit for the current block.
func vpSeqStep(it *blockIterator, blks []*Block, ents []vpEnt, cur, idx *int, d int, direct bool) (ok, positioned bool) {
	exp := vpBlockOf(ents, *cur)
	nblk := len(blks)
	switch {
	case d < len(exp)+2:
		j := d - 1
		switch {
		case direct:
			it.setIdx(j)
		case j == *idx+1:
			it.next()
		case j == *idx-1:
			it.prev()
		case j == 0:
			it.seekToFirst()
		case j == len(exp)-1:
			it.seekToLast()
		default:
			it.setIdx(j)
		}
		*idx = j
		return true, true
	case d < len(exp)+2+nblk-1:
		*cur = (*cur + 1 + d - (len(exp) + 2)) % nblk
		blks[*cur].incrRef()
		it.setBlock(blks[*cur])
		*idx = 0
		return true, false // key/val are empty until the next positioning call
	}
	return false, false
}

// VpHBlock: block format round trip. n entries -> real builder -> real table bytes -> real
// Table.block(i) (trailer parse, checksum) -> real blockIterator.
//
//	mode 0 (walk + sequences): 2..block.n entries.
//	  (a) one iterator reused over all blocks in table order: setBlock, seekToLast+prev* down to
//	      invalid, seekToFirst+next* up to invalid: every position returns exactly the built entry
//	      (setBlock's reset is exercised with the stale overlap of the previous block's last entry);
//	  (b) EVERY sequence of 1..block.ops positioning steps from every start block on a fresh
//	      iterator, each step one of {move to index j for every j in -1..len, setBlock(another
//	      block)}; "move" is done twice: by the specific real call (next/prev when adjacent,
//	      seekToFirst/seekToLast for the ends, setIdx otherwise) and by plain setIdx. The position
//	      reached by the last step is checked. These calls take no decision on symbolic data, so
//	      all sequences run on one path.
//	mode 1 (seek): 2..block.seekn entries, ONE symbolic key k (user key 1..maxkey bytes, symbolic
//	      version). For every block and every prior state {fresh after setBlock, setIdx(j) for
//	      every j in -1..len}: seek(k, origin) lands on the first entry >= k of the block (or is
//	      invalid if there is none); seek(k, current) lands on the first entry >= k at or after the
//	      prior index.
func VpHBlock() {
	maxN := vpParam("block.n", 4)
	seekN := vpParam("block.seekn", 3)
	ops := vpParam("block.ops", 3)
	modes := vpParam("block.modes", 2) // 2: both modes; 0/1: only that mode
	g := vpGenFromParams("block")
	vpConfig("pbchecksum", 5)

	mode := modes
	if modes == 2 {
		mode = vpChoose("mode", 2)
	}
	lim := maxN
	if mode == 1 {
		lim = seekN
	}
	n := 2 + vpChoose("n", lim-1)
	bs := vpBlockSizes[vpChoose("bs", len(vpBlockSizes))]
	ents := vpGenEntries(n, g)
	b, t := vpBuild(ents, bs, 1, "C18:block")
	if t == nil {
		return
	}
	nblk := t.offsetsLength()
	vpAssert(nblk == ents[n-1].blk+1 && nblk == len(b.blockList), "C18:block.block-count")
	vpCoverLayout("block", ents, nblk)

	// the real trailer parse, once per block
	blks := make([]*Block, nblk)
	maxLen := 0
	for bi := 0; bi < nblk; bi++ {
		blk, err := t.block(bi, false)
		if err != nil {
			vpAssert(false, "C18:block.read-noerror")
			return
		}
		exp := vpBlockOf(ents, bi)
		if len(exp) > maxLen {
			maxLen = len(exp)
		}
		// trailer: entry offsets (count, first = 0, strictly increasing, inside the entry area),
		// checksum length/bytes, data cut after the count
		okTrailer := len(blk.entryOffsets) == len(exp) && blk.entriesIndexStart+4*len(exp)+4 == len(blk.data) &&
			blk.chkLen == len(blk.checksum) && blk.entryOffsets[0] == 0
		for j := 1; okTrailer && j < len(blk.entryOffsets); j++ {
			okTrailer = blk.entryOffsets[j] > blk.entryOffsets[j-1] && int(blk.entryOffsets[j]) < blk.entriesIndexStart
		}
		vpAssert(okTrailer, "C18:block.trailer")
		if !okTrailer {
			return
		}
		vpAssert(blk.verifyCheckSum() == nil, "C18:block.checksum-verifies")
		// the stored header of entry j: overlap+diff = key length
		for j := range exp {
			var h header
			h.Decode(blk.data[blk.entryOffsets[j]:])
			if int(h.overlap)+int(h.diff) != len(exp[j].key) {
				vpAssert(false, "C18:block.header-lengths")
				return
			}
			if j > 0 && h.overlap > 0 {
				vpCover("block.shared-prefix")
				if int(h.overlap) > len(exp[j].key)-8 {
					vpCover("block.shared-prefix-into-version")
				}
			}
		}
		blks[bi] = blk
	}

	acc := &vpAcc{}
	defer acc.flush()
	if mode == 0 {
		vpCover("block.mode-walk")
		var it blockIterator
		for bi := 0; bi < nblk; bi++ {
			exp := vpBlockOf(ents, bi)
			blks[bi].incrRef()
			it.setBlock(blks[bi])
			it.seekToLast()
			for j := len(exp) - 1; j >= -1; j-- {
				vpBlkCheck(acc, &it, exp, j, "reverse")
				it.prev()
			}
			it.seekToFirst()
			for j := 0; j <= len(exp); j++ {
				vpBlkCheck(acc, &it, exp, j, "forward")
				it.next()
			}
		}
		vpObserveBytes("walk.lastkey", ents[n-1].key)

		// every sequence of 1..ops steps
		alpha := maxLen + 2 + nblk - 1
		nseq := 0
		for start := 0; start < nblk; start++ {
			for l := 1; l <= ops; l++ {
				total := 1
				for i := 0; i < l; i++ {
					total *= alpha
				}
				for code := 0; code < total; code++ {
					for direct := 0; direct < 2; direct++ {
						var sit blockIterator
						cur, idx := start, 0
						blks[cur].incrRef()
						sit.setBlock(blks[cur])
						ok, moved := true, false
						c := code
						for i := 0; i < l && ok; i++ {
							ok, moved = vpSeqStep(&sit, blks, ents, &cur, &idx, c%alpha, direct == 1)
							c /= alpha
						}
						if !ok || !moved {
							continue
						}
						nseq++
						vpBlkCheck(acc, &sit, vpBlockOf(ents, cur), idx, "sequence")
					}
				}
			}
		}
		if nseq > 0 {
			vpCover("block.sequences")
		}
		vpObserveU64("sequences", uint64(nseq))
		return
	}

	vpCover("block.mode-seek")
	k := vpSeekKey("seek", g)
	for bi := 0; bi < nblk; bi++ {
		exp := vpBlockOf(ents, bi)
		for j0 := -2; j0 <= len(exp); j0++ { // -2: fresh after setBlock
			for whence := 0; whence < 2; whence++ {
				var it blockIterator
				if bi > 0 { // come from the previous block's last entry
					blks[bi-1].incrRef()
					it.setBlock(blks[bi-1])
					it.seekToLast()
				}
				blks[bi].incrRef()
				it.setBlock(blks[bi])
				start := 0
				if j0 >= -1 {
					it.setIdx(j0)
					if j0 > 0 {
						start = j0
					}
				}
				if whence == 0 {
					it.seek(k, origin)
					acc.add(vpFirstGE(exp, k, 0, it.idx), "C18,C05:block.seek.first-ge")
				} else {
					it.seek(k, current)
					if start >= len(exp) {
						acc.add(it.idx == len(exp), "C18:block.seek-current.past-end")
					} else {
						acc.add(vpFirstGE(exp, k, start, it.idx), "C18,C05:block.seek-current.first-ge-from-current")
					}
				}
				vpBlkCheck(acc, &it, exp, it.idx, "seek")
				if it.Valid() {
					vpCover("block.seek.hit")
				} else {
					vpCover("block.seek.past-end")
				}
				if bi == nblk-1 && j0 == -2 && whence == 0 {
					vpObserveU64("seek.idx", uint64(it.idx))
				}
			}
		}
	}
}

// ---------------------------------------------------------------------------------------------
// H-TABLEITER
// ---------------------------------------------------------------------------------------------

type vpKVIter interface {
	Valid() bool
	Key() []byte
	Value() y.ValueStruct
	Next()
}

// vpIterCheck: it is at ents[idx] (idx out of range: invalid).
func vpIterCheck(acc *vpAcc, it vpKVIter, ents []vpEnt, idx int, id string) bool {
	valid := idx >= 0 && idx < len(ents)
	if it.Valid() != valid {
		vpAssert(false, id+".valid")
		return false
	}
	if !valid {
		return true
	}
	acc.add(vpAnd(bytes.Equal(it.Key(), ents[idx].key), vpSameVS(it.Value(), ents[idx].v)), id+".entry")
	return true
}

// vpWalk: from model position idx follow Next() until invalid (forward: idx+1.., reverse: idx-1..).
func vpWalk(acc *vpAcc, it vpKVIter, ents []vpEnt, idx int, reverse bool, id string) {
	for s := 0; s <= len(ents)+1; s++ {
		if !vpIterCheck(acc, it, ents, idx, id) {
			return
		}
		if idx < 0 || idx >= len(ents) {
			return
		}
		it.Next()
		if reverse {
			idx--
		} else {
			idx++
		}
	}
}

// vpTablePos: index (in the table's entry list) the real Iterator stands at, from its block
// position and in-block index. Only meaningful when it.Valid().
func vpTablePos(it *Iterator, ents []vpEnt) int {
	p := 0
	for _, e := range ents {
		if e.blk < it.bpos {
			p++
		}
	}
	return p + it.bi.idx
}

// vpSeekCheck: after Seek(k): forward, at the first entry >= k; reverse (seekForPrev), at the last
// entry <= k; invalid exactly when there is none. pos: the concrete index the iterator stands
// at (from its internal position); the symbolic expectation must equal it. Then Next* to the end.
func vpSeekCheck(acc *vpAcc, it vpKVIter, valid bool, pos int, ents []vpEnt, k []byte, reverse bool, id string) {
	if !valid {
		if reverse {
			acc.add(vpLastLE(ents, k, -1), id+".invalid-only-if-none-le")
		} else {
			acc.add(vpFirstGE(ents, k, 0, len(ents)), id+".invalid-only-if-none-ge")
		}
		vpCover(id + ".miss")
		return
	}
	if pos < 0 || pos >= len(ents) {
		vpAssert(false, id+".position-in-range")
		return
	}
	if reverse {
		acc.add(vpLastLE(ents, k, pos), id+".lands-on-expected")
	} else {
		acc.add(vpFirstGE(ents, k, 0, pos), id+".lands-on-expected")
	}
	vpCover(id + ".hit")
	vpWalk(acc, it, ents, pos, reverse, id+"-then-next")
}

// VpHTableIter: table iterator and ConcatIterator over real tables (built by the real builder,
// opened by the real OpenInMemoryTable). ONE symbolic seek key k per path.
//
//	scenario 0 (one table, 2..titer.n entries), forward and reverse iterator:
//	  Rewind + Next* returns the input (reverse: backwards);
//	  for every prior state {fresh, after Rewind + p Next for p = 0..n (n = run off the end)}:
//	  Seek(k) lands on the first entry >= k (reverse = seekForPrev: last entry <= k) or is invalid
//	  if there is none, and Next* from there returns the rest; also the unexported
//	  seekFrom(k, current).
//	scenario 1 (two tables: the entries split at a chosen point), ConcatIterator forward and
//	  reverse: Rewind + Next*; Seek(k) + Next* from fresh and from every prior position.
func VpHTableIter() {
	maxN := vpParam("titer.n", 3)
	scns := vpParam("titer.scenarios", 2) // 2: both; 0/1: only that scenario
	g := vpGenFromParams("titer")
	vpConfig("pbchecksum", 5)

	scn := scns
	if scns == 2 {
		scn = vpChoose("scenario", 2)
	}
	n := 2 + vpChoose("n", maxN-1)
	bs := vpBlockSizes[vpChoose("bs", len(vpBlockSizes))]
	ents := vpGenEntries(n, g)
	acc := &vpAcc{}
	defer acc.flush()

	if scn == 1 {
		vpCover("titer.concat")
		split := 1 + vpChoose("split", n-1) // table 0: ents[:split], table 1: ents[split:]
		if bs == vpBlockSizes[1] && n <= 3 {
			return // with <= 2 entries per table the middle block size gives the same layouts as the large one
		}
		_, t0 := vpBuild(ents[:split], bs, 1, "C18:titer")
		_, t1 := vpBuild(ents[split:], bs, 2, "C18:titer")
		if t0 == nil || t1 == nil {
			return
		}
		vpAssert(vpAnd(bytes.Equal(t0.Biggest(), ents[split-1].key), bytes.Equal(t1.Smallest(), ents[split].key)),
			"C18:titer.concat.table-bounds")
		tbls := []*Table{t0, t1}
		k := vpSeekKey("seek", g)
		for dir := 0; dir < 2; dir++ {
			reverse := dir == 1
			opt, first := 0, 0
			if reverse {
				opt, first = REVERSED, n-1
			}
			pos := func(ci *ConcatIterator) int {
				if ci.idx == 1 {
					return split + vpTablePos(ci.cur, ents[split:])
				}
				return vpTablePos(ci.cur, ents[:split])
			}
			ci := NewConcatIterator(tbls, opt)
			ci.Rewind()
			vpWalk(acc, ci, ents, first, reverse, "C18,C05:titer.concat.iterate")
			acc.add(ci.Close() == nil, "C18:titer.concat.close")
			for p := -1; p <= n; p++ { // -1: fresh iterator; else Rewind + p Next
				ci = NewConcatIterator(tbls, opt)
				if p >= 0 {
					ci.Rewind()
					for q := 0; q < p && ci.Valid(); q++ {
						ci.Next()
					}
				}
				ci.Seek(k)
				valid := ci.Valid()
				at := 0
				if valid {
					at = pos(ci)
				}
				if p == -1 && !reverse {
					vpObserveBool("concat.seek.valid", valid)
					if valid {
						vpObserveBytes("concat.seek.key", ci.Key())
					}
				}
				vpSeekCheck(acc, ci, valid, at, ents, k, reverse, "C18,C05:titer.concat.seek")
				acc.add(ci.Close() == nil, "C18:titer.concat.close")
			}
		}
		return
	}

	vpCover("titer.single")
	_, t := vpBuild(ents, bs, 1, "C18:titer")
	if t == nil {
		return
	}
	vpCoverLayout("titer", ents, t.offsetsLength())
	k := vpSeekKey("seek", g)
	for dir := 0; dir < 2; dir++ {
		reverse := dir == 1
		opt, first := 0, 0
		id := "C18,C05:titer.seek"
		if reverse {
			opt, first = REVERSED, n-1
			id = "C18,C05:titer.seekforprev"
		}
		it := t.NewIterator(opt)
		it.Rewind()
		vpWalk(acc, it, ents, first, reverse, "C18,C05:titer.iterate")
		acc.add(it.Close() == nil, "C18:titer.close")
		for p := -1; p <= n; p++ { // -1: fresh iterator; else Rewind + p Next
			it = t.NewIterator(opt)
			if p >= 0 {
				it.Rewind()
				for q := 0; q < p && it.Valid(); q++ {
					it.Next()
				}
			}
			it.Seek(k)
			valid := it.Valid()
			at := 0
			if valid {
				at = vpTablePos(it, ents)
			}
			if p == -1 {
				vpObserveBool(id+".valid", valid)
				if valid {
					vpObserveBytes(id+".key", it.Key())
				}
			}
			vpSeekCheck(acc, it, valid, at, ents, k, reverse, id)
			acc.add(it.Close() == nil, "C18:titer.close")
		}
		if !reverse {
			// seekFrom(k, current) from every position: same contract as seek (it does not reset bpos)
			for p := 0; p <= n; p++ {
				it = t.NewIterator(opt)
				it.Rewind()
				for q := 0; q < p && it.Valid(); q++ {
					it.Next()
				}
				it.seekFrom(k, current)
				valid := it.Valid()
				at := 0
				if valid {
					at = vpTablePos(it, ents)
				}
				vpSeekCheck(acc, it, valid, at, ents, k, false, "C18,C05:titer.seekfrom-current")
				acc.add(it.Close() == nil, "C18:titer.close")
			}
		}
	}
}

// ---------------------------------------------------------------------------------------------
// H-BUILDERMETA
// ---------------------------------------------------------------------------------------------

// VpHBuilderMeta: what the builder records besides the entries, and what the opened table reports.
func VpHBuilderMeta() {
	maxN := vpParam("meta.n", 4)
	g := vpGenFromParams("meta")
	vpConfig("pbchecksum", vpParam("meta.pbchecksum", 5)) // 0: every checksum-container length (forks 6x per block and index)

	n := 1 + vpChoose("n", maxN)
	bs := vpBlockSizes[vpChoose("bs", len(vpBlockSizes))]
	ents := vpGenEntries(n, g)
	if vpParam("meta.stale", 1) == 1 {
		// none, or one arbitrary entry, goes in as a stale key
		vpBuildStaleAt = vpChoose("stale-at", n+1) - 1
		if vpBuildStaleAt >= 0 {
			vpCover("meta.stale-key")
		}
	}
	b, t := vpBuild(ents, bs, 1, "C18:meta")
	if t == nil {
		return
	}
	nblk := len(b.blockList)
	vpCoverLayout("meta", ents, nblk)

	// builder side
	maxv := uint64(0)
	hashes := true
	for i, e := range ents {
		maxv = vpIteU64(e.ver > maxv, e.ver, maxv)
		if i < len(b.keyHashes) {
			hashes = vpAnd(hashes, b.keyHashes[i] == y.Hash(e.key[:len(e.key)-8]))
		}
	}
	vpAssert(b.maxVersion == maxv, "C18,C11,C07:meta.builder.maxVersion")
	vpAssert(len(b.keyHashes) == n, "C18,C19:meta.builder.key-count")
	vpAssert(hashes, "C18,C19:meta.builder.hash-of-user-key")
	first := 0
	baseOK := true
	total := 0
	for bi := 0; bi < nblk; bi++ {
		exp := vpBlockOf(ents, bi)
		if len(exp) == 0 {
			vpAssert(false, "C18:meta.builder.no-empty-block")
			return
		}
		baseOK = vpAnd(baseOK, bytes.Equal(b.blockList[bi].baseKey, ents[first].key))
		first += len(exp)
		total += b.blockList[bi].end
		// each finished block ends with | checksum | len(checksum) | and the checksum is the
		// marshalled CRC32C of everything before it
		bl := b.blockList[bi]
		cl := int(y.BytesToU32(bl.data[bl.end-4 : bl.end]))
		switch {
		case cl == 0:
			vpCover("meta.chklen-0") // checksum value 0: proto3 omits the field
		case cl < 6:
			vpCover("meta.chklen-short")
		default:
			vpCover("meta.chklen-6")
		}
		sum := b.calculateChecksum(bl.data[:bl.end-4-cl])
		vpAssert(bytes.Equal(sum, bl.data[bl.end-4-cl:bl.end-4]), "C18:meta.builder.block-checksum")
	}
	vpAssert(baseOK, "C18:meta.builder.base-keys")
	vpAssert(int(b.uncompressedSize.Load()) == total, "C18:meta.builder.uncompressed-size")

	// table side (through the real flatbuffers index)
	vpAssert(bytes.Equal(t.Smallest(), ents[0].key), "C18:meta.table.smallest")
	vpAssert(bytes.Equal(t.Biggest(), ents[n-1].key), "C18:meta.table.biggest")
	vpAssert(t.MaxVersion() == maxv, "C18,C11,C07:meta.table.maxVersion")
	vpAssert(int(t.KeyCount()) == n, "C18:meta.table.key-count")
	vpAssert(t.offsetsLength() == nblk, "C18:meta.table.block-count")
	vpAssert(int(t.UncompressedSize()) == total, "C18:meta.table.uncompressed-size")
	vpAssert(t.VerifyChecksum() == nil, "C18:meta.table.verify-checksum")
	vpAssert(!t.hasBloomFilter && !t.DoesNotHave(b.keyHashes[0]), "C18:meta.table.no-bloom")
	vpObserveU64("maxv", t.MaxVersion())
	vpObserveBytes("smallest", t.Smallest())
	vpObserveBytes("biggest", t.Biggest())
}

// ---------------------------------------------------------------------------------------------
// H-BLOCK (encrypted variant, C23)
// ---------------------------------------------------------------------------------------------

// VpHBlockEnc: a table built with a data key. Real: the builder with its block channel and the
// real handleBlock goroutine (NewTableBuilder starts 2*NumCPU of them; here one), Builder.encrypt
// for every block and for the index, Builder.Done/Finish, OpenInMemoryTable, Table.decrypt for
// the index and for every block, Table.block, the iterator.
// Stubs (the claim is relative to them):
// Engine model: y.XORBlock(dst, src, key, iv): dst[i] = src[i] xor KS(key, iv, i), KS an
// uninterpreted function (engine/intr_ctr.go): the structure of CTR mode, nothing about AES.
//   - crypto/rand.Read: an ideal generator that never repeats: call number c returns
//     [c, 15 arbitrary bytes] (so "two records got their IV from two generator calls" is
//     observable as "their IVs differ");
//   - Table.fetchIndex: its cache-miss path (readTableIndex = read + real decrypt + flatbuffers
//     root); the ristretto index cache, mandatory for encrypted tables, is not modelled.
func VpHBlockEnc() {
	maxN := vpParam("enc.n", 3)
	g := vpGenFromParams("enc")
	vpConfig("pbchecksum", 5)

	ivCalls := 0
	var ivs [][]byte
	vpStub("crypto/rand.Read", func(b []byte) (int, error) {
		ivCalls++
		for i := range b {
			b[i] = vpU8("env.iv")
		}
		if len(b) > 0 {
			b[0] = byte(ivCalls)
		}
		ivs = append(ivs, append([]byte(nil), b...))
		return len(b), nil
	})
	vpStub("(*badger/table.Table).fetchIndex", func(t *Table) *fb.TableIndex {
		idx, err := t.readTableIndex()
		y.Check(err)
		return idx
	})

	n := 1 + vpChoose("n", maxN)
	bs := vpBlockSizes[vpChoose("bs", len(vpBlockSizes))]
	ents := vpGenEntries(n, g)
	dk := &pb.DataKey{KeyId: 1, Data: vpBytes("datakey", 16)}

	b := vpNewBuilder(Options{BlockSize: bs, TableSize: 1 << 20, ChkMode: options.NoVerification, DataKey: dk})
	b.blockChan = make(chan *bblock, 8)
	b.wg.Add(1)
	go b.handleBlock()
	for i := range ents {
		b.Add(ents[i].key, ents[i].v, 0)
		ents[i].blk = len(b.blockList)
	}
	// plaintext of every block as the builder finished it (before the goroutine replaces it)
	buf := b.Finish()
	nblk := len(b.blockList)
	vpAssert(ivCalls == nblk+1, "C23:enc.one-iv-per-block-and-index")
	// every stored block ends with the IV of its own generator call; all IVs differ
	distinct := true
	for i := range ivs {
		for j := i + 1; j < len(ivs); j++ {
			distinct = vpAnd(distinct, vpNot(bytes.Equal(ivs[i], ivs[j])))
		}
	}
	vpAssert(distinct, "C23:enc.generator-ivs-distinct")
	off := 0
	tail := true
	used := make([]bool, len(ivs))
	for bi := 0; bi < nblk; bi++ {
		bl := b.blockList[bi]
		stored := buf[off+bl.end-aes.BlockSize : off+bl.end]
		hit := false
		for c := range ivs {
			if ivs[c][0] == stored[0] { // call number, concrete
				hit = bytes.Equal(stored, ivs[c])
				if used[c] {
					hit = false
				}
				used[c] = true
			}
		}
		tail = vpAnd(tail, hit)
		off += bl.end
	}
	vpAssert(tail, "C23:enc.block-carries-its-own-iv")
	if nblk >= 2 {
		vpCover("enc.two-blocks")
	}

	opts := *b.opts
	t, err := OpenInMemoryTable(buf, 1, &opts)
	if err != nil {
		vpAssert(false, "C23,C18:enc.open-noerror")
		return
	}
	acc := &vpAcc{}
	defer acc.flush()
	// transparency: the decrypted blocks hold exactly the entries
	it := t.NewIterator(0)
	it.Rewind()
	vpWalk(acc, it, ents, 0, false, "C23,C18:enc.iterate")
	acc.add(it.Close() == nil, "C18:enc.close")
	rit := t.NewIterator(REVERSED)
	rit.Rewind()
	vpWalk(acc, rit, ents, n-1, true, "C23,C18:enc.iterate-reverse")
	acc.add(rit.Close() == nil, "C18:enc.close")
	acc.add(vpAnd(bytes.Equal(t.Smallest(), ents[0].key), bytes.Equal(t.Biggest(), ents[n-1].key)), "C23,C18:enc.smallest-biggest")
	acc.add(t.VerifyChecksum() == nil, "C23,C18:enc.verify-checksum")
	// direct round trip on arbitrary bytes: decrypt(encrypt(x)) = x, IV appended and stripped
	x := vpBytes("plain", 3)
	ct, err := b.encrypt(x)
	if err != nil || len(ct) != len(x)+aes.BlockSize {
		vpAssert(false, "C23:enc.encrypt-shape")
		return
	}
	pt, err := t.decrypt(ct, false)
	acc.add(err == nil && bytes.Equal(pt, x), "C23:enc.decrypt-encrypt-identity")
	vpCover("enc.done")
}

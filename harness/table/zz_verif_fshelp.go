package table

import (
	"errors"
	"fmt"

	"github.com/dgraph-io/badger/v4/y"
	"github.com/dgraph-io/ristretto/v2/z"
)

// Helpers for the H-FSORDER harnesses of package badger (zz_verif_fs*.go): the event-order
// kernels run the REAL table.CreateTable (z.OpenMmapFile, buildData.Copy, z.Msync) and the REAL
// Table.IncrRef/DecrRef/Delete; only the producer of the table bytes (Builder.Done) and the
// parser of the finished file (OpenTable) are replaced, because the table *content* is not the
// subject there (H-BLOCK / H-TABLEITER decide it).

func vpFSBuildData() buildData {
	index := []byte{0x11, 0x22, 0x33, 0x44, 0x55, 0x66, 0x77, 0x88}
	checksum := []byte{0xC1, 0xC2, 0xC3, 0xC4}
	return buildData{index: index, checksum: checksum, Size: len(index) + len(checksum) + 8}
}

// VpFSImage: the file image the stubbed builder stands for, laid out by the real buildData.Copy.
func VpFSImage() []byte {
	bd := vpFSBuildData()
	buf := make([]byte, bd.Size)
	bd.Copy(buf)
	return buf
}

// VpFSDone stands in for (*Builder).Done: a fixed 20-byte build result (no blocks, 8-byte index,
// 4-byte checksum). VpFSOpenTable stands in for OpenTable: it keeps the real prologue (Fd.Stat,
// ParseFileID, Close on failure) and builds the Table without parsing the file: key range from
// rng(id), an arbitrary failure of initBiggestAndSmallest when openFails() says so (the real code
// returns WITHOUT closing the file then). Both are installed with vpStub by the harness in package
// badger (the engine intercepts vp* calls only in the package of the running harness).
func VpFSDone(b *Builder) buildData { return vpFSBuildData() }

func VpFSOpenTable(rng func(id uint64) (smallest, biggest []byte), openFails func() bool) func(mf *z.MmapFile, opts Options) (*Table, error) {
	return func(mf *z.MmapFile, opts Options) (*Table, error) {
		fi, err := mf.Fd.Stat()
		if err != nil {
			mf.Close(-1)
			return nil, y.Wrap(err, "")
		}
		id, ok := ParseFileID(fi.Name())
		if !ok {
			mf.Close(-1)
			return nil, fmt.Errorf("Invalid filename: %s", fi.Name())
		}
		t := &Table{MmapFile: mf, id: id, opt: &opts, tableSize: int(fi.Size()), _cheap: &cheapIndex{}}
		t.ref.Store(1)
		if openFails() {
			return nil, errors.New("vp: failed to initialize table")
		}
		t.smallest, t.biggest = rng(id)
		return t, nil
	}
}

// VpFSTable: a table that already exists (one reference, as OpenTable hands it out).
func VpFSTable(mf *z.MmapFile, id uint64, smallest, biggest []byte, inMemory bool) *Table {
	t := &Table{MmapFile: mf, id: id, opt: &Options{}, tableSize: len(mf.Data), _cheap: &cheapIndex{},
		smallest: smallest, biggest: biggest, IsInmemory: inMemory}
	t.ref.Store(1)
	return t
}

// VpFSRefs: current reference count (the harness checks that a listed table is never at 0).
func VpFSRefs(t *Table) int32 { return t.ref.Load() }

// VpFSBuilder: what the stubbed buildL0Table / compaction returns: a Builder that holds only its
// options (CreateTable dereferences builder.opts).
func VpFSBuilder() *Builder { return &Builder{opts: &Options{}} }

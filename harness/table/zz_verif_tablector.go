package table

import "time"

// Harness-side constructor for *Table values without a file: only the fields the level /
// compaction-selection code reads are set (smallest, biggest, id, size, CreatedAt, max version).
// Everything that would touch the file, the index flatbuffer or the bloom filter
// (StaleDataSize, DoesNotHave, NewIterator/Iterator.*, DecrRef reaching zero) must be stubbed
// by the harness that uses such a table.
func VpLvNewTable(id uint64, smallest, biggest []byte, size int64, createdAt time.Time, maxVersion uint64) *Table {
	t := &Table{
		tableSize: int(size),
		smallest:  smallest,
		biggest:   biggest,
		id:        id,
		CreatedAt: createdAt,
		_cheap:    &cheapIndex{MaxVersion: maxVersion},
		opt:       &Options{},
	}
	t.ref.Store(1)
	return t
}

// VpLvRef returns the current reference count (the level handlers own one reference per table).
func VpLvRef(t *Table) int32 { return t.ref.Load() }

// VpLvIterTable returns the table a (stubbed) table iterator was created for.
func VpLvIterTable(it *Iterator) *Table { return it.t }

// VpLvConcatTables returns the tables of a ConcatIterator in iteration order.
func VpLvConcatTables(c *ConcatIterator) []*Table { return c.tables }

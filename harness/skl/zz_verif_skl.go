package skl

import (
	"bytes"

	"github.com/dgraph-io/badger/v4/y"
)

// H-SKL (C22): the real skiplist (NewSkiplist, Put, findSpliceForLevel, findNear, findLast,
// Get, randomHeight, newNode, Arena.putNode/putKey/putVal/getKey/getVal, Iterator.*,
// UniIterator.*) against a sorted map with overwrite.
//
// The arena keeps node structs inside its byte slice through unsafe casts. The engine does
// not reinterpret memory, so Arena.getNode / Arena.getNodeOffset are replaced by a side
// table offset <-> node object. Everything else of the arena is real: putNode, putKey and
// putVal run the real code (real offset arithmetic, real alignment, real copy into buf) and
// are only wrapped to record the region they hand out. The side table is faithful as long as
// the regions handed out are pairwise disjoint and inside the buffer; that is asserted
// (skl.arena.*), together with "every offset given to getNode was returned by putNode".

type vpSklRegion struct {
	lo, hi uint32
}

type vpSklEnv struct {
	arena    *Arena
	regions  []vpSklRegion
	nodes    []*node
	offs     []uint32
	heights  []int
	randCall int // consecutive FastRand results <= heightIncrease (tower growth so far)
	maxH     int
}

func (e *vpSklEnv) addRegion(lo, hi uint32, s *Arena) {
	vpAssert(lo >= 1 && lo <= hi && int(hi) <= len(s.buf), "C22:skl.arena.region-in-buffer")
	for _, r := range e.regions {
		vpAssert(hi <= r.lo || r.hi <= lo, "C22:skl.arena.regions-disjoint")
	}
	e.regions = append(e.regions, vpSklRegion{lo, hi})
}

// install registers the arena stubs. maxH bounds tower heights.
func (e *vpSklEnv) install() {
	vpStub("(*badger/skl.Arena).putNode", func(s *Arena, height int) uint32 {
		m := s.putNode(height) // real
		size := uint32(MaxNodeSize - (maxHeight-height)*offsetSize)
		vpAssert(m&uint32(nodeAlign) == 0, "C22:skl.arena.node-aligned")
		e.addRegion(m, m+size, s)
		e.nodes = append(e.nodes, &node{})
		e.offs = append(e.offs, m)
		e.heights = append(e.heights, height)
		return m
	})
	vpStub("(*badger/skl.Arena).putKey", func(s *Arena, key []byte) uint32 {
		m := s.putKey(key) // real
		e.addRegion(m, m+uint32(len(key)), s)
		return m
	})
	vpStub("(*badger/skl.Arena).putVal", func(s *Arena, v y.ValueStruct) uint32 {
		m := s.putVal(v) // real
		e.addRegion(m, m+v.EncodedSize(), s)
		return m
	})
	vpStub("(*badger/skl.Arena).getNode", func(s *Arena, offset uint32) *node {
		if offset == 0 {
			return nil
		}
		for i, o := range e.offs {
			if o == offset {
				return e.nodes[i]
			}
		}
		vpAssert(false, "C22:skl.arena.getnode-offset-is-a-node")
		return nil
	})
	vpStub("(*badger/skl.Arena).getNodeOffset", func(s *Arena, nd *node) uint32 {
		if nd == nil {
			return 0
		}
		for i, n := range e.nodes {
			if n == nd {
				return e.offs[i]
			}
		}
		vpAssert(false, "C22:skl.arena.getnodeoffset-of-arena-node")
		return 0
	})
	// tower heights: FastRand is symbolic; randomHeight stops at the first value above
	// heightIncrease, and the stub forces that after maxH-1 consecutive successes. (The
	// branch below is the very comparison randomHeight makes next, so it costs no extra path.)
	vpStub("github.com/dgraph-io/ristretto/v2/z.FastRand", func() uint32 {
		r := vpU32("env.rand")
		if e.randCall >= e.maxH-1 {
			vpAssume(r > heightIncrease)
			e.randCall = 0
			return r
		}
		if r <= heightIncrease {
			e.randCall++
		} else {
			e.randCall = 0
		}
		return r
	})
}

// truncated towers: a node of height h owns only tower[0..h); the rest of the array
// belongs to later allocations and must never be written.
func (e *vpSklEnv) checkTowers() {
	for i, n := range e.nodes {
		for l := e.heights[i]; l < maxHeight; l++ {
			vpAssert(n.tower[l].Load() == 0, "C22:skl.tower-above-height-untouched")
		}
	}
}

type vpSklPut struct {
	uk   []byte
	ts   uint64
	key  []byte
	v    y.ValueStruct
	live bool // symbolic: not overwritten by a later put of the same internal key
}

func vpSklNewPut(klenMax int, vlen int, expMax uint64) *vpSklPut {
	p := &vpSklPut{}
	p.uk = vpBytes("key", 1+vpChoose("klen", klenMax))
	p.ts = vpU64("ts")
	p.key = y.KeyWithTs(p.uk, p.ts)
	p.v = y.ValueStruct{
		Meta:      vpU8("meta"),
		UserMeta:  vpU8("usermeta"),
		ExpiresAt: vpU64("expires"),
		Value:     vpBytes("val", vlen),
	}
	vpAssume(p.v.ExpiresAt < expMax)
	return p
}

// reference order on internal keys: user key ascending, then version descending
func vpSklLess(ua []byte, ta uint64, ub []byte, tb uint64) bool {
	return vpOr(string(ua) < string(ub), vpAnd(string(ua) == string(ub), ta > tb))
}

func vpSklSame(ua []byte, ta uint64, ub []byte, tb uint64) bool {
	return vpAnd(string(ua) == string(ub), ta == tb)
}

func vpSklValEq(a y.ValueStruct, b y.ValueStruct) bool {
	return vpAnd(vpAnd(a.Meta == b.Meta, a.UserMeta == b.UserMeta),
		vpAnd(a.ExpiresAt == b.ExpiresAt, bytes.Equal(a.Value, b.Value)))
}

// vpSklEntryOK: (key, val) read from the list is a live put's internal key and carries the
// value of the latest put of that internal key.
func vpSklEntryOK(puts []*vpSklPut, key []byte, val y.ValueStruct) bool {
	found := false
	ok := true
	for _, p := range puts {
		hit := vpAnd(p.live, bytes.Equal(key, p.key))
		found = vpOr(found, hit)
		ok = vpAnd(ok, vpImplies(hit, vpSklValEq(val, p.v)))
	}
	return vpAnd(found, ok)
}

func vpSklLiveCount(puts []*vpSklPut) int {
	n := 0
	for _, p := range puts {
		n += vpIteInt(p.live, 1, 0)
	}
	return n
}

func vpSklSetLive(puts []*vpSklPut) {
	for i, p := range puts {
		live := true
		for j := i + 1; j < len(puts); j++ {
			live = vpAnd(live, vpNot(vpSklSame(p.uk, p.ts, puts[j].uk, puts[j].ts)))
		}
		p.live = live
	}
}

// vpSklCheckLevels: every level is a strictly increasing sub-list of nodes tall enough.
func vpSklCheckLevels(s *Skiplist) {
	h := int(s.getHeight())
	ok := true
	for l := 0; l < h; l++ {
		var prev []byte
		for n := s.getNext(s.head, l); n != nil; n = s.getNext(n, l) {
			k := n.key(s.arena)
			if prev != nil {
				ok = vpAnd(ok, y.CompareKeys(prev, k) < 0)
			}
			vpAssert(int(n.height) > l, "C22:skl.level-within-node-height")
			prev = k
		}
	}
	vpAssert(ok, "C22:skl.level-sorted-strict")
}

// vpSklSetup: fresh list, nPuts symbolic puts through the real Put.
func vpSklSetup() (*Skiplist, *vpSklEnv, []*vpSklPut, int) {
	nPuts := vpParam("skl.puts", 3)
	klenMax := vpParam("skl.klen", 1)
	expMax := uint64(vpParam("skl.expmax", 128))
	e := &vpSklEnv{maxH: vpParam("skl.maxh", 3)}
	e.install()

	s := NewSkiplist(int64(vpParam("skl.arena", 512)))
	e.arena = s.arena
	vpAssert(s.Empty(), "C22:skl.new-is-empty")

	// value lengths alternate 0,1,0.. or 1,0,1..: an overwrite changes the value length
	vbase := vpChoose("vlen.base", 2)
	var puts []*vpSklPut
	for i := 0; i < nPuts; i++ {
		p := vpSklNewPut(klenMax, (vbase+i)%2, expMax)
		puts = append(puts, p)
		s.Put(p.key, p.v)
	}
	vpSklSetLive(puts)
	e.checkTowers()
	vpAssert(!s.Empty(), "C22:skl.nonempty-after-put")
	return s, e, puts, nPuts
}

// VpHSkl: puts, then structure and full iteration in both directions.
func VpHSkl() {
	s, _, puts, nPuts := vpSklSetup()
	vpSklCheckLevels(s)
	nLive := vpSklLiveCount(puts)

	it := s.NewIterator()
	cnt := 0
	var prev []byte
	sorted, entries := true, true
	for it.SeekToFirst(); it.Valid(); it.Next() {
		k := it.Key()
		if prev != nil {
			sorted = vpAnd(sorted, y.CompareKeys(prev, k) < 0)
		}
		entries = vpAnd(entries, vpSklEntryOK(puts, k, it.Value()))
		prev = k
		cnt++
		vpAssert(cnt <= nPuts, "C22:skl.iter.forward-terminates")
	}
	vpAssert(sorted, "C22,C05:skl.iter.forward-strictly-increasing")
	vpAssert(entries, "C22:skl.iter.forward.entries-are-latest-puts")
	vpAssert(cnt == nLive, "C22:skl.iter.forward-complete")
	vpObserveU64("iter.count", uint64(cnt))
	if cnt < nPuts {
		vpCover("skl.overwrite")
	}
	if cnt == nPuts {
		vpCover("skl.all-distinct")
	}
	if int(s.getHeight()) == 3 {
		vpCover("skl.height3")
	}

	cnt = 0
	prev = nil
	sorted, entries = true, true
	for it.SeekToLast(); it.Valid(); it.Prev() {
		k := it.Key()
		if prev != nil {
			sorted = vpAnd(sorted, y.CompareKeys(prev, k) > 0)
		}
		entries = vpAnd(entries, vpSklEntryOK(puts, k, it.Value()))
		prev = k
		cnt++
		vpAssert(cnt <= nPuts, "C22:skl.iter.backward-terminates")
	}
	vpAssert(sorted, "C22,C05:skl.iter.backward-strictly-decreasing")
	vpAssert(entries, "C22:skl.iter.backward.entries-are-latest-puts")
	vpAssert(cnt == nLive, "C22:skl.iter.backward-complete")
	_ = it.Close()

	for _, rev := range []bool{false, true} {
		u := s.NewUniIterator(rev)
		cnt = 0
		prev = nil
		ok := true
		for u.Rewind(); u.Valid(); u.Next() {
			k := u.Key()
			if prev != nil {
				c := y.CompareKeys(prev, k)
				ok = vpAnd(ok, vpIteBool(rev, c > 0, c < 0))
			}
			ok = vpAnd(ok, vpSklEntryOK(puts, k, u.Value()))
			prev = k
			cnt++
			vpAssert(cnt <= nPuts, "C22:skl.uni-terminates")
		}
		vpAssert(vpAnd(ok, cnt == nLive), "C22,C05:skl.uni.sorted-complete-latest")
		_ = u.Close()
	}
	vpAssert(s.ref.Load() == 1, "C22:skl.refcount-balanced")
}

// VpHSklSeek: puts, then Get / Seek / SeekForPrev / UniIterator.Seek with one symbolic probe.
func VpHSklSeek() {
	s, _, puts, _ := vpSklSetup()
	klenMax := vpParam("skl.klen", 1)
	puk := vpBytes("probe", 1+vpChoose("probe.klen", klenMax))
	pts := vpU64("probe.ts")
	pkey := y.KeyWithTs(puk, pts)

	// Get: newest version <= pts of the same user key, else the zero ValueStruct
	got := s.Get(pkey)
	vpObserveU64("get.version", got.Version)
	vpObserveBytes("get.value", got.Value)
	any := false
	ok := true
	for _, p := range puts {
		cand := vpAnd(p.live, vpAnd(string(p.uk) == string(puk), p.ts <= pts))
		best := cand
		for _, q := range puts {
			qc := vpAnd(q.live, vpAnd(string(q.uk) == string(puk), q.ts <= pts))
			best = vpAnd(best, vpImplies(qc, q.ts <= p.ts))
		}
		any = vpOr(any, cand)
		ok = vpAnd(ok, vpImplies(best, vpAnd(got.Version == p.ts, vpSklValEq(got, p.v))))
	}
	vpAssert(ok, "C22:skl.get.newest-version-at-or-below")
	vpAssert(vpImplies(vpNot(any), vpAnd(vpAnd(got.Version == 0, got.Meta == 0),
		vpAnd(vpAnd(got.UserMeta == 0, got.ExpiresAt == 0), len(got.Value) == 0))), "C22:skl.get.absent-is-zero")
	if len(got.Value) > 0 {
		vpCover("skl.get.found")
	}

	// Seek: first entry >= probe; SeekForPrev: last entry <= probe
	anyGE, anyLE := false, false
	for _, p := range puts {
		anyGE = vpOr(anyGE, vpAnd(p.live, vpNot(vpSklLess(p.uk, p.ts, puk, pts))))
		anyLE = vpOr(anyLE, vpAnd(p.live, vpNot(vpSklLess(puk, pts, p.uk, p.ts))))
	}
	it := s.NewIterator()
	it.Seek(pkey)
	ok = it.Valid() == anyGE
	if it.Valid() {
		k := it.Key()
		ok = vpAnd(ok, vpSklEntryOK(puts, k, it.Value()))
		ok = vpAnd(ok, y.CompareKeys(k, pkey) >= 0)
		for _, p := range puts {
			ge := vpAnd(p.live, vpNot(vpSklLess(p.uk, p.ts, puk, pts)))
			ok = vpAnd(ok, vpImplies(ge, y.CompareKeys(k, p.key) <= 0))
		}
		vpCover("skl.seek.found")
	}
	vpAssert(ok, "C22:skl.seek.first-entry-at-or-after")

	it.SeekForPrev(pkey)
	ok = it.Valid() == anyLE
	if it.Valid() {
		k := it.Key()
		ok = vpAnd(ok, vpSklEntryOK(puts, k, it.Value()))
		ok = vpAnd(ok, y.CompareKeys(k, pkey) <= 0)
		for _, p := range puts {
			le := vpAnd(p.live, vpNot(vpSklLess(puk, pts, p.uk, p.ts)))
			ok = vpAnd(ok, vpImplies(le, y.CompareKeys(k, p.key) >= 0))
		}
		vpCover("skl.seekforprev.found")
	}
	vpAssert(ok, "C22:skl.seekforprev.last-entry-at-or-before")
	itKey := []byte(nil)
	if it.Valid() {
		itKey = it.Key()
	}
	_ = it.Close()

	// UniIterator.Seek is Seek / SeekForPrev by direction
	u := s.NewUniIterator(true)
	u.Seek(pkey)
	ok = u.Valid() == anyLE
	if u.Valid() && itKey != nil {
		ok = vpAnd(ok, bytes.Equal(u.Key(), itKey))
	}
	_ = u.Close()
	u = s.NewUniIterator(false)
	u.Seek(pkey)
	ok = vpAnd(ok, u.Valid() == anyGE)
	_ = u.Close()
	vpAssert(ok, "C22:skl.uni.seek-by-direction")
}

// VpHSklConc: concurrency clause of C22 under context-bounded preemption. After 0..1
// sequential puts, two goroutines run concurrently; the engine may preempt the running one
// immediately before any sync/atomic operation (tower load/CAS/store, value load/store,
// list-height load/CAS, arena allocation), at most skl.preempt times per path.
//   mode 0: Put(a) ‖ Put(b)        -> final list = map after "a,b" or after "b,a"
//   mode 1: Put(a) ‖ Get(probe)    -> result = Get on the map before or after Put(a)
//   mode 2: Put(a) ‖ forward scan  -> scan sorted, duplicate-free, = the map before or after
//   mode 3: Put(a) ‖ backward scan -> same
// and in every mode the final list is structurally sound (levels sorted, towers, arena).
func VpHSklConc() {
	klenMax := vpParam("skl.klen", 1)
	expMax := uint64(vpParam("skl.expmax", 128))
	nPre := vpParam("skl.pre", 1)
	e := &vpSklEnv{maxH: vpParam("skl.maxh", 2)}
	e.install()
	s := NewSkiplist(int64(vpParam("skl.arena", 512)))
	e.arena = s.arena

	var pre []*vpSklPut
	for i := 0; i < nPre; i++ {
		p := vpSklNewPut(klenMax, i%2, expMax)
		pre = append(pre, p)
		s.Put(p.key, p.v)
	}
	a := vpSklNewPut(klenMax, 1, expMax)
	mode := vpChoose("mode", vpParam("skl.modes", 4))

	// reference states: before = pre; after = pre + a
	before := pre
	after := append(append([]*vpSklPut{}, pre...), a)

	// consistent(list, puts): list is exactly the sorted map after the puts in that order
	scanOK := func(keys [][]byte, vals []y.ValueStruct, puts []*vpSklPut, rev bool) bool {
		vpSklSetLive(puts)
		ok := len(keys) == vpSklLiveCount(puts)
		for i := range keys {
			ok = vpAnd(ok, vpSklEntryOK(puts, keys[i], vals[i]))
			if i > 0 {
				c := y.CompareKeys(keys[i-1], keys[i])
				ok = vpAnd(ok, vpIteBool(rev, c > 0, c < 0))
			}
		}
		return ok
	}
	getOK := func(got y.ValueStruct, puk []byte, pts uint64, puts []*vpSklPut) bool {
		vpSklSetLive(puts)
		any := false
		ok := true
		for _, p := range puts {
			cand := vpAnd(p.live, vpAnd(string(p.uk) == string(puk), p.ts <= pts))
			best := cand
			for _, q := range puts {
				qc := vpAnd(q.live, vpAnd(string(q.uk) == string(puk), q.ts <= pts))
				best = vpAnd(best, vpImplies(qc, q.ts <= p.ts))
			}
			any = vpOr(any, cand)
			ok = vpAnd(ok, vpImplies(best, vpAnd(got.Version == p.ts, vpSklValEq(got, p.v))))
		}
		zero := vpAnd(vpAnd(got.Version == 0, got.Meta == 0), vpAnd(vpAnd(got.UserMeta == 0, got.ExpiresAt == 0), len(got.Value) == 0))
		return vpAnd(ok, vpImplies(vpNot(any), zero))
	}
	scan := func(rev bool) ([][]byte, []y.ValueStruct) {
		var keys [][]byte
		var vals []y.ValueStruct
		it := s.NewIterator()
		if rev {
			it.SeekToLast()
		} else {
			it.SeekToFirst()
		}
		for it.Valid() {
			keys = append(keys, it.Key())
			vals = append(vals, it.Value())
			vpAssert(len(keys) <= nPre+2, "C22:skl.conc.scan-terminates")
			if rev {
				it.Prev()
			} else {
				it.Next()
			}
		}
		_ = it.Close()
		return keys, vals
	}

	var b *vpSklPut
	var puk []byte
	var pts uint64
	switch mode {
	case 0:
		b = vpSklNewPut(klenMax, 0, expMax)
	case 1:
		puk = vpBytes("probe", 1+vpChoose("probe.klen", klenMax))
		pts = vpU64("probe.ts")
	}
	first := vpChoose("first", 2)

	done := make(chan struct{}, 2)
	putA := func() {
		s.Put(a.key, a.v)
		done <- struct{}{}
	}
	other := func() {
		switch mode {
		case 0:
			s.Put(b.key, b.v)
		case 1:
			got := s.Get(y.KeyWithTs(puk, pts))
			vpAssert(vpOr(getOK(got, puk, pts, before), getOK(got, puk, pts, after)), "C22:skl.conc.get-sees-before-or-after")
			vpCover("skl.conc.get")
		case 2, 3:
			keys, vals := scan(mode == 3)
			vpAssert(vpOr(scanOK(keys, vals, before, mode == 3), scanOK(keys, vals, after, mode == 3)), "C22,C05:skl.conc.scan-sees-before-or-after")
			vpCover("skl.conc.scan")
		}
		done <- struct{}{}
	}
	vpConfig("preempt", vpParam("skl.preempt", 1))
	if first == 0 {
		go putA()
		go other()
	} else {
		go other()
		go putA()
	}
	<-done
	<-done
	vpConfig("preempt", 0)

	// final state
	e.checkTowers()
	vpSklCheckLevels(s)
	keys, vals := scan(false)
	if mode == 0 {
		ab := append(append([]*vpSklPut{}, pre...), a, b)
		ba := append(append([]*vpSklPut{}, pre...), b, a)
		okAB := scanOK(keys, vals, ab, false)
		okBA := scanOK(keys, vals, ba, false)
		vpAssert(vpOr(okAB, okBA), "C22:skl.conc.final-is-some-serial-order")
		vpCover("skl.conc.two-puts")
	} else {
		vpAssert(scanOK(keys, vals, after, false), "C22:skl.conc.final-is-map-after-put")
	}
	rkeys, rvals := scan(true)
	ok := len(rkeys) == len(keys)
	for i := range rkeys {
		j := len(keys) - 1 - i
		if j >= 0 {
			ok = vpAnd(ok, vpAnd(bytes.Equal(rkeys[i], keys[j]), vpSklValEq(rvals[i], vals[j])))
		}
	}
	vpAssert(ok, "C22:skl.conc.final-backward-mirrors-forward")
}

// VpHSklHeld: a reader that obtained an entry (through Get, a forward iterator or a UniIterator)
// keeps seeing exactly that entry while later puts overwrite the same internal key or insert
// other keys: the ValueStruct handed out aliases arena bytes, and the list relies on arena bytes
// never changing once published ("readers never see torn entries" for entries that are held
// across a concurrent writer's put; the writer here runs between the read and its use).
func VpHSklHeld() {
	klenMax := vpParam("skl.klen", 1)
	expMax := uint64(vpParam("skl.expmax", 128))
	e := &vpSklEnv{maxH: vpParam("skl.maxh", 2)}
	e.install()
	s := NewSkiplist(int64(vpParam("skl.arena", 512)))
	e.arena = s.arena

	// first version of the entry: value of 1..2 bytes
	p1 := vpSklNewPut(klenMax, 1+vpChoose("vlen1", 2), expMax)
	s.Put(p1.key, p1.v)

	// the reader takes the entry
	var held y.ValueStruct
	var heldKey []byte
	switch vpChoose("reader", 3) {
	case 0:
		held = s.Get(p1.key)
		heldKey = p1.key
		vpCover("skl.held.get")
	case 1:
		it := s.NewIterator()
		it.SeekToFirst()
		held, heldKey = it.Value(), it.Key()
		_ = it.Close()
		vpCover("skl.held.iterator")
	case 2:
		it := s.NewUniIterator(vpChoose("uni.reversed", 2) == 1)
		it.Rewind()
		held, heldKey = it.Value(), it.Key()
		_ = it.Close()
		vpCover("skl.held.uni")
	}
	vpAssert(vpAnd(bytes.Equal(heldKey, p1.key), vpSklValEq(held, p1.v)), "C22:skl.held.read-is-the-put")

	// the writer: overwrite of the same internal key with a value that is shorter, equal or
	// longer, or a put of another key
	var p2 *vpSklPut
	if vpChoose("writer", 2) == 0 {
		p2 = &vpSklPut{uk: p1.uk, ts: p1.ts, key: y.KeyWithTs(p1.uk, p1.ts)}
		p2.v = y.ValueStruct{Meta: vpU8("meta2"), UserMeta: vpU8("usermeta2"), ExpiresAt: vpU64("expires2"),
			Value: vpBytes("val2", vpChoose("vlen2", 4))}
		vpAssume(p2.v.ExpiresAt < expMax)
		vpCover("skl.held.overwrite")
	} else {
		p2 = vpSklNewPut(klenMax, vpChoose("vlen2", 3), expMax)
		vpCover("skl.held.other-key")
	}
	s.Put(p2.key, p2.v)

	// what the reader holds is still the first put, byte for byte
	vpAssert(vpAnd(bytes.Equal(heldKey, p1.key), vpSklValEq(held, p1.v)), "C22:skl.held.entry-unchanged-by-later-put")
	// and a new read sees the latest put of the key
	got := s.Get(p1.key)
	same := vpSklSame(p1.uk, p1.ts, p2.uk, p2.ts)
	vpAssert(vpAnd(vpImplies(same, vpSklValEq(got, p2.v)), vpImplies(vpNot(same), vpSklValEq(got, p1.v))), "C22:skl.held.new-read-sees-latest")
	e.checkTowers()
}

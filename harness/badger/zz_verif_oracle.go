package badger

// H-ORACLE: the real oracle (newOracle, readTs, newCommitTs, hasConflict,
// cleanupCommittedTransactions, doneRead, doneCommit) with its two real WaterMark
// goroutines, driven by an arbitrary bounded sequence of transaction life-cycle steps.
// Read and write fingerprints are arbitrary 64-bit values (possibly equal).

type vpTxnState struct {
	txn      *Txn
	phase    int // 0 new, 1 starting, 2 active, 3 committed (not yet done), 4 finished
	cts      uint64
	rejected bool
	writes   []uint64
}

func VpHOracle() {
	vpConfig("defer-asserts", 1)
	o := newOracle(Options{DetectConflicts: true})
	ts0 := vpU64("ts0")
	vpAssume(ts0 < 1<<40)
	// as in Open(): everything up to the largest stored version is done
	o.nextTxnTs = ts0
	o.txnMark.Done(ts0)
	o.readMark.Done(ts0)
	o.incrementNextTs()

	nT := vpParam("oracle.txns", 3)
	steps := vpParam("oracle.steps", 5)
	ts := make([]*vpTxnState, nT)
	for i := range ts {
		t := &Txn{update: true, conflictKeys: map[uint64]struct{}{}}
		nr := 1 + vpChoose("nreads", 2)
		for r := 0; r < nr; r++ {
			t.reads = append(t.reads, vpU64("read"))
		}
		w := vpU64("write")
		t.conflictKeys[w] = struct{}{}
		ts[i] = &vpTxnState{txn: t, writes: []uint64{w}}
	}
	var lastCts uint64
	hasCts := false

	for s := 0; s < steps; s++ {
		i := vpChoose("txn", nT)
		st := ts[i]
		switch st.phase {
		case 0:
			st.phase = 1
			go func() {
				rts := o.readTs()
				st.txn.readTs = rts
				// no commit at or below the snapshot may still be in flight
				for _, other := range ts {
					if other.phase == 3 {
						vpAssert(other.cts > rts, "C34,C03,C01:oracle.readts-waits-for-commits")
					}
				}
				vpCover("oracle.started")
				st.phase = 2
			}()
		case 1:
			// still waiting for the read timestamp: nothing to do
		case 2:
			if vpChoose("commit-or-discard", 2) == 1 {
				o.doneRead(st.txn)
				st.phase = 4
				vpCover("oracle.discarded")
				break
			}
			// reference: some transaction committed after our snapshot wrote what we read
			expect := false
			for _, other := range ts {
				if other == st || other.phase < 3 || other.rejected {
					continue
				}
				hit := false
				for _, r := range st.txn.reads {
					for _, w := range other.writes {
						hit = vpOr(hit, r == w)
					}
				}
				expect = vpOr(expect, vpAnd(other.cts > st.txn.readTs, hit))
			}
			cts, conflict := o.newCommitTs(st.txn)
			vpAssert(conflict == expect, "C02:oracle.conflict-iff-overlap")
			if conflict {
				vpCover("oracle.rejected")
				o.doneRead(st.txn) // Txn.Discard
				st.rejected = true
				st.phase = 4
				break
			}
			vpCover("oracle.committed")
			vpAssert(cts > st.txn.readTs, "C03:oracle.cts-above-snapshot")
			if hasCts {
				vpAssert(cts > lastCts, "C03:oracle.cts-increasing")
			}
			lastCts, hasCts = cts, true
			st.cts = cts
			st.phase = 3
		case 3:
			o.doneCommit(st.cts)
			st.phase = 4
			vpCover("oracle.done")
		}
		if vpBool("lag") {
			vpYield() // the watermark goroutines may or may not have caught up
		}
		// discard watermark never passes an active reader
		du := o.discardAtOrBelow()
		for _, t := range ts {
			if t.phase == 2 {
				vpAssert(du <= t.txn.readTs, "C13,C12,C34:oracle.discard-below-active-readers")
			}
		}
	}
}

// H-ORACLE (managed mode): the caller chooses read and commit timestamps, in any order (commit
// timestamps need not increase in call order), and raises the discard timestamp at any time.
// Real: oracle.newCommitTs, hasConflict, setDiscardTs, cleanupCommittedTransactions,
// discardAtOrBelow, doneCommit. Preconditions of managed mode (documented with SetDiscardTs /
// asserted by the code itself): a commit timestamp is >= the discard timestamp in force, and no
// transaction reads below the discard timestamp.
func VpHOracleManaged() {
	vpConfig("defer-asserts", 1)
	o := newOracle(Options{DetectConflicts: true, managedTxns: true})
	o.isManaged = true
	nT := vpParam("oraclem.txns", 3)
	type done struct {
		cts    uint64
		writes []uint64
	}
	var accepted []done
	discard := uint64(0)
	for i := 0; i < nT; i++ {
		if vpChoose("raise-discard", 2) == 1 {
			d := vpU64("discardTs")
			vpAssume(vpAnd(d >= discard, d < 1<<62))
			discard = d
			o.setDiscardTs(d)
			vpCover("oraclem.discard-raised")
			vpAssert(o.discardAtOrBelow() == d, "C36,C13:oraclem.discard-is-callers")
		}
		t := &Txn{update: true, conflictKeys: map[uint64]struct{}{}}
		t.readTs = vpU64("readTs")
		t.commitTs = vpU64("commitTs")
		vpAssume(vpAnd(t.readTs >= discard, t.readTs < 1<<62))
		vpAssume(vpAnd(t.commitTs >= discard, t.commitTs < 1<<62))
		nr := 1 + vpChoose("nreads", 2)
		for r := 0; r < nr; r++ {
			t.reads = append(t.reads, vpU64("read"))
		}
		w := vpU64("write")
		t.conflictKeys[w] = struct{}{}

		// reference: an accepted commit above our snapshot wrote a fingerprint we read
		expect := false
		for _, a := range accepted {
			hit := false
			for _, r := range t.reads {
				for _, aw := range a.writes {
					hit = vpOr(hit, r == aw)
				}
			}
			expect = vpOr(expect, vpAnd(a.cts > t.readTs, hit))
		}
		cts, conflict := o.newCommitTs(t)
		vpAssert(conflict == expect, "C02,C36:oraclem.conflict-iff-overlap")
		if conflict {
			vpCover("oraclem.rejected")
			continue
		}
		vpCover("oraclem.committed")
		vpAssert(cts == t.commitTs, "C36,C03:oraclem.commit-ts-is-callers")
		o.doneCommit(cts)
		accepted = append(accepted, done{cts: cts, writes: []uint64{w}})
	}
}

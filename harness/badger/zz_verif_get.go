package badger

import (
	"bytes"
	"time"

	"github.com/dgraph-io/badger/v4/skl"
	"github.com/dgraph-io/badger/v4/table"
	"github.com/dgraph-io/badger/v4/y"
	"github.com/dgraph-io/ristretto/v2/z"
)

// What one source (memtable or table) does when it is asked for the key.
const (
	vpgAbsent      = iota // the source does not exist (no imm / table not in the level)
	vpgRangeSkip          // level >= 1 only: the table's biggest key is below the seek key
	vpgBloomNo            // table: bloom filter says "not here"
	vpgSeekInvalid        // table: seek runs off the end of the table
	vpgSeekOther          // table: seek lands on a larger user key
	vpgEmpty              // memtable: skiplist has no version <= readTs of the key
	vpgCand               // the source holds a version <= readTs of the key: the candidate
)

// vpgSrc is one source of the point read. Priority order (earliest first) is the order in
// which badger must prefer sources holding the same internal key:
// mt, imm, L0 newest first, L1, L2.
type vpgSrc struct {
	name  string
	level int // -1 memtable, else LSM level
	mode  int
	// the candidate (mode == vpgCand): the entry with the largest version <= readTs of the user
	// key in this source
	ver   uint64
	meta  byte
	umeta byte
	exp   uint64
	val   []byte

	sl       *skl.Skiplist
	tbl      *table.Table
	biggest  []byte // tables of level >= 1
	otherKey []byte // vpgSeekOther
}

func vpgPick(name string, opts []int) int {
	if len(opts) == 1 {
		return opts[0]
	}
	return opts[vpChoose(name, len(opts))]
}

// H-GET: the real Txn.Get -> DB.get -> levelsController.get -> levelHandler.get /
// getTableForKey -> isDeletedOrExpired / addReadKey over hand-built DB state: mt, <= 1 imm,
// <= 2 L0 tables, L1 and L2 with <= 1 table each. The per-source lookups are stubbed by their
// contract (see the vpStub calls); everything that combines the sources is real.
func VpHGet() {
	// ---- which case ----
	// 0 pending  : update txn, the key is among the pending writes (all six sources hold candidates)
	// 1 readonly : read-only txn, candidates in mt and L1
	// 2 all      : update txn, all six sources hold a candidate
	// 3 focus mt : mt does not hold the key; imm and L0new hold candidates
	// 4 focus imm: imm is absent or does not hold the key; mt and L0new hold candidates
	// 5..8 focus : table slot L0new/L0old/L1/L2 goes through every way of not holding the key
	//              (absent, out of range, bloom, seek off the end, seek lands on a larger key); the
	//              neighbouring table (other L0 table / other deep level) holds a candidate, mt does
	//              not, no imm
	// 9 wide     : every source exists and holds a candidate or not (memtable: no entry; table:
	//              seek lands on a larger key)                                   (get.full >= 1)
	// 10 complete: every slot takes every option                               (get.full == 2)
	// In cases 1 and 3..8 the sources not mentioned exist and do not hold the key (memtable: no
	// entry; table: seek lands on a larger user key).
	full := vpParam("get.full", 0)
	cs := vpChoose("case", 9+full)
	if only := vpParam("get.case", -1); only >= 0 {
		vpAssume(cs == only) // debugging aid: a single case
	}
	// user key of 1 byte, in cases 0..8 of 1..get.keylen bytes
	kl := 1
	if cs < 9 {
		kl = 1 + vpChoose("keylen", vpParam("get.keylen", 1))
	}
	key := vpBytes("key", kl)
	readTs := vpU64("readTs")
	vpAssume(readTs >= 1)
	now := vpU64("now")
	vpAssume(now < 1<<40)
	vpStub("time.Now", func() time.Time { return time.Unix(int64(now), 0) })
	seek := y.KeyWithTs(key, readTs)
	update := cs != 1

	srcs := []*vpgSrc{
		{name: "mt", level: -1}, {name: "imm", level: -1},
		{name: "L0new", level: 0}, {name: "L0old", level: 0},
		{name: "L1", level: 1}, {name: "L2", level: 2},
	}
	for i, s := range srcs {
		none := vpgSeekOther
		if s.level < 0 {
			none = vpgEmpty
		}
		opts := []int{none}
		switch {
		case cs == 0 || cs == 2:
			opts = []int{vpgCand}
		case cs == 1:
			if i == 0 || i == 4 {
				opts = []int{vpgCand}
			}
		case cs == 3:
			if i == 1 || i == 2 {
				opts = []int{vpgCand}
			}
		case cs == 4:
			if i == 0 || i == 2 {
				opts = []int{vpgCand}
			} else if i == 1 {
				opts = []int{vpgAbsent, vpgEmpty}
			}
		case cs >= 5 && cs <= 8:
			focus := cs - 3                  // slots 2..5
			sibling := 2 + ((focus - 2) ^ 1) // 2<->3, 4<->5
			switch {
			case i == focus && s.level == 0:
				opts = []int{vpgAbsent, vpgBloomNo, vpgSeekInvalid, vpgSeekOther}
			case i == focus:
				opts = []int{vpgAbsent, vpgRangeSkip, vpgBloomNo, vpgSeekInvalid, vpgSeekOther}
			case i == 1:
				opts = []int{vpgAbsent}
			case i == sibling:
				opts = []int{vpgCand}
			}
		case cs == 9:
			opts = []int{none, vpgCand}
		default: // complete
			switch {
			case i == 0:
				opts = []int{vpgEmpty, vpgCand}
			case i == 1:
				opts = []int{vpgAbsent, vpgEmpty, vpgCand}
			case s.level == 0:
				opts = []int{vpgAbsent, vpgBloomNo, vpgSeekInvalid, vpgSeekOther, vpgCand}
			default:
				opts = []int{vpgAbsent, vpgRangeSkip, vpgBloomNo, vpgSeekInvalid, vpgSeekOther, vpgCand}
			}
		}
		s.mode = vpgPick(s.name, opts)
	}
	// value length of the candidates: 1 byte; with get.emptyval=1 also the empty (non-nil) value
	vlen := 1
	if vpParam("get.emptyval", 0) == 1 && cs < 9 {
		vlen = vpChoose("vlen", 2)
	}

	// ---- symbolic content ----
	for _, s := range srcs {
		switch s.mode {
		case vpgCand:
			s.ver, s.meta, s.umeta, s.exp = vpU64(s.name+".ver"), vpU8(s.name+".meta"), vpU8(s.name+".umeta"), vpU64(s.name+".exp")
			s.val = vpBytes(s.name+".val", vlen)
			// contract of the lookup: a version of the key at or below the requested one; versions >= 1
			vpAssume(vpAnd(s.ver >= 1, s.ver <= readTs))
		case vpgSeekOther:
			ok := vpBytes(s.name+".otherkey", kl)
			vpAssume(bytes.Compare(ok, key) > 0)
			s.otherKey = y.KeyWithTs(ok, vpU64(s.name+".otherver"))
		}
		if s.level >= 1 && s.mode != vpgAbsent {
			// tables of level >= 1 are found by key range. A table that holds an entry of the key
			// with version <= readTs, or any larger key, has biggest >= seek key.
			bu, bver := vpBytes(s.name+".biggest", kl), vpU64(s.name+".biggestver")
			s.biggest = y.KeyWithTs(bu, bver)
			above := bytes.Compare(bu, key) > 0
			if full >= 1 && cs < 9 {
				// any key on the required side of the seek key (same user key: smaller ts = larger key)
				geSeek := vpOr(above, vpAnd(bytes.Equal(bu, key), bver <= readTs))
				if s.mode == vpgRangeSkip {
					vpAssume(vpNot(geSeek))
				} else if s.mode == vpgCand || s.mode == vpgSeekOther {
					vpAssume(geSeek)
				}
				// vpgBloomNo, vpgSeekInvalid: either side; below the seek key the table is not consulted
			} else if s.mode == vpgRangeSkip {
				vpAssume(bytes.Compare(bu, key) < 0)
			} else {
				vpAssume(above)
			}
		}
	}

	// ---- build the DB ----
	db := &DB{}
	db.opt.NamespaceOffset = -1
	newMem := func(s *vpgSrc) *memTable {
		s.sl = &skl.Skiplist{}
		s.sl.IncrRef() // the reference held by the DB
		return &memTable{sl: s.sl}
	}
	db.mt = newMem(srcs[0])
	if srcs[1].mode != vpgAbsent {
		db.imm = []*memTable{newMem(srcs[1])}
	}
	lc := &levelsController{kv: db}
	for lvl := 0; lvl < 3; lvl++ {
		lc.levels = append(lc.levels, &levelHandler{level: lvl, strLevel: "l", db: db})
	}
	addTbl := func(s *vpgSrc) {
		if s.mode == vpgAbsent {
			return
		}
		s.tbl = &table.Table{}
		s.tbl.IncrRef() // the reference held by the level
		h := lc.levels[s.level]
		h.tables = append(h.tables, s.tbl)
	}
	addTbl(srcs[3]) // L0: oldest table first, newest last
	addTbl(srcs[2])
	addTbl(srcs[4])
	addTbl(srcs[5])
	db.lc = lc

	// ---- stubs: the per-source lookups, by contract ----
	lookups := 0
	srcOfSl := func(sl *skl.Skiplist) *vpgSrc {
		for _, s := range srcs {
			if s.sl != nil && s.sl == sl {
				return s
			}
		}
		return nil
	}
	srcOfTbl := func(t *table.Table) *vpgSrc {
		for _, s := range srcs {
			if s.tbl != nil && s.tbl == t {
				return s
			}
		}
		return nil
	}
	// Skiplist.Get(key@ts): the entry of the user key with the largest version <= ts, with its
	// version filled in, or the zero ValueStruct. A found value is never a nil slice.
	vpStub("(*badger/skl.Skiplist).Get", func(sl *skl.Skiplist, k []byte) y.ValueStruct {
		lookups++
		vpAssert(bytes.Equal(k, seek), "C01:get.memtable-asked-for-key-at-readts")
		s := srcOfSl(sl)
		if s.mode != vpgCand {
			return y.ValueStruct{}
		}
		return y.ValueStruct{Meta: s.meta, UserMeta: s.umeta, ExpiresAt: s.exp, Value: s.val, Version: s.ver}
	})
	// bloom filter: may answer "absent" only for a table that does not hold the key
	vpStub("(*badger/table.Table).DoesNotHave", func(t *table.Table, hash uint32) bool {
		lookups++
		return srcOfTbl(t).mode == vpgBloomNo
	})
	vpStub("(*badger/table.Table).Biggest", func(t *table.Table) []byte { return srcOfTbl(t).biggest })
	// table iterator: NewIterator takes a table reference, Close drops it; Seek(key@ts) stands on the
	// first internal key >= key@ts, i.e. on the candidate, on a larger user key, or nowhere.
	// ValueCopy does not carry the version (it is not part of the encoded value).
	var iters []*table.Iterator
	var iterSrc []*vpgSrc
	srcOfIter := func(it *table.Iterator) *vpgSrc {
		for i := range iters {
			if iters[i] == it {
				return iterSrc[i]
			}
		}
		return nil
	}
	open := 0
	vpStub("(*badger/table.Table).NewIterator", func(t *table.Table, opt int) *table.Iterator {
		t.IncrRef()
		it := &table.Iterator{}
		iters = append(iters, it)
		iterSrc = append(iterSrc, srcOfTbl(t))
		open++
		return it
	})
	vpStub("(*badger/table.Iterator).Close", func(it *table.Iterator) error {
		open--
		return srcOfIter(it).tbl.DecrRef()
	})
	vpStub("(*badger/table.Iterator).Seek", func(it *table.Iterator, k []byte) {
		vpAssert(bytes.Equal(k, seek), "C01:get.table-asked-for-key-at-readts")
	})
	vpStub("(*badger/table.Iterator).Valid", func(it *table.Iterator) bool {
		m := srcOfIter(it).mode
		return m == vpgCand || m == vpgSeekOther
	})
	vpStub("(*badger/table.Iterator).Key", func(it *table.Iterator) []byte {
		s := srcOfIter(it)
		if s.mode == vpgCand {
			return y.KeyWithTs(key, s.ver)
		}
		return s.otherKey
	})
	vpStub("(*badger/table.Iterator).ValueCopy", func(it *table.Iterator) y.ValueStruct {
		s := srcOfIter(it)
		if s.mode == vpgCand {
			return y.ValueStruct{Meta: s.meta, UserMeta: s.umeta, ExpiresAt: s.exp, Value: append([]byte{}, s.val...)}
		}
		return y.ValueStruct{Value: []byte{}}
	})

	// ---- the transaction ----
	txn := &Txn{readTs: readTs, db: db, update: update}
	var pend *Entry
	if update {
		txn.pendingWrites = map[string]*Entry{}
		txn.conflictKeys = map[uint64]struct{}{}
		if cs == 0 {
			pend = &Entry{Key: key, Value: vpBytes("pend.val", 1), UserMeta: vpU8("pend.umeta"), ExpiresAt: vpU64("pend.exp"), meta: vpU8("pend.meta")}
			txn.pendingWrites[string(key)] = pend
		} else {
			ok := vpBytes("pend.otherkey", kl)
			vpAssume(!bytes.Equal(ok, key))
			txn.pendingWrites[string(ok)] = &Entry{Key: ok, Value: []byte{1}}
		}
	}

	// ---- run ----
	item, err := txn.Get(key)

	// ---- reference: newest candidate, earliest source on ties ----
	// Written as a case split (Go comparisons on the symbolic versions) after the run: where the
	// real code has already compared the same two versions the engine reuses that decision, all
	// other comparisons fork here. (An ite-chain over six 64-bit versions costs 0.3-1.5 s per
	// query; get.iteoracle=1 selects that form for cross-checking.) "Newest, earliest source on
	// ties" is an associative choice, so the two L0 tables are compared first, like any grouping.
	dead := func(meta byte, exp uint64) bool {
		return vpOr(meta&bitDelete > 0, vpAnd(exp != 0, exp <= now))
	}
	ncand := 0
	for _, s := range srcs {
		if s.mode == vpgCand {
			ncand++
		}
	}
	found := ncand > 0
	var wVer, wExp uint64
	var wMeta, wUmeta byte
	wVal := make([]byte, vlen)
	if cs == 0 {
		// served from the pending writes: the sources play no part
	} else if vpParam("get.iteoracle", 0) == 1 {
		first := true
		for _, s := range srcs {
			if s.mode != vpgCand {
				continue
			}
			better := vpOr(first, s.ver > wVer)
			wVer = vpIteU64(better, s.ver, wVer)
			wExp = vpIteU64(better, s.exp, wExp)
			wMeta = vpIteU8(better, s.meta, wMeta)
			wUmeta = vpIteU8(better, s.umeta, wUmeta)
			for j := range wVal {
				wVal[j] = vpIteU8(better, s.val[j], wVal[j])
			}
			first = false
		}
	} else {
		// the version as the real code sees it: tables deliver it inside the internal key
		seen := func(s *vpgSrc) uint64 {
			if s.level >= 0 {
				return y.ParseTs(y.KeyWithTs(key, s.ver))
			}
			return s.ver
		}
		var w *vpgSrc
		version := y.ParseTs(seek)
		for _, group := range [][]int{{0}, {1}, {2, 3}, {4}, {5}} {
			if w != nil && seen(w) == version {
				break // every candidate is <= readTs (lookup contract): nothing later can be newer
			}
			var gw *vpgSrc
			for _, i := range group {
				s := srcs[i]
				if s.mode != vpgCand {
					continue
				}
				if gw == nil || seen(s) > seen(gw) {
					gw = s
				}
			}
			if gw != nil && (w == nil || seen(gw) > seen(w)) {
				w = gw
			}
		}
		if w != nil {
			wVer, wExp, wMeta, wUmeta, wVal = w.ver, w.exp, w.meta, w.umeta, w.val
		}
	}
	absent := vpOr(!found, dead(wMeta, wExp))
	if cs == 0 {
		absent = dead(pend.meta, pend.ExpiresAt)
	}

	if err != nil {
		vpAssert(err == ErrKeyNotFound, "C01:get.only-error-is-notfound")
		vpAssert(item == nil, "C01:get.no-item-with-error")
		vpAssert(absent, "C01,C33,C36:get.notfound-only-if-newest-is-missing-deleted-or-expired")
		vpCover("get.notfound")
	} else {
		vpAssert(vpNot(absent), "C01,C33,C36:get.deleted-expired-or-missing-is-notfound")
		vpAssert(bytes.Equal(item.key, key), "C01:get.item-key")
		if cs == 0 {
			vpAssert(vpAnd(vpAnd(vpAnd(item.meta == pend.meta, item.userMeta == pend.UserMeta),
				vpAnd(item.expiresAt == pend.ExpiresAt, item.version == readTs)),
				vpAnd(item.status == prefetched, bytes.Equal(item.val, pend.Value))), "C04,C01:get.pending-write-wins")
			vpCover("get.from-pending")
		} else {
			// one obligation (one solver query): version, meta, user meta, expiry and value are the winner's
			vpAssert(vpAnd(vpAnd(item.version == wVer, vpAnd(item.meta == wMeta, item.userMeta == wUmeta)),
				vpAnd(item.expiresAt == wExp, vpAnd(len(item.vptr) == vlen, bytes.Equal(item.vptr, wVal)))),
				"C01,C33,C36:get.item-is-newest-version-at-or-below-readts")
			vpCover("get.found")
			if ncand >= 2 {
				vpCover("get.found-among-several")
			}
		}
	}
	// read tracking: recorded exactly when an update txn is served from the DB
	if update && cs != 0 {
		vpAssert(len(txn.reads) == 1, "C02:get.read-fingerprint-recorded")
		if len(txn.reads) == 1 {
			vpAssert(txn.reads[0] == z.MemHash(key), "C02:get.read-fingerprint-is-of-key")
		}
	} else {
		vpAssert(len(txn.reads) == 0, "C02:get.no-read-recorded")
	}
	if cs == 0 {
		vpAssert(lookups == 0, "C04:get.pending-hit-does-not-touch-db")
	}
	vpAssert(open == 0, "C01:get.table-iterators-closed")
	if !update {
		vpCover("get.readonly")
	}
	for _, s := range srcs {
		switch s.mode {
		case vpgBloomNo:
			vpCover("get.bloom-no")
		case vpgRangeSkip:
			vpCover("get.range-skip")
		case vpgSeekInvalid:
			vpCover("get.seek-invalid")
		case vpgSeekOther:
			vpCover("get.seek-other")
		}
	}
	vpObserveBool("notfound", err != nil)
}

package badger

import (
	"bytes"
	"context"
	"encoding/binary"

	"github.com/dgraph-io/badger/v4/pb"
	"github.com/dgraph-io/badger/v4/skl"
	"github.com/dgraph-io/badger/v4/y"
	"github.com/dgraph-io/ristretto/v2/z"
)

// vpsSource is a DB whose only data source is the memtable, and the memtable's skiplist iterator
// is a list iterator over the harness-held sorted entry list `ents` (Skiplist.NewUniIterator and
// the UniIterator methods are stubbed; no LSM levels). Everything above it is real: DB.NewStream*,
// NewTransaction/NewTransactionAt/newTransaction, Txn.NewIterator, the badger Iterator,
// Stream.produceKVs with its iterate closure, Txn.Discard.
type vpsSource struct {
	db         *DB
	ents       []vpsEnt
	lists      []*vpsList
	unis       []*skl.UniIterator
	nextReadTs func() uint64 // what oracle.readTs hands out (non-managed mode)
	iterReadTs []uint64      // read timestamp of every iterator the stream created
	bufs       *vpsBufs
}

func (s *vpsSource) listOf(u *skl.UniIterator) *vpsList {
	for i := range s.unis {
		if s.unis[i] == u {
			return s.lists[i]
		}
	}
	return nil
}

func vpsNewSource(managed bool, keep int) *vpsSource {
	s := &vpsSource{bufs: &vpsBufs{}}
	db := &DB{}
	db.opt.NamespaceOffset = -1
	db.opt.NumVersionsToKeep = keep
	db.opt.NumGoroutines = 1
	db.opt.managedTxns = managed
	db.orc = &oracle{isManaged: managed}
	sl := &skl.Skiplist{}
	sl.IncrRef()
	sl.IncrRef()
	db.mt = &memTable{sl: sl}
	db.lc = &levelsController{kv: db}
	s.db = db
	s.bufs.install()
	vpsAllocStubs()
	vpStub("(*badger/skl.Skiplist).NewUniIterator", func(l *skl.Skiplist, reversed bool) *skl.UniIterator {
		u := &skl.UniIterator{}
		s.unis = append(s.unis, u)
		s.lists = append(s.lists, vpsListOf(s.ents))
		return u
	})
	vpStub("(*badger/skl.UniIterator).Next", func(u *skl.UniIterator) { s.listOf(u).Next() })
	vpStub("(*badger/skl.UniIterator).Rewind", func(u *skl.UniIterator) { s.listOf(u).Rewind() })
	vpStub("(*badger/skl.UniIterator).Seek", func(u *skl.UniIterator, key []byte) { s.listOf(u).Seek(key) })
	vpStub("(*badger/skl.UniIterator).Key", func(u *skl.UniIterator) []byte { return s.listOf(u).Key() })
	vpStub("(*badger/skl.UniIterator).Value", func(u *skl.UniIterator) y.ValueStruct { return s.listOf(u).Value() })
	vpStub("(*badger/skl.UniIterator).Valid", func(u *skl.UniIterator) bool { return s.listOf(u).Valid() })
	vpStub("(*badger/skl.UniIterator).Close", func(u *skl.UniIterator) error { return nil })
	// the oracle: read timestamps come from the harness; read marks are C34's business
	vpStub("(*badger.oracle).readTs", func(o *oracle) uint64 { return s.nextReadTs() })
	vpStub("(*badger.oracle).doneRead", func(o *oracle, txn *Txn) { txn.doneRead = true })
	// observe the snapshot every stream iterator reads at (the real NewIterator runs inside)
	vpStub("(*badger.Txn).NewIterator", func(txn *Txn, opt IteratorOptions) *Iterator {
		it := txn.NewIterator(opt)
		s.iterReadTs = append(s.iterReadTs, it.readTs)
		return it
	})
	return s
}

// runProducer: one producer goroutine of Orchestrate (the real produceKVs) working off the given
// ranges; returns the buffers it put on kvChan.
func (s *vpsSource) runProducer(st *Stream, threadId int, ranges []keyRange) ([]*z.Buffer, error) {
	st.rangeCh = make(chan keyRange, len(ranges)+1)
	for _, r := range ranges {
		st.rangeCh <- r
	}
	close(st.rangeCh)
	st.kvChan = make(chan *z.Buffer, 32)
	err := st.produceKVs(context.Background(), threadId)
	close(st.kvChan)
	var out []*z.Buffer
	for b := range st.kvChan {
		out = append(out, b)
	}
	return out, err
}

func vpsSplitKey(shape int, name string) []byte {
	b := vpBytes(name, 1)
	if shape == 1 {
		// the real split points are internal keys (table.Biggest, block base keys, skiplist keys):
		// user key followed by 8 bytes of timestamp
		var ts [8]byte
		binary.BigEndian.PutUint64(ts[:], vpU64(name+".ts"))
		b = append(b, ts[:]...)
	}
	return b
}

// H-STREAM. part 0: DB.Ranges / Stream.produceRanges; part 1: Stream.produceKVs.
func VpHStreamRanges() {
	part := vpChoose("part", 2)
	if only := vpParam("sr.part", -1); only >= 0 {
		vpAssume(part == only)
	}
	if part == 0 {
		vpsRangesPart()
	} else {
		vpsProducePart()
	}
}

// (a) the real DB.Ranges and Stream.produceRanges. Split points come from DB.Tables (table infos),
// levelsController.keySplits and the mutable memtable, all three stubbed by arbitrary keys.
func vpsRangesPart() {
	db := &DB{}
	db.opt.NamespaceOffset = -1
	db.opt.MaxLevels = 7
	db.lc = &levelsController{kv: db}
	var prefix []byte
	if vpChoose("prefix", 2) == 1 {
		prefix = vpBytes("prefix", 1)
		vpCover("sr.ranges-prefix")
	}
	mkKey := func(name string) []byte { // an internal key: 1-byte user key + timestamp
		return vpsSplitKey(1, name)
	}
	// table infos (sizes; their Right keys are split candidates when on the last level)
	nt := vpChoose("ntables", 1+vpParam("sr.tables", 1))
	var infos []TableInfo
	for i := 0; i < nt; i++ {
		// (on the last level, so that its Right key is looked at as a split candidate; with < 32
		// candidates Ranges then replaces them by keySplits' answer)
		ti := TableInfo{ID: uint64(i + 1), Level: 6, Left: mkKey("tleft"), Right: mkKey("tright"), UncompressedSize: uint32(vpU8("tsize"))}
		vpAssume(y.CompareKeys(ti.Left, ti.Right) <= 0)
		infos = append(infos, ti)
	}
	vpStub("(*badger.DB).Tables", func(d *DB) []TableInfo { return infos })
	// keySplits: sorted keys carrying the prefix (its contract)
	nks := vpChoose("nkeysplits", 1+vpParam("sr.keysplits", 2))
	var ks []string
	for i := 0; i < nks; i++ {
		k := mkKey("ksplit")
		if prefix != nil {
			vpAssume(bytes.HasPrefix(k, prefix))
		}
		if i > 0 {
			vpAssume(ks[i-1] <= string(k))
		}
		ks = append(ks, string(k))
	}
	vpStub("(*badger.levelsController).keySplits", func(lc *levelsController, numPerTable int, pfx []byte) []string {
		return append([]string{}, ks...)
	})
	// mutable memtable with 0..1 keys (any key; Ranges itself filters by prefix)
	var mtKeys [][]byte
	if vpChoose("memkey", 2) == 1 {
		mtKeys = append(mtKeys, mkKey("memkey"))
		vpCover("sr.memtable-split")
	}
	db.mt = &memTable{sl: &skl.Skiplist{}}
	pos := 0
	vpStub("(*badger/skl.Skiplist).NewIterator", func(l *skl.Skiplist) *skl.Iterator { return &skl.Iterator{} })
	vpStub("(*badger/skl.Iterator).SeekToFirst", func(it *skl.Iterator) { pos = 0 })
	vpStub("(*badger/skl.Iterator).Valid", func(it *skl.Iterator) bool { return pos < len(mtKeys) })
	vpStub("(*badger/skl.Iterator).Next", func(it *skl.Iterator) { pos++ })
	vpStub("(*badger/skl.Iterator).Key", func(it *skl.Iterator) []byte { return mtKeys[pos] })
	vpStub("(*badger/skl.Iterator).Close", func(it *skl.Iterator) error { return nil })

	numGo := vpParam("sr.numgo", 2) // only divides the total size; the sizes are symbolic
	if numGo == 0 {
		numGo = 1 + vpChoose("numgo", 3)
	}
	vpStub("github.com/dustin/go-humanize.IBytes", func(s uint64) string { return "" }) // log text (float maths)
	var got []keyRange
	vpStub("(*badger.DB).Ranges", func(d *DB, pfx []byte, numRanges int) []*keyRange {
		rs := d.Ranges(pfx, numRanges)
		for _, r := range rs {
			got = append(got, *r) // produceRanges re-orders the slice afterwards
		}
		return rs
	})
	st := &Stream{db: db, NumGo: numGo, Prefix: prefix}
	st.rangeCh = make(chan keyRange, 8)
	st.produceRanges(context.Background()) // its own AssertTrue checks are implicit assertions

	// ---- the ranges partition the key space ----
	vpAssert(len(got) >= 1, "C25:ranges.nonempty")
	vpAssert(len(got[0].left) == 0, "C25:ranges.first-left-open")
	vpAssert(len(got[len(got)-1].right) == 0, "C25:ranges.last-right-open")
	for i := 0; i+1 < len(got); i++ {
		vpAssert(len(got[i].right) > 0 && bytes.Equal(got[i].right, got[i+1].left), "C25:ranges.contiguous")
		if i > 0 {
			vpAssert(bytes.Compare(got[i].left, got[i].right) <= 0, "C25:ranges.ordered")
		}
		if prefix != nil {
			vpAssert(bytes.HasPrefix(got[i].right, prefix), "C25:ranges.bounds-carry-prefix")
		}
	}
	if len(got) > 1 {
		vpCover("sr.several-ranges")
	}
	if len(got) > 2 {
		vpCover("sr.three-ranges")
	}
	// every range is handed to the producers exactly once, then the channel is closed
	sent := 0
	for r := range st.rangeCh {
		found := false
		for _, g := range got {
			found = vpOr(found, vpAnd(bytes.Equal(r.left, g.left), vpAnd(bytes.Equal(r.right, g.right), len(r.left) == len(g.left) && len(r.right) == len(g.right))))
		}
		vpAssert(found, "C25:ranges.sent-range-is-a-computed-range")
		sent++
	}
	vpAssert(sent == len(got), "C25:ranges.each-sent-once")
	vpObserveU64("nranges", uint64(len(got)))
}

// (b)+(c) the real produceKVs (iterate closure: Seek(left), prevKey, right bound, ChooseKey,
// KeyToList, KVToBuffer, done markers) for every range of one run.
func vpsProducePart() {
	vpConfig("go", 2)
	// Option vector: quick tier = four configurations in which every option takes both values
	// and is paired both ways with managed/non-managed; sr.full=1 = the full product.
	var managed, withPrefix, withChoose, walk, perRangeOpt, backwardsOpt, doneMarkers bool
	shape := 0
	if vpParam("sr.full", 0) == 1 {
		managed = vpChoose("managed", 2) == 1
		withPrefix = vpChoose("prefix", 2) == 1
		withChoose = vpChoose("choosekey", 2) == 1
		walk = vpChoose("keytolist-walks", 2) == 1
		perRangeOpt = vpChoose("producer-per-range", 2) == 1
		backwardsOpt = vpChoose("ranges-backwards", 2) == 1
		doneMarkers = vpChoose("donemarkers", 2) == 1
		shape = vpChoose("splitshape", 2)
	} else {
		switch vpChoose("config", 5) {
		case 4:
			// ONE producer goroutine takes the ranges in descending key order (Orchestrate hands
			// ranges out biggest first, and a producer takes whatever is next): state kept across
			// ranges inside a producer must not leak from a higher range into a lower one
			managed, backwardsOpt, walk = true, true, true
		case 0:
			managed, walk = true, true
		case 1:
			withPrefix, withChoose, perRangeOpt, backwardsOpt, doneMarkers, shape = true, true, true, true, true, 1
		case 2:
			managed, withChoose, perRangeOpt, doneMarkers = true, true, true, true
		case 3:
			walk, perRangeOpt, shape = true, true, 1
		}
	}
	src := vpsNewSource(managed, 1)
	// ---- entries: 1..N, each continues the previous user key or starts the next one ----
	nEnt := 1 + vpChoose("nentries", vpParam("sr.entries", 3))
	var ukeys [][]byte
	for i := 0; i < nEnt; i++ {
		if i == 0 || vpChoose("newkey", 2) == 1 {
			uk := vpBytes("ukey", 1)
			if len(ukeys) > 0 {
				vpAssume(bytes.Compare(ukeys[len(ukeys)-1], uk) < 0)
			}
			ukeys = append(ukeys, uk)
		}
		k := len(ukeys) - 1
		e := vpsEnt{ukey: ukeys[k], ver: vpU64("ver"), val: vpU8("val"), keyIdx: k}
		vpAssume(vpAnd(e.ver >= 1, e.ver < 1<<63))
		if i > 0 && src.ents[i-1].keyIdx == k {
			vpAssume(e.ver < src.ents[i-1].ver)
		}
		src.ents = append(src.ents, e)
	}
	nk := len(ukeys)
	// ---- the stream ----
	var st *Stream
	readTs := vpU64("readTs") // the snapshot of the run
	vpAssume(readTs >= 1)
	var handedOut []uint64
	if managed {
		st = src.db.NewStreamAt(readTs)
	} else {
		st = src.db.NewStream()
		// commits may land between the start-ups of the producers: the oracle's read timestamp
		// is any non-decreasing sequence starting with the run's snapshot
		src.nextReadTs = func() uint64 {
			r := readTs
			if len(handedOut) > 0 {
				r = vpU64("laterReadTs")
				vpAssume(r >= handedOut[len(handedOut)-1])
			}
			handedOut = append(handedOut, r)
			return r
		}
	}
	st.SinceTs = vpU64("sinceTs") // 0 = no lower bound
	if withPrefix {
		st.Prefix = vpBytes("prefix", 1)
	}
	st.SendDoneMarkers(doneMarkers)
	// ChooseKey: an arbitrary predicate of the key
	chosen := func(k []byte) bool { return vpUF("choosekey", 1, uint64(k[0]))&1 == 1 }
	if withChoose {
		st.ChooseKey = func(item *Item) bool { return chosen(item.Key()) }
	}
	// KeyToList: delivers the version under the cursor; either leaves the cursor there (as ToList
	// does with NumVersionsToKeep = 1) or walks over the versions of the key (the documented
	// contract: return at the first other key).
	calls := 0
	st.KeyToList = func(key []byte, itr *Iterator) (*pb.KVList, error) {
		calls++
		vpAssert(calls <= len(src.ents), "C25:produce.keytolist-at-most-once-per-key")
		item := itr.Item()
		kv := &pb.KV{Key: append([]byte{}, key...), Version: item.Version()}
		if walk {
			for ; itr.Valid(); itr.Next() {
				if !bytes.Equal(itr.Item().Key(), key) {
					break
				}
			}
		}
		return &pb.KVList{Kv: []*pb.KV{kv}}, nil
	}
	// ---- the ranges of the run: <= 3, from <= 2 sorted split keys carrying the prefix ----
	nsplit := vpChoose("nsplits", 1+vpParam("sr.splits", 2))
	var splits [][]byte
	for i := 0; i < nsplit; i++ {
		sp := vpsSplitKey(shape, "split")
		if st.Prefix != nil {
			vpAssume(bytes.HasPrefix(sp, st.Prefix))
		}
		if i > 0 {
			vpAssume(bytes.Compare(splits[i-1], sp) <= 0)
		}
		splits = append(splits, sp)
	}
	var ranges []keyRange
	var left []byte
	for _, sp := range splits {
		ranges = append(ranges, keyRange{left: left, right: sp})
		left = sp
	}
	ranges = append(ranges, keyRange{left: left})
	// producers: one goroutine takes all ranges, or every range is taken by another goroutine
	// (any assignment is a schedule of Orchestrate; ranges are handed out in size order, i.e. any)
	perRange := len(ranges) > 1 && perRangeOpt
	backwards := len(ranges) > 1 && backwardsOpt
	order := make([]int, len(ranges))
	for i := range order {
		order[i] = i
		if backwards {
			order[i] = len(ranges) - 1 - i
		}
	}
	type sentKV struct {
		kv  *pb.KV
		rng int
	}
	var sent []sentKV
	collect := func(bs []*z.Buffer, rngOfStream func(id uint32) int) {
		for _, b := range bs {
			for _, kv := range src.bufs.kvs[src.bufs.idx(b)] {
				sent = append(sent, sentKV{kv, rngOfStream(kv.StreamId)})
			}
		}
	}
	// stream ids are handed out 1,2,3.. in the order the ranges are iterated
	if perRange {
		for p, ri := range order {
			bs, err := src.runProducer(st, p, []keyRange{ranges[ri]})
			vpAssert(err == nil, "C25:produce.no-error")
			collect(bs, func(id uint32) int { return order[int(id)-1] })
		}
		vpCover("sr.producer-per-range")
	} else {
		var rs []keyRange
		for _, ri := range order {
			rs = append(rs, ranges[ri])
		}
		bs, err := src.runProducer(st, 0, rs)
		vpAssert(err == nil, "C25:produce.no-error")
		collect(bs, func(id uint32) int { return order[int(id)-1] })
	}

	// ---- (c) one snapshot for the whole run ----
	vpAssert(len(src.iterReadTs) == len(ranges), "C25:produce.one-iterator-per-range")
	same := true
	for _, r := range src.iterReadTs {
		same = vpAnd(same, r == readTs)
	}
	vpAssertKnown(same, "C25:stream.single-snapshot", !managed, "C25-per-producer-snapshot")
	if managed {
		vpCover("sr.managed")
	} else {
		vpCover("sr.non-managed")
	}

	// ---- (b) every chosen key exactly once, from the range that contains it ----
	inKV := func(k int) (bool, uint64) { // has a version in the snapshot; the newest such
		found, ver := false, uint64(0)
		for _, e := range src.ents {
			if e.keyIdx != k {
				continue
			}
			hit := vpAnd(vpNot(found), vpAnd(e.ver <= readTs, vpOr(st.SinceTs == 0, e.ver > st.SinceTs)))
			ver = vpIteU64(hit, e.ver, ver)
			found = vpOr(found, hit)
		}
		return found, ver
	}
	nDone := 0
	var data []sentKV
	for _, s := range sent {
		if s.kv.StreamDone {
			nDone++
			continue
		}
		data = append(data, s)
	}
	for j, s := range data {
		match := false
		for k := 0; k < nk; k++ {
			has, ver := inKV(k)
			want := vpAnd(has, bytes.HasPrefix(ukeys[k], st.Prefix))
			if st.ChooseKey != nil {
				want = vpAnd(want, chosen(ukeys[k]))
			}
			match = vpOr(match, vpAnd(vpAnd(want, bytes.Equal(s.kv.Key, ukeys[k])), s.kv.Version == ver))
		}
		vpAssert(match, "C25:produce.delivered-key-is-chosen-and-at-snapshot-version")
		r := ranges[s.rng]
		in := true
		if len(r.left) > 0 {
			in = vpAnd(in, bytes.Compare(s.kv.Key, r.left) >= 0)
		}
		if len(r.right) > 0 {
			in = vpAnd(in, bytes.Compare(s.kv.Key, r.right) < 0)
		}
		vpAssert(in, "C25:produce.delivered-by-the-range-holding-the-key")
		for j2 := 0; j2 < j; j2++ {
			vpAssert(vpNot(bytes.Equal(s.kv.Key, data[j2].kv.Key)), "C25:produce.key-delivered-once")
		}
		vpCover("sr.delivered")
	}
	for k := 0; k < nk; k++ {
		has, _ := inKV(k)
		want := vpAnd(has, bytes.HasPrefix(ukeys[k], st.Prefix))
		if st.ChooseKey != nil {
			want = vpAnd(want, chosen(ukeys[k]))
		}
		got := false
		for _, s := range data {
			got = vpOr(got, bytes.Equal(s.kv.Key, ukeys[k]))
		}
		vpAssert(vpImplies(want, got), "C25:produce.every-chosen-key-delivered")
	}
	if doneMarkers {
		vpAssert(nDone == len(ranges), "C25:produce.one-done-marker-per-range")
	} else {
		vpAssert(nDone == 0, "C25:produce.no-done-marker-unless-asked")
	}
	if len(data) > 1 {
		vpCover("sr.several-keys-delivered")
	}
	vpObserveU64("delivered", uint64(len(data)))
}

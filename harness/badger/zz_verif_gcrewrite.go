package badger

import (
	"bytes"
	"errors"
	"time"

	"github.com/dgraph-io/badger/v4/y"
	"github.com/dgraph-io/ristretto/v2/z"
)

var vpErrGcIO = errors.New("vp: i/o error injected by the gc harness")

// one log record fed to rewrite by the stubbed logFile.iterate
type vpGcEnt struct {
	key   []byte // internal key: 1 user-key byte + 8 version bytes
	ver   uint64
	val   []byte
	meta  byte
	umeta byte
	exp   uint64
	off   uint32
	plen  uint32
	// what happened while rewrite looked at it
	scanned bool   // handed to fe
	clocked bool   // the clock was read for it
	looked  bool   // DB.get was called for it
	now     uint64 // clock value isDeletedOrExpired saw (0 when the clock was not consulted)
	vs      y.ValueStruct
	ptrHere []byte // batching shape: 12 bytes assumed to be a pointer to this record
}

// a written-back entry as it reached the write channel
type vpGcOut struct {
	key, val    []byte
	meta, umeta byte
	exp         uint64
}

func vpGcLE32(b []byte) uint32 {
	return uint32(b[0]) | uint32(b[1])<<8 | uint32(b[2])<<16 | uint32(b[3])<<24
}

// H-GCREWRITE (C15, C33, C06).
//
// Real: valueLog.rewrite (whole function: the "already queued" check, the gcActive/gcDiscardTs
// markers, the fe closure, the pre-flush inside fe, the ErrTxnTooBig halving loop, the file
// removal decision), discardEntry, isDeletedOrExpired, DB.batchSet + request.Wait/DecrRef,
// valueLog.deleteLogFile, iteratorCount, decrIteratorCount, valuePointer.Decode, y.ParseTs.
//
// Stubbed: logFile.iterate feeds 0..N records (1-byte user key, symbolic version, meta - all 8
// bits -, user meta, expiresAt, 1-byte value, strictly increasing symbolic offsets; key/value
// buffers are reused between records like the real iterator does) and may fail at the end;
// DB.get answers with an ARBITRARY ValueStruct at every call (meta, version, expiry and 12 value
// bytes that may or may not be a pointer to this file/offset; for the first record optionally an
// empty value), or fails; DB.sendToWriteCh records what is sent, rejects a batch longer than a symbolic limit with
// ErrTxnTooBig, may fail synchronously (ErrBlockedWrites) or asynchronously (request.Err);
// time.Now is any non-decreasing sequence; DB.MaxVersion is a symbolic number; discardStats.Update
// and the file unlink (z.MmapFile.Delete) are recorded. No files: logFile structs are built directly.
//
// The write-back condition the oracle uses for record i (offset o_i, read at clock t_i):
//
//	not (meta_i has bitDelete or 0 < expiresAt_i <= t_i)
//	and LSM answer for exactly key_i: Version = version(key_i), bitValuePointer set, bitFinTxn
//	    clear, 12 value bytes with Fid = this file and Offset = o_i
//
// "deleted/expired" is judged on the log record: the LSM entry that points at this very record was
// written from the same Entry, with the same expiry and the same meta apart from the pointer and
// transaction bits (H-THRESH: thresh.vlog-record-meta-minus-txn-bits, thresh.usermeta-expiry-pass-through).
func VpHGcRewrite() {
	vpConfig("defer-asserts", 1)
	// package initialisers run lazily at the first use of a package-level variable; run them now,
	// before the clock is replaced (some initialiser reads the time)
	vpAssume(ErrTxnTooBig != nil && vpErrGcIO != nil && y.ErrEOF != nil)
	// Two shapes. General: 0..gc.entries records, everything about a record and about the LSM's
	// answer for it arbitrary, every stub may fail. Batching: gc.entries+1..gc.batch records that
	// are live and whose LSM answer is either "points here" or "other version" (what the batch
	// loops see is only how many records were queued), no injected failures except ErrTxnTooBig.
	genN := vpParam("gc.entries", 2)
	batN := vpParam("gc.batch", 4)
	emptyVal := vpParam("gc.emptyval", 1)    // 1: the LSM answer may also carry an empty value
	batMin := vpParam("gc.batchmin", genN+1) // smallest record count of the batching shape
	batching := batN >= batMin && vpChoose("shape", 2) == 1
	var n int
	if batching {
		n = batMin + vpChoose("entries", batN-batMin+1)
		vpCover("gc.shape-batching")
	} else {
		n = vpChoose("entries", genN+1)
	}
	maxN := n
	// general shape with 3 or more records: the failure injections, the empty LSM value and the
	// two-iterator case are exercised with fewer records only
	lean := batching || n >= 3

	// ---------------- the database around the value log ----------------
	db := &DB{}
	vlog := &db.vlog
	vlog.db = db
	fidBytes := vpBytes("fid", 4)
	fid := vpGcLE32(fidBytes)
	maxFid := vpU32("maxFid")
	iters0 := vpU8("openIterators")
	mbc := vpInt("maxBatchCount")
	mbs := vpInt("maxBatchSize")
	limit := vpInt("batchLimit")
	clock := vpU64("clock0")
	itersMax := uint8(2)
	if lean {
		itersMax = 1
	}
	// one combined assumption, issued after the records are set up (every vpAssume costs a model
	// extraction):
	//  - pickLog never hands out the file being written (rewrite asserts fid < maxFid)
	//  - 0..2 iterators open; the limits only matter relative to 0..n records of 13 bytes
	//  - seconds since 1970 < 2^39
	pre := vpAnd(vpAnd(fid < maxFid, iters0 <= itersMax),
		vpAnd(vpAnd(vpAnd(mbc >= 0, mbc <= maxN+2), vpAnd(mbs >= 0, mbs <= 14*(maxN+2))),
			vpAnd(vpAnd(limit >= 0, limit <= maxN), clock < 1<<39)))
	// ---------------- the records of the file ----------------
	ents := make([]*vpGcEnt, n)
	prevEnd := uint32(vlogHeaderSize)
	offsOK := true
	for i := range ents {
		e := &vpGcEnt{}
		uk := vpBytes("ukey", 1)
		e.ver = vpU64("ver")
		e.key = y.KeyWithTs(uk, e.ver)
		e.val = vpBytes("val", 1)
		e.meta = vpU8("meta")
		e.umeta = vpU8("umeta")
		if batching {
			e.meta &^= bitDelete // live, never expiring
		} else {
			e.exp = vpU64("exp")
		}
		// records lie one after the other behind the file header: offsets strictly increasing
		if batching {
			// 12 bytes that are a pointer to this record: fid | len | offset (little endian)
			e.ptrHere = append(append(append([]byte{}, fidBytes...), vpBytes("lsmPtrLen", 4)...), vpBytes("offBytes", 4)...)
			e.off = vpGcLE32(e.ptrHere[8:12])
		} else {
			e.off = vpU32("off")
		}
		e.plen = vpU32("plen")
		offsOK = vpAnd(offsOK, vpAnd(e.off >= prevEnd, e.off < 1<<31))
		prevEnd = e.off + 1
		ents[i] = e
	}
	vpAssume(vpAnd(pre, offsOK))

	f := &logFile{MmapFile: &z.MmapFile{}, fid: fid, path: "vp-gc.vlog"}
	wlf := &logFile{MmapFile: &z.MmapFile{}, fid: maxFid, path: "vp-cur.vlog"}
	vlog.filesMap = map[uint32]*logFile{fid: f, maxFid: wlf}
	vlog.maxFid = maxFid
	vlog.discardStats = &discardStats{}
	vlog.numActiveIterators.Store(int32(iters0))

	// batch limits rewrite itself looks at while scanning (vlog.opt is Open's copy of db.opt)
	vlog.opt.maxBatchCount = int64(mbc)
	vlog.opt.maxBatchSize = int64(mbs)
	db.opt = vlog.opt
	db.threshold = &vlogThreshold{}
	db.threshold.valueThreshold.Store(1 << 20)

	// ---------------- environment stubs ----------------
	cur := -1
	lastNow := clock
	vpStub("time.Now", func() time.Time {
		t := lastNow + uint64(vpU32("clockStep")) // any non-decreasing sequence of seconds
		lastNow = t
		if cur >= 0 && !ents[cur].clocked && !ents[cur].looked {
			ents[cur].now, ents[cur].clocked = t, true
		}
		return time.Unix(int64(t), 0)
	})
	maxv := vpU64("maxVersion")
	inRewrite := false
	// (e) the markers compaction looks at are up for the whole rewrite
	markers := func() {
		if inRewrite {
			vpAssert(db.gcActive.Load(), "C15:gc.gcactive-set-during-rewrite")
			vpAssert(db.gcDiscardTs.Load() == maxv, "C15:gc.gcdiscardts-is-maxversion-at-start")
		}
	}
	vpStub("(*badger.DB).MaxVersion", func(db *DB) uint64 {
		vpAssert(vpNot(db.gcActive.Load()), "C15:gc.discardts-published-before-gcactive")
		return maxv
	})
	kbuf := make([]byte, 9)
	vbuf := make([]byte, 1)
	vpStub("(*badger.logFile).iterate", func(lf *logFile, readOnly bool, offset uint32, fn logEntry) (uint32, error) {
		vpAssert(lf == f && offset == 0, "C15:gc.scans-whole-file")
		markers()
		for i, r := range ents {
			cur = i
			r.scanned = true
			// like the real iterator: key and value buffers are reused from record to record
			copy(kbuf, r.key)
			copy(vbuf, r.val)
			e := Entry{Key: kbuf, Value: vbuf, ExpiresAt: r.exp, meta: r.meta, UserMeta: r.umeta, offset: r.off, hlen: 5}
			if err := fn(e, valuePointer{Fid: lf.fid, Offset: r.off, Len: r.plen}); err != nil {
				cur = -1
				return 0, err
			}
		}
		cur = -1
		if !lean && vpBool("iterateFails") {
			vpCover("gc.iterate-error")
			return 0, vpErrGcIO
		}
		return prevEnd, nil
	})
	vpStub("(*badger.DB).get", func(db *DB, key []byte) (y.ValueStruct, error) {
		markers()
		r := ents[cur]
		vpAssert(bytes.Equal(key, r.key), "C15:gc.lookup-exact-internal-key")
		r.looked = true
		if batching {
			// the newest version of the key either is this very record or has another version
			vs := y.ValueStruct{Meta: (vpU8("lsmMeta") | bitValuePointer) &^ bitFinTxn, UserMeta: r.umeta, ExpiresAt: r.exp, Version: vpU64("lsmVer")}
			vs.Value = r.ptrHere
			r.vs = vs
			return vs, nil
		}
		if !lean && vpBool("getFails") {
			vpCover("gc.get-error")
			return y.ValueStruct{}, vpErrGcIO
		}
		vs := y.ValueStruct{Meta: vpU8("lsmMeta"), UserMeta: vpU8("lsmUmeta"), ExpiresAt: vpU64("lsmExp"), Version: vpU64("lsmVer")}
		if emptyVal == 1 && cur == 0 && vpChoose("lsmEmptyValue", 2) == 1 {
			vs.Value = nil
			vpCover("gc.lsm-empty-value")
		} else {
			vs.Value = vpBytes("lsmValue", int(vptrSize)) // may or may not be a pointer, to anywhere
		}
		r.vs = vs
		return vs, nil
	})
	var out []vpGcOut
	vpStub("(*badger.DB).sendToWriteCh", func(db *DB, entries []*Entry) (*request, error) {
		markers()
		if len(entries) > limit {
			vpCover("gc.txn-too-big")
			return nil, ErrTxnTooBig
		}
		if !lean && len(entries) > 0 && vpBool("sendFails") {
			vpCover("gc.send-error")
			return nil, ErrBlockedWrites
		}
		req := &request{Entries: entries}
		req.IncrRef()
		if !lean && len(entries) > 0 && vpBool("writeFails") {
			vpCover("gc.write-error")
			req.Err = vpErrGcIO
			return req, nil
		}
		for _, e := range entries {
			out = append(out, vpGcOut{key: append([]byte{}, e.Key...), val: append([]byte{}, e.Value...),
				meta: e.meta, umeta: e.UserMeta, exp: e.ExpiresAt})
		}
		return req, nil
	})
	hook := false
	db.vlogGCPauseHook = func() { hook = true; markers() }
	deleted := 0
	vpStub("(*badger.discardStats).Update", func(ds *discardStats, fidu uint32, discard int64) int64 { return 0 })
	vpStub("(*github.com/dgraph-io/ristretto/v2/z.MmapFile).Delete", func(m *z.MmapFile) error {
		vpAssert(m == f.MmapFile, "C15:gc.only-the-rewritten-file-is-deleted")
		// (d) never while an iterator may still hold pointers into the file
		vpAssert(vlog.iteratorCount() == 0, "C15:gc.no-delete-while-iterators-open")
		_, still := vlog.filesMap[fid]
		vpAssert(!still, "C15:gc.unlinked-from-filesmap-before-delete")
		deleted++
		return nil
	})

	// ---------------- run ----------------
	inRewrite = true
	err := vlog.rewrite(f)
	inRewrite = false

	// (e) cleared on every exit
	vpAssert(vpNot(db.gcActive.Load()), "C15:gc.gcactive-cleared-on-exit")

	// ---------------- oracle (branch-free) ----------------
	live := make([]bool, n) // write-back condition of record i
	rank := make([]int, n)  // number of records before i that satisfy it
	cnt := 0
	for i, r := range ents {
		dead := vpOr(r.meta&bitDelete > 0, vpAnd(r.exp != 0, r.exp <= r.now))
		c := false
		if r.looked && len(r.vs.Value) == int(vptrSize) {
			pFid := vpGcLE32(r.vs.Value[0:4])
			pOff := vpGcLE32(r.vs.Value[8:12])
			c = vpAnd(vpNot(dead), vpAnd(r.vs.Version == r.ver, vpAnd(r.vs.Meta&bitValuePointer > 0,
				vpAnd(r.vs.Meta&bitFinTxn == 0, vpAnd(pFid == fid, pOff == r.off)))))
		}
		if r.scanned && r.clocked && !r.looked {
			vpCover("gc.expired-record-skipped")
		}
		if r.scanned && r.clocked && r.looked {
			vpCover("gc.ttl-record-not-yet-expired")
		}
		if r.scanned && !r.looked {
			// the only reason not to consult the LSM is a dead record
			vpAssert(dead, "C15,C33:gc.live-record-is-looked-up")
		}
		live[i] = c
		rank[i] = cnt
		cnt = vpIteInt(c, cnt+1, cnt)
	}
	for j, o := range out {
		okA := false
		for i, r := range ents {
			here := vpAnd(live[i], rank[i] == j)
			okA = vpOr(okA, vpAnd(here, bytes.Equal(o.key, r.key)))
			// (b) what is re-inserted is the record: same internal key, value, user meta, expiry; meta
			// without the pointer and transaction bits
			same := vpAnd(vpAnd(bytes.Equal(o.key, r.key), bytes.Equal(o.val, r.val)),
				vpAnd(vpAnd(o.umeta == r.umeta, o.exp == r.exp), o.meta == r.meta&^(bitValuePointer|bitTxn|bitFinTxn)))
			vpAssert(vpImplies(here, same), "C15:gc.written-back-entry-identical-minus-ptr-txn-bits")
		}
		// (a) + order + no repetition: the j-th write-back is the j-th record that satisfies the condition
		vpAssert(okA, "C15,C33:gc.written-back-only-if-lsm-points-here-and-live")
	}
	if len(out) > 0 {
		vpCover("gc.moved")
	}
	if len(out) > 1 {
		vpCover("gc.moved-two")
	}

	if err != nil {
		vpCover("gc.rewrite-error")
		// a failed rewrite leaves the file alone (it is picked again later)
		_, still := vlog.filesMap[fid]
		vpAssert(still && deleted == 0 && len(vlog.filesToBeDeleted) == 0, "C15:gc.failed-rewrite-keeps-file")
		if err == ErrNoRewrite {
			vpCover("gc.batchsize-zero")
		}
		return
	}
	vpCover("gc.rewrite-ok")
	vpAssert(hook, "C15:gc.pause-hook-between-phases")
	for _, r := range ents {
		vpAssert(r.scanned, "C15:gc.all-records-scanned")
	}
	// (c) every record that satisfies the condition was written back, exactly once
	vpAssert(cnt == len(out), "C15:gc.every-live-record-written-back-once")

	// (d) file removal
	if vlog.iteratorCount() == 0 {
		vpCover("gc.deleted-now")
		_, still := vlog.filesMap[fid]
		vpAssert(deleted == 1 && !still && len(vlog.filesToBeDeleted) == 0, "C15:gc.deleted-immediately-without-iterators")
		return
	}
	vpCover("gc.delete-deferred")
	vpAssert(deleted == 0 && vlog.filesMap[fid] == f, "C15:gc.file-kept-while-iterators-open")
	vpAssert(len(vlog.filesToBeDeleted) == 1 && vlog.filesToBeDeleted[0] == fid, "C15:gc.queued-for-deletion")
	// a second GC of the queued file is refused and changes nothing
	nOut := len(out)
	err2 := vlog.rewrite(f)
	vpAssert(err2 != nil && len(out) == nOut && len(vlog.filesToBeDeleted) == 1 && deleted == 0, "C15:gc.queued-file-not-rewritten-again")
	vpAssert(vpNot(db.gcActive.Load()), "C15:gc.gcactive-cleared-on-exit")
	for step := 0; step < 2; step++ {
		if vlog.iteratorCount() == 0 {
			break
		}
		derr := vlog.decrIteratorCount()
		vpAssert(derr == nil, "C15:gc.iterator-close-noerror")
		_, still := vlog.filesMap[fid]
		if vlog.iteratorCount() > 0 {
			vpAssert(deleted == 0 && still, "C15:gc.file-kept-while-iterators-open")
		} else {
			vpCover("gc.deleted-at-last-iterator-close")
			vpAssert(deleted == 1 && !still && len(vlog.filesToBeDeleted) == 0, "C15:gc.deleted-when-last-iterator-closes")
		}
	}
}

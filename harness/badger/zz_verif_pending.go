package badger

import (
	"bytes"
	"time"

	"github.com/dgraph-io/badger/v4/skl"
	"github.com/dgraph-io/badger/v4/y"
)

// vppList is a y.Iterator over a sorted list of internal keys (ascending by y.CompareKeys);
// reversed iterates the same list backwards, as the real iterators do. (Same idea as the list
// iterator of H-ITER; it stands in the place of the memtable's skiplist iterator.)
type vppList struct {
	keys     [][]byte
	vals     []y.ValueStruct
	pos      int
	reversed bool
}

func (l *vppList) next() {
	if l.reversed {
		l.pos--
	} else {
		l.pos++
	}
}
func (l *vppList) rewind() {
	if l.reversed {
		l.pos = len(l.keys) - 1
	} else {
		l.pos = 0
	}
}
func (l *vppList) seek(key []byte) {
	if !l.reversed {
		l.pos = len(l.keys)
		for i := range l.keys {
			if y.CompareKeys(l.keys[i], key) >= 0 {
				l.pos = i
				break
			}
		}
		return
	}
	l.pos = -1
	for i := len(l.keys) - 1; i >= 0; i-- {
		if y.CompareKeys(l.keys[i], key) <= 0 {
			l.pos = i
			break
		}
	}
}
func (l *vppList) valid() bool { return l.pos >= 0 && l.pos < len(l.keys) }

// one committed version in the snapshot
type vppSnap struct {
	ver   uint64
	meta  byte
	umeta byte
	exp   uint64
	val   byte
}

// the pending write of a key (the last Set/SetEntry/Delete on it)
type vppPend struct {
	kind  int // 0 Set, 1 SetEntry, 2 Delete
	meta  byte
	umeta byte
	exp   uint64
	val   []byte // nil for Delete
}

// H-PENDING: Set / SetEntry / Delete (real Txn.modify), then the real Txn.NewIterator
// (newPendingWritesIterator, pendingWritesIterator.*, table.NewMergeIterator, badger Iterator
// Seek/Rewind/Next/parseItem/fill/Valid) and the real Txn.Get, over the pending writes layered on a
// snapshot. The snapshot sits where the memtable is: Skiplist.NewUniIterator hands out a harness
// list iterator, DB.get answers by the point-read contract decided by H-GET.
func VpHPending() {
	// ---- bounds ----
	// family 0 "one key"  : 1 user key of 1 byte; 0..2 writes on it (the last of any kind, an
	//                       overwritten one a SetEntry, or a Delete under a SetEntry); snapshot 0..2
	//                       versions of it;
	//                       start Rewind / Seek(1 byte) / Prefix(1 byte)
	// family 1 "two keys" : 2 user keys of lengths (1,2) or (2,1); a Set or Delete on one key, or a
	//                       Set on one and a Delete on the other (either order, either key first);
	//                       with pend.ops >= 3 optionally preceded by a write of
	//                       any kind on either key; snapshot 0..1 version per key (not both empty);
	//                       start Rewind / Seek(1 byte)
	// family 2 "general"  : pend.keys user keys of 1..2 bytes; 0..pend.gops writes of any kind on any
	//                       key; snapshot 0..2 versions per key, <= pend.snap in total; start Rewind /
	//                       Seek(1..2 bytes) / Prefix / Prefix+Seek; with Rewind optionally SinceTs
	//                       (only with pend.general=1: thorough)
	// Snapshot versions have symbolic version, meta (so: tombstones), user meta, value; a symbolic
	// expiry only with pend.snapexpiry=1. SetEntry writes have symbolic meta, user meta, expiry, value.
	withGeneral := vpParam("pend.general", 0) == 1
	maxOps := vpParam("pend.ops", 2)
	maxSnap := vpParam("pend.snap", 3)
	symExp := vpParam("pend.snapexpiry", 0) == 1 // snapshot versions carry a symbolic expiry (else none)
	nfam := 2
	if withGeneral {
		nfam = 3
	}
	family := vpChoose("family", nfam)
	if only := vpParam("pend.family", -1); only >= 0 {
		vpAssume(family == only) // debugging aid
	}
	general := family == 2
	nk := []int{1, 2, vpParam("pend.keys", 2)}[family]

	// ---- the user keys: strictly increasing, 1..2 bytes each ----
	ukeys := make([][]byte, nk)
	lens := make([]int, nk)
	switch family {
	case 0:
		lens[0] = 1
	case 1:
		lens[0] = 1 + vpChoose("keylens", 2)
		lens[1] = 3 - lens[0]
	default:
		for k := range lens {
			lens[k] = 1 + vpChoose("keylen", 2)
		}
	}
	for k := 0; k < nk; k++ {
		ukeys[k] = vpBytes("ukey", lens[k])
		if k > 0 {
			vpAssume(bytes.Compare(ukeys[k-1], ukeys[k]) < 0)
		}
	}
	readTs := vpU64("readTs")
	vpAssume(vpAnd(readTs >= 1, readTs < 1<<63))
	now := vpU64("now")
	vpAssume(now < 1<<40)
	vpStub("time.Now", func() time.Time { return time.Unix(int64(now), 0) })

	// ---- the snapshot: per key 0..2 versions (strictly decreasing, >= 1), <= maxSnap in total ----
	snap := make([][]vppSnap, nk)
	left := maxSnap
	for k := 0; k < nk; k++ {
		lim := 2
		if family == 1 {
			lim = 1
		}
		if left < lim {
			lim = left
		}
		nv := vpChoose("nversions", lim+1)
		left -= nv
		for v := 0; v < nv; v++ {
			e := vppSnap{ver: vpU64("ver"), meta: vpU8("meta"), umeta: vpU8("umeta"), val: vpU8("val")}
			if symExp {
				e.exp = vpU64("exp")
			}
			vpAssume(vpAnd(e.ver >= 1, e.ver < 1<<63))
			if v > 0 {
				vpAssume(e.ver < snap[k][v-1].ver)
			}
			snap[k] = append(snap[k], e)
		}
	}
	if family == 1 {
		vpAssume(len(snap[0])+len(snap[1]) > 0)
	}
	mkList := func(reversed bool) *vppList {
		li := &vppList{reversed: reversed}
		for k := range snap {
			for _, e := range snap[k] {
				li.keys = append(li.keys, y.KeyWithTs(ukeys[k], e.ver))
				li.vals = append(li.vals, y.ValueStruct{Meta: e.meta, UserMeta: e.umeta, ExpiresAt: e.exp, Value: []byte{e.val}, Version: e.ver})
			}
		}
		return li
	}

	// ---- DB and transaction ----
	db := &DB{}
	db.opt.NamespaceOffset = -1
	db.opt.ValueLogFileSize = 1 << 20
	db.opt.maxBatchCount = 1000
	db.opt.maxBatchSize = 1 << 20
	db.opt.DetectConflicts = false // conflict fingerprints are C02's business (H-ORACLE, H-GET)
	db.threshold = &vlogThreshold{}
	db.threshold.valueThreshold.Store(1 << 10)
	sl := &skl.Skiplist{}
	sl.IncrRef()
	db.mt = &memTable{sl: sl}
	db.lc = &levelsController{kv: db} // no levels: nothing below the memtable
	txn := &Txn{readTs: readTs, db: db, update: true, pendingWrites: map[string]*Entry{}, conflictKeys: map[uint64]struct{}{}}

	var lists []*vppList
	var unis []*skl.UniIterator
	listOf := func(u *skl.UniIterator) *vppList {
		for i := range unis {
			if unis[i] == u {
				return lists[i]
			}
		}
		return nil
	}
	vpStub("(*badger/skl.Skiplist).NewUniIterator", func(s *skl.Skiplist, reversed bool) *skl.UniIterator {
		u := &skl.UniIterator{}
		unis = append(unis, u)
		lists = append(lists, mkList(reversed))
		return u
	})
	vpStub("(*badger/skl.UniIterator).Next", func(u *skl.UniIterator) { listOf(u).next() })
	vpStub("(*badger/skl.UniIterator).Rewind", func(u *skl.UniIterator) { listOf(u).rewind() })
	vpStub("(*badger/skl.UniIterator).Seek", func(u *skl.UniIterator, key []byte) { listOf(u).seek(key) })
	vpStub("(*badger/skl.UniIterator).Key", func(u *skl.UniIterator) []byte { l := listOf(u); return l.keys[l.pos] })
	vpStub("(*badger/skl.UniIterator).Value", func(u *skl.UniIterator) y.ValueStruct { l := listOf(u); return l.vals[l.pos] })
	vpStub("(*badger/skl.UniIterator).Valid", func(u *skl.UniIterator) bool { return listOf(u).valid() })
	vpStub("(*badger/skl.UniIterator).Close", func(u *skl.UniIterator) error { return nil })
	// point read below the pending writes: newest version <= readTs of the key in the snapshot
	// (the contract H-GET decides for DB.get), or the zero ValueStruct
	getKey := -1
	vpStub("(*badger.DB).get", func(db *DB, key []byte) (y.ValueStruct, error) {
		vpAssert(bytes.Equal(key, y.KeyWithTs(ukeys[getKey], readTs)), "C04:pend.get-below-asks-key-at-readts")
		for _, e := range snap[getKey] {
			if y.ParseTs(y.KeyWithTs(ukeys[getKey], e.ver)) > readTs {
				continue
			}
			return y.ValueStruct{Meta: e.meta, UserMeta: e.umeta, ExpiresAt: e.exp, Value: []byte{e.val}, Version: e.ver}, nil
		}
		return y.ValueStruct{}, nil
	})

	// ---- the writes ----
	pend := make([]*vppPend, nk)
	type opSpec struct{ key, kind int } // kind: 0 Set, 1 SetEntry, 2 Delete, -1 any
	var ops []opSpec
	switch family {
	case 0:
		switch vpChoose("nops", 3) {
		case 1:
			ops = append(ops, opSpec{0, vpChoose("opkind", 3)})
		case 2:
			last := vpChoose("opkind", 3)
			over := 1 // the overwritten write: a SetEntry, or a Delete under a SetEntry
			if last == 1 {
				over = 2
			}
			ops = append(ops, opSpec{0, over}, opSpec{0, last})
		}
	case 1:
		if maxOps >= 3 && vpChoose("extraop", 2) == 1 {
			ops = append(ops, opSpec{vpChoose("opkey", 2), vpChoose("opkind", 3)})
		}
		first, kind := vpChoose("opkey", 2), 2*vpChoose("opkind02", 2)
		ops = append(ops, opSpec{first, kind})
		if vpChoose("both", 2) == 1 {
			ops = append(ops, opSpec{1 - first, 2 - kind}) // the other kind on the other key
		}
	default:
		for o, n := 0, vpChoose("nops", vpParam("pend.gops", 2)+1); o < n; o++ {
			ops = append(ops, opSpec{vpChoose("opkey", nk), vpChoose("opkind", 3)})
		}
	}
	nops := len(ops)
	for _, op := range ops {
		k := op.key
		p := &vppPend{kind: op.kind}
		var err error
		switch p.kind {
		case 0:
			p.val = vpBytes("opval", 1)
			err = txn.Set(ukeys[k], p.val)
		case 1:
			vlen := 1
			if general {
				vlen = vpChoose("opvlen", 2)
			}
			p.val = vpBytes("opval", vlen)
			p.meta, p.umeta, p.exp = vpU8("opmeta"), vpU8("opumeta"), vpU64("opexp")
			err = txn.SetEntry(&Entry{Key: ukeys[k], Value: p.val, UserMeta: p.umeta, ExpiresAt: p.exp, meta: p.meta})
		case 2:
			p.meta = bitDelete
			err = txn.Delete(ukeys[k])
		}
		vpAssert(err == nil, "C04:pend.write-accepted")
		if pend[k] != nil {
			vpCover("pend.overwrite")
		}
		pend[k] = p
	}

	// ---- iterator options ----
	reverse := vpChoose("reverse", 2) == 1
	// start: 0 Rewind, 1 Seek(k), 2 Prefix + Rewind, 3 Prefix + Seek(k having the prefix) (general)
	nstart := []int{3, 2, 4}[family]
	start := vpChoose("start", nstart)
	var prefix, seekKey []byte
	if start >= 2 {
		prefix = vpBytes("prefix", 1)
	}
	if start == 1 || start == 3 {
		sl := 1
		if general {
			sl = 1 + vpChoose("seeklen", 2)
		}
		seekKey = vpBytes("seekKey", sl)
		if start == 3 {
			vpAssume(bytes.HasPrefix(seekKey, prefix))
		}
	}
	sinceTs := uint64(0)
	if general && start == 0 && vpChoose("since", 2) == 1 {
		sinceTs = vpU64("sinceTs")
		vpAssume(sinceTs > 0)
	}

	// ---- reference: the overlay ----
	dead := func(meta byte, exp uint64) bool {
		return vpOr(meta&bitDelete > 0, vpAnd(exp != 0, exp <= now))
	}
	// per key: is it visible to Get, and with which fields
	type view struct {
		vis   bool
		ver   uint64
		meta  byte
		umeta byte
		exp   uint64
		vlen  int
		val   byte
	}
	overlay := func(k int, since uint64) view {
		if p := pend[k]; p != nil {
			// a pending write carries the read timestamp as its version
			v := view{vis: vpAnd(vpNot(dead(p.meta, p.exp)), vpOr(since == 0, readTs > since)),
				ver: readTs, meta: p.meta, umeta: p.umeta, exp: p.exp, vlen: len(p.val)}
			if len(p.val) > 0 {
				v.val = p.val[0]
			}
			return v
		}
		v := view{vlen: 1}
		found := false
		for _, e := range snap[k] {
			hit := vpAnd(vpNot(found), vpAnd(e.ver <= readTs, vpOr(since == 0, e.ver > since)))
			v.vis = vpIteBool(hit, vpNot(dead(e.meta, e.exp)), v.vis)
			v.ver = vpIteU64(hit, e.ver, v.ver)
			v.meta = vpIteU8(hit, e.meta, v.meta)
			v.umeta = vpIteU8(hit, e.umeta, v.umeta)
			v.exp = vpIteU64(hit, e.exp, v.exp)
			v.val = vpIteU8(hit, e.val, v.val)
			found = vpOr(found, hit)
		}
		return v
	}
	bound := prefix
	if seekKey != nil {
		bound = seekKey
	}
	views := make([]view, nk)
	yielded := make([]bool, nk)
	rank := make([]int, nk)
	total := 0
	for j := 0; j < nk; j++ {
		k := j
		if reverse {
			k = nk - 1 - j
		}
		views[k] = overlay(k, sinceTs)
		pick := vpAnd(views[k].vis, bytes.HasPrefix(ukeys[k], prefix))
		if len(bound) > 0 {
			if reverse {
				pick = vpAnd(pick, bytes.Compare(ukeys[k], bound) <= 0)
			} else {
				pick = vpAnd(pick, bytes.Compare(ukeys[k], bound) >= 0)
			}
		}
		yielded[k] = pick
		rank[k] = total
		total = vpIteInt(pick, total+1, total)
	}

	// ---- run the real iterator ----
	it := txn.NewIterator(IteratorOptions{Reverse: reverse, Prefix: prefix, SinceTs: sinceTs})
	if seekKey != nil {
		it.Seek(seekKey)
	} else {
		it.Rewind()
	}
	got := 0
	for ; it.Valid() && got <= nk; it.Next() {
		item := it.Item()
		match := false
		for k := 0; k < nk; k++ {
			v := views[k]
			same := vpAnd(vpAnd(bytes.Equal(item.key, ukeys[k]), item.version == v.ver),
				vpAnd(vpAnd(item.meta == v.meta, item.userMeta == v.umeta), item.expiresAt == v.exp))
			valSame := len(item.vptr) == v.vlen
			if len(item.vptr) == 1 {
				valSame = vpAnd(valSame, item.vptr[0] == v.val)
			}
			match = vpOr(match, vpAnd(vpAnd(yielded[k], rank[k] == got), vpAnd(same, valSame)))
		}
		vpAssert(match, "C04,C01:pend.iter-item-is-next-of-overlay")
		got++
		vpCover("pend.iter-yield")
	}
	vpAssert(got == total, "C04,C01:pend.iter-count")
	it.Close()
	if reverse {
		vpCover("pend.reverse")
	}
	if nops > 0 {
		vpCover("pend.has-pending")
	}
	vpObserveU64("count", uint64(got))

	// ---- Get of every key ----
	// (after a full scan only: there the iterator has already decided, on this path, whether each
	// pending write is deleted/expired, so the Gets add assertions but hardly any paths)
	for k := 0; k < nk && (start == 0 || general); k++ {
		v := overlay(k, 0)
		getKey = k
		item, err := txn.Get(ukeys[k])
		if err != nil {
			vpAssert(err == ErrKeyNotFound, "C04:pend.get-only-error-is-notfound")
			vpAssert(vpNot(v.vis), "C04,C01:pend.get-notfound-only-if-overlay-hides")
			if pend[k] != nil {
				vpCover("pend.get-pending-hides")
			}
			continue
		}
		same := vpAnd(vpAnd(bytes.Equal(item.key, ukeys[k]), item.version == v.ver),
			vpAnd(vpAnd(item.meta == v.meta, item.userMeta == v.umeta), item.expiresAt == v.exp))
		val := item.vptr
		if pend[k] != nil {
			val = item.val
			vpCover("pend.get-from-pending")
		}
		valSame := len(val) == v.vlen
		if len(val) == 1 {
			valSame = vpAnd(valSame, val[0] == v.val)
		}
		vpAssert(vpAnd(v.vis, vpAnd(same, valSame)), "C04,C01:pend.get-returns-overlay")
	}
}

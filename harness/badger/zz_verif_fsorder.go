package badger

import (
	"errors"
	"io"
	"io/fs"
	"os"
	"path/filepath"
	"time"

	"google.golang.org/protobuf/proto"

	"github.com/dgraph-io/badger/v4/pb"
)

// H-FSORDER, common part: an abstract file system behind stubs of every os / mmap / sync call
// badger makes (approach of zz_verif_manifest.go, extended by mmap, unlink, directory entries,
// fault returns and crash checkpoints). The REAL badger and ristretto/z code runs above it:
// z.OpenMmapFile, z.OpenMmapFileUsing, (*z.MmapFile).Sync/Truncate/Delete/Close, z.SyncDir,
// y.OpenExistingFile/OpenTruncFile/CreateSyncedFile, badger.syncDir/openDir are NOT stubbed.
//
// Stubbed (= the trusted base of every claim made by the zz_verif_fs*.go harnesses):
//   os.OpenFile, os.Open, os.Remove, os.Rename, os.Stat, os.ReadDir, os.MkdirAll, os.WriteFile,
//   os.Getpid, (*os.File).Write/Read/ReadAt/Sync/Close/Stat/Seek/Truncate/Name/Fd,
//   z.Mmap, z.Munmap, z.Msync, z.Madvise, z.mremap, unix.Flock, crypto/rand.Read,
//   proto.Marshal/Unmarshal of *pb.ManifestChangeSet (opaque codec, as in H-MANIFEST).
//
// File model: {exists, dirDur, data, snap}.
//   exists  - a directory entry for the name is present (in core).
//   dirDur  - the creation of that entry is covered by a LATER successful fsync of the directory.
//   data    - bytes written (write(2)) or stored through the shared mapping (mmap region == data).
//   snap    - copy of data taken at the last successful fsync/msync of the file (nil: never).
// Crash model (C08, process killed, kernel survives): what is in `exists`/`data` survives.
// Power-loss model (C10): a file certainly survives with content `snap` only if dirDur; a removal
// may become durable at any moment (so may any unsynced write).
//
// Faults: while armed, every stub that can fail in the kernel asks vpBool("fault") - at most
// `maxFaults` per path; a failing call has no effect, except write(2) which may also have stored
// all bytes before reporting the error (vpChoose "write-effect"), and fsync/msync, which leaves the
// data written but not durable.
// Checkpoints: after every state change (and after every fault) fs.check(event) is called; the
// harness evaluates its recovery invariants there and files them with fs.oblige(); all obligations
// of a path are decided at its end by vpFDischarge (one symbolic crash-point selector per id).

var vpFErrIO = errors.New("vp: injected I/O error")

// vpFErrNotExist / vpFErrExist are nil in the engine (package os is not initialised): own sentinels,
// and os.IsNotExist is stubbed to recognise exactly the sentinel (the real one does not unwrap
// fmt-wrapped errors either).
var vpFErrNotExist = errors.New("vp: no such file or directory")
var vpFErrExist = errors.New("vp: file exists")
var vpFErrBadf = errors.New("vp: bad file descriptor (closed, unknown, or not open for writing)")

type vpFFile struct {
	name   string
	exists bool
	isNew  bool // created through the stubs by this process (not seeded as left by an earlier run)
	dirDur bool
	isDir  bool
	data   []byte
	snap   []byte
	synced bool // snap valid
	nmaps  int
}

type vpFHandle struct {
	fp       *os.File
	name     string
	f        *vpFFile
	pos      int
	closed   bool
	writable bool
	mapped   []byte // current mapping obtained through this descriptor (nil: none)
}

type vpFObl struct {
	id    string
	ok    bool
	known bool // failure lies inside the known class
	key   string
	at    int // index of the event after which the crash happens
}

type vpFS struct {
	files     map[string]*vpFFile
	names     []string // creation order (deterministic iteration)
	hs        []*vpFHandle
	ev        []string
	armed     bool
	faults    int
	faultOps  []string
	quiet     bool // no fault injection while set (calls whose error the code under test turns into log.Fatal)
	maxFaults int
	bad       string   // first misuse of a descriptor seen by a stub
	muts      []string // every successful mutation (create, write, truncate, rename, unlink, mkdir) since arm()
	syncs     []string // every successful fsync / msync since arm()
	attempts  []string // mutations attempted through a read-only descriptor (refused, no effect)
	touched   []string // every file-system call since arm() (I5, in-memory mode)
	obls      []vpFObl
	check     func(ev string)
	onWrite   func(h *vpFHandle, b []byte, reportedFailed bool)
	onFault   func(op string)
	onSync    func(h *vpFHandle)
	onRemove  func(name string)
}

func (fs *vpFS) event(s string) {
	fs.ev = append(fs.ev, s)
	vpEvent(s)
}

// step: a state change just happened (or a call just failed): crash checkpoint.
func (fs *vpFS) step(s string, mutation bool) {
	fs.event(s)
	if fs.armed {
		fs.touched = append(fs.touched, s)
		if mutation {
			fs.muts = append(fs.muts, s)
		}
	}
	if fs.check != nil && fs.armed {
		fs.check(s)
	}
}

// stepSync: an fsync / msync succeeded: durability changes, file contents and names do not
func (fs *vpFS) stepSync(s string) {
	if fs.armed {
		fs.syncs = append(fs.syncs, s)
	}
	fs.step(s, false)
}

func (fs *vpFS) touch(s string) {
	if fs.armed {
		fs.touched = append(fs.touched, s)
	}
}

func (fs *vpFS) fault(op string) bool {
	if !fs.armed || fs.quiet || fs.faults >= fs.maxFaults {
		return false
	}
	if vpBool("fault") {
		fs.faults++
		fs.faultOps = append(fs.faultOps, op)
		vpCover("fs.fault")
		if fs.onFault != nil {
			fs.onFault(op)
		}
		fs.step("FAULT "+op, false)
		return true
	}
	return false
}

func (fs *vpFS) oblige(id string, ok bool) {
	fs.obls = append(fs.obls, vpFObl{id: id, ok: ok, at: len(fs.ev) - 1})
}

func (fs *vpFS) obligeKnown(id string, ok bool, known bool, key string) {
	fs.obls = append(fs.obls, vpFObl{id: id, ok: ok, known: known, key: key, at: len(fs.ev) - 1})
}

// vpFDischarge decides every obligation filed on this path. For each assertion id one symbolic
// selector "crash.point" ranges over the checkpoints at which the id was evaluated; the model of
// a violation names the crash point (index into the event log, which is printed with the sample).
func vpFDischarge(fs *vpFS) {
	var ids []string
	for _, o := range fs.obls {
		seen := false
		for _, s := range ids {
			seen = seen || s == o.id
		}
		if !seen {
			ids = append(ids, o.id)
		}
	}
	for _, id := range ids {
		allOK := true
		key := ""
		for _, o := range fs.obls {
			if o.id == id {
				allOK = allOK && o.ok
				if o.key != "" {
					key = o.key
				}
			}
		}
		if allOK {
			vpAssert(true, id)
			continue
		}
		sel := vpInt("crash.point")
		c, k := true, false // outside the evaluated checkpoints the obligation is trivially true
		for _, o := range fs.obls {
			if o.id == id {
				c = vpIteBool(sel == o.at, o.ok, c)
				k = vpIteBool(sel == o.at, o.known, k)
			}
		}
		if key != "" {
			vpAssertKnown(c, id, k, key)
		} else {
			vpAssert(c, id)
		}
	}
}

func (fs *vpFS) lookup(name string) *vpFFile { return fs.files[filepath.Clean(name)] }

func (fs *vpFS) mk(name string) *vpFFile {
	name = filepath.Clean(name)
	f := fs.files[name]
	if f == nil {
		f = &vpFFile{name: name}
		fs.files[name] = f
		fs.names = append(fs.names, name)
	}
	return f
}

// preexisting file of an earlier run: entry and content durable.
func (fs *vpFS) seed(name string, data []byte) *vpFFile {
	f := fs.mk(name)
	f.exists, f.dirDur, f.data, f.synced = true, true, data, true
	f.snap = append([]byte{}, data...)
	return f
}

func (fs *vpFS) seedDir(name string) {
	f := fs.mk(name)
	f.exists, f.dirDur, f.isDir = true, true, true
}

func (fs *vpFS) handle(fp *os.File) *vpFHandle {
	for _, h := range fs.hs {
		if h.fp == fp {
			return h
		}
	}
	return nil
}

func (fs *vpFS) use(fp *os.File, op string) *vpFHandle {
	h := fs.handle(fp)
	if h == nil || h.closed {
		if fs.bad == "" {
			fs.bad = op + " on a closed or unknown file"
		}
		return nil
	}
	return h
}

func (fs *vpFS) open(name string, f *vpFFile, writable bool) *os.File {
	fp := new(os.File)
	fs.hs = append(fs.hs, &vpFHandle{fp: fp, name: name, f: f, writable: writable})
	return fp
}

// byMapping: the descriptor whose current mapping is the slice b (same first byte).
func (fs *vpFS) byMapping(b []byte) *vpFHandle {
	if len(b) == 0 {
		return nil
	}
	for _, h := range fs.hs {
		if len(h.mapped) > 0 && &h.mapped[0] == &b[0] {
			return h
		}
	}
	return nil
}

func (fs *vpFS) syncDirEntries(dir string) {
	for _, n := range fs.names {
		f := fs.files[n]
		if filepath.Dir(n) == dir && f.exists {
			f.dirDur = true
		}
	}
}

// refuse: a mutation attempted through a descriptor that was not opened for writing. The kernel
// refuses it (EBADF/EINVAL): no effect; recorded so that harnesses can report it.
func (fs *vpFS) refuse(op, name string) {
	if fs.armed {
		fs.attempts = append(fs.attempts, op+" "+name)
	}
	fs.event("REFUSED " + op + " " + name)
}

type vpFInfo struct {
	name string
	n    int64
	dir  bool
}

func (i vpFInfo) Name() string       { return i.name }
func (i vpFInfo) Size() int64        { return i.n }
func (i vpFInfo) Mode() os.FileMode  { return 0600 }
func (i vpFInfo) ModTime() time.Time { return time.Time{} }
func (i vpFInfo) IsDir() bool        { return i.dir }
func (i vpFInfo) Sys() interface{}   { return nil }

type vpFDirEntry struct{ info vpFInfo }

func (d vpFDirEntry) Name() string               { return d.info.name }
func (d vpFDirEntry) IsDir() bool                { return d.info.dir }
func (d vpFDirEntry) Type() fs.FileMode          { return 0 }
func (d vpFDirEntry) Info() (fs.FileInfo, error) { return d.info, nil }

func vpFNewFS(maxFaults int) *vpFS {
	fs := &vpFS{files: map[string]*vpFFile{}, maxFaults: maxFaults}

	vpStub("os.OpenFile", func(name string, flag int, perm os.FileMode) (*os.File, error) {
		name = filepath.Clean(name)
		fs.touch("openfile " + name)
		f := fs.lookup(name)
		acc := flag & (os.O_RDONLY | os.O_WRONLY | os.O_RDWR)
		writable := acc != os.O_RDONLY
		if f != nil && f.exists {
			if flag&os.O_CREATE != 0 && flag&os.O_EXCL != 0 {
				return nil, vpFErrExist
			}
			if fs.fault("open " + name) {
				return nil, vpFErrIO
			}
			if flag&os.O_TRUNC != 0 && len(f.data) > 0 {
				f.data = nil
				fs.step("trunc-open "+name, true)
			}
			return fs.open(name, f, writable), nil
		}
		if flag&os.O_CREATE == 0 {
			return nil, vpFErrNotExist
		}
		if fs.fault("create " + name) {
			return nil, vpFErrIO
		}
		f = fs.mk(name)
		f.exists, f.dirDur, f.data, f.snap, f.synced, f.isNew = true, false, nil, nil, false, true
		fp := fs.open(name, f, writable)
		fs.step("create "+name, true)
		return fp, nil
	})
	vpStub("os.Open", func(name string) (*os.File, error) {
		name = filepath.Clean(name)
		fs.touch("open " + name)
		f := fs.lookup(name)
		if f == nil || !f.exists {
			return nil, vpFErrNotExist
		}
		if fs.fault("open " + name) {
			return nil, vpFErrIO
		}
		return fs.open(name, f, false), nil
	})
	vpStub("os.Stat", func(name string) (os.FileInfo, error) {
		name = filepath.Clean(name)
		fs.touch("stat " + name)
		f := fs.lookup(name)
		if f == nil || !f.exists {
			return nil, vpFErrNotExist
		}
		return vpFInfo{filepath.Base(name), int64(len(f.data)), f.isDir}, nil
	})
	vpStub("os.ReadDir", func(name string) ([]os.DirEntry, error) {
		name = filepath.Clean(name)
		fs.touch("readdir " + name)
		d := fs.lookup(name)
		if d == nil || !d.exists {
			return nil, vpFErrNotExist
		}
		if fs.fault("readdir " + name) {
			return nil, vpFErrIO
		}
		var out []os.DirEntry
		for _, n := range fs.names {
			f := fs.files[n]
			if f.exists && n != name && filepath.Dir(n) == name {
				out = append(out, vpFDirEntry{vpFInfo{filepath.Base(n), int64(len(f.data)), f.isDir}})
			}
		}
		return out, nil
	})
	vpStub("os.MkdirAll", func(name string, perm os.FileMode) error {
		name = filepath.Clean(name)
		fs.touch("mkdir " + name)
		if f := fs.lookup(name); f != nil && f.exists {
			return nil
		}
		if fs.fault("mkdir " + name) {
			return vpFErrIO
		}
		f := fs.mk(name)
		f.exists, f.isDir, f.isNew = true, true, true
		fs.step("mkdir "+name, true)
		return nil
	})
	vpStub("os.WriteFile", func(name string, data []byte, perm os.FileMode) error {
		name = filepath.Clean(name)
		fs.touch("writefile " + name)
		if fs.fault("writefile " + name) {
			return vpFErrIO
		}
		f := fs.mk(name)
		if !f.exists {
			f.exists, f.dirDur, f.isNew, f.synced, f.snap = true, false, true, false, nil
		}
		f.data = append([]byte{}, data...)
		fs.step("writefile "+name, true)
		return nil
	})
	vpStub("os.Remove", func(name string) error {
		name = filepath.Clean(name)
		fs.touch("remove " + name)
		f := fs.lookup(name)
		if f == nil || !f.exists {
			return vpFErrNotExist
		}
		if fs.fault("unlink " + name) {
			return vpFErrIO
		}
		f.exists, f.dirDur = false, false
		if fs.onRemove != nil {
			fs.onRemove(name)
		}
		fs.step("unlink "+name, true)
		return nil
	})
	vpStub("os.Rename", func(from, to string) error {
		from, to = filepath.Clean(from), filepath.Clean(to)
		fs.touch("rename " + from)
		f := fs.lookup(from)
		if f == nil || !f.exists {
			return vpFErrNotExist
		}
		if fs.fault("rename " + from) {
			return vpFErrIO
		}
		t := fs.mk(to)
		t.exists, t.dirDur, t.data, t.snap, t.synced, t.isNew = true, false, f.data, f.snap, f.synced, f.isNew
		f.exists, f.dirDur, f.data, f.snap, f.synced = false, false, nil, nil, false
		for _, h := range fs.hs {
			if h.f == f && !h.closed {
				h.f, h.name = t, to
			}
		}
		fs.step("rename "+from+" > "+to, true)
		return nil
	})
	vpStub("os.Getpid", func() int { return 4242 })
	vpStub("os.IsNotExist", func(err error) bool { return err == vpFErrNotExist })

	vpStub("(*os.File).Name", func(fp *os.File) string {
		if h := fs.handle(fp); h != nil {
			return h.name
		}
		return ""
	})
	vpStub("(*os.File).Fd", func(fp *os.File) uintptr {
		for i, h := range fs.hs {
			if h.fp == fp {
				return uintptr(3 + i)
			}
		}
		return ^uintptr(0)
	})
	vpStub("(*os.File).Stat", func(fp *os.File) (os.FileInfo, error) {
		h := fs.use(fp, "Stat")
		if h == nil {
			return nil, vpFErrBadf
		}
		fs.touch("fstat " + h.name)
		if fs.fault("fstat " + h.name) {
			return nil, vpFErrIO
		}
		return vpFInfo{filepath.Base(h.name), int64(len(h.f.data)), h.f.isDir}, nil
	})
	vpStub("(*os.File).Write", func(fp *os.File, b []byte) (int, error) {
		h := fs.use(fp, "Write")
		if h == nil || h.f.isDir {
			return 0, vpFErrBadf
		}
		fs.touch("write " + h.name)
		if !h.writable {
			fs.refuse("write", h.name)
			return 0, vpFErrBadf
		}
		if h.pos != len(h.f.data) {
			fs.bad = "Write not at the end of " + h.name // every badger writer appends
			return 0, vpFErrBadf
		}
		if fs.fault("write " + h.name) {
			if vpChoose("write-effect", 2) == 0 {
				return 0, vpFErrIO
			}
			// the bytes reached the file, the call still reports an error
			h.f.data = append(h.f.data, b...)
			h.pos = len(h.f.data)
			if fs.onWrite != nil {
				fs.onWrite(h, b, true)
			}
			fs.step("write(reported as failed) "+h.name, true)
			return 0, vpFErrIO
		}
		h.f.data = append(h.f.data, b...)
		h.pos = len(h.f.data)
		if fs.onWrite != nil {
			fs.onWrite(h, b, false)
		}
		fs.step("write "+h.name, true)
		return len(b), nil
	})
	vpStub("(*os.File).Read", func(fp *os.File, b []byte) (int, error) {
		h := fs.use(fp, "Read")
		if h == nil || h.f.isDir {
			return 0, vpFErrBadf
		}
		fs.touch("read " + h.name)
		if len(b) == 0 {
			return 0, nil
		}
		if h.pos >= len(h.f.data) {
			return 0, io.EOF
		}
		n := copy(b, h.f.data[h.pos:])
		h.pos += n
		return n, nil
	})
	vpStub("(*os.File).ReadAt", func(fp *os.File, b []byte, off int64) (int, error) {
		h := fs.use(fp, "ReadAt")
		if h == nil || h.f.isDir {
			return 0, vpFErrBadf
		}
		fs.touch("read " + h.name)
		if int(off) >= len(h.f.data) {
			return 0, io.EOF
		}
		n := copy(b, h.f.data[off:])
		if n < len(b) {
			return n, io.EOF
		}
		return n, nil
	})
	vpStub("(*os.File).Seek", func(fp *os.File, off int64, whence int) (int64, error) {
		h := fs.use(fp, "Seek")
		if h == nil || h.f.isDir {
			return 0, vpFErrBadf
		}
		switch whence {
		case io.SeekStart:
			h.pos = int(off)
		case io.SeekCurrent:
			h.pos += int(off)
		case io.SeekEnd:
			h.pos = len(h.f.data) + int(off)
		}
		return int64(h.pos), nil
	})
	vpStub("(*os.File).Sync", func(fp *os.File) error {
		h := fs.use(fp, "Sync")
		if h == nil {
			return vpFErrBadf
		}
		if h.f.isDir {
			fs.touch("fsync-dir " + h.name)
			if fs.fault("fsync-dir " + h.name) {
				return vpFErrIO
			}
			fs.syncDirEntries(h.name)
			fs.stepSync("fsync-dir " + h.name)
			return nil
		}
		fs.touch("fsync " + h.name)
		if fs.fault("fsync " + h.name) {
			return vpFErrIO
		}
		h.f.snap, h.f.synced = append([]byte{}, h.f.data...), true
		if fs.onSync != nil {
			fs.onSync(h)
		}
		fs.stepSync("fsync " + h.name)
		return nil
	})
	vpStub("(*os.File).Truncate", func(fp *os.File, size int64) error {
		h := fs.use(fp, "Truncate")
		if h == nil || h.f.isDir {
			return vpFErrBadf
		}
		fs.touch("ftruncate " + h.name)
		if !h.writable {
			fs.refuse("ftruncate", h.name)
			return vpFErrBadf
		}
		if fs.fault("ftruncate " + h.name) {
			return vpFErrIO
		}
		n := int(size)
		if n > vpFMaxFile {
			// beyond the model's file size bound: the attempt is recorded as a mutation and refused
			// like ENOSPC (only reached by code that creates files with production sizes, i.e. not by
			// the unchanged read-only / in-memory paths)
			fs.step("ftruncate(beyond the model bound) "+h.name, true)
			return vpFErrIO
		}
		if n <= len(h.f.data) {
			h.f.data = h.f.data[:n]
		} else {
			nd := make([]byte, n)
			copy(nd, h.f.data)
			h.f.data = nd
		}
		fs.step("ftruncate "+h.name, true)
		return nil
	})
	vpStub("(*os.File).Close", func(fp *os.File) error {
		h := fs.use(fp, "Close")
		if h == nil {
			return vpFErrBadf
		}
		h.closed = true // the descriptor is gone whatever close(2) reports
		if fs.fault("close " + h.name) {
			return vpFErrIO
		}
		return nil
	})

	vpStub("github.com/dgraph-io/ristretto/v2/z.Mmap", func(fp *os.File, writable bool, size int64) ([]byte, error) {
		h := fs.use(fp, "Mmap")
		if h == nil || h.f.isDir {
			return nil, vpFErrBadf
		}
		fs.touch("mmap " + h.name)
		if writable && !h.writable {
			fs.refuse("mmap(PROT_WRITE)", h.name)
			return nil, vpFErrBadf
		}
		if fs.fault("mmap " + h.name) {
			return nil, vpFErrIO
		}
		if int(size) != len(h.f.data) {
			fs.bad = "mmap size differs from the file size of " + h.name
			return nil, vpFErrBadf
		}
		if size == 0 {
			return []byte{}, nil
		}
		h.mapped = h.f.data // MAP_SHARED: stores through the mapping are stores to the file
		return h.mapped, nil
	})
	vpStub("github.com/dgraph-io/ristretto/v2/z.mremap", func(data []byte, size int) ([]byte, error) {
		h := fs.byMapping(data)
		if h == nil {
			fs.bad = "mremap of an unknown mapping"
			return nil, vpFErrBadf
		}
		fs.touch("mremap " + h.name)
		if fs.fault("mremap " + h.name) {
			return nil, vpFErrIO
		}
		if size != len(h.f.data) {
			fs.bad = "mremap size differs from the file size of " + h.name
			return nil, vpFErrBadf
		}
		h.mapped = h.f.data
		return h.mapped, nil
	})
	vpStub("github.com/dgraph-io/ristretto/v2/z.Munmap", func(b []byte) error {
		if len(b) == 0 {
			return nil
		}
		h := fs.byMapping(b)
		if h == nil {
			// Truncate re-allocates the file bytes; a mapping of the old extent is matched by name
			fs.bad = "munmap of an unknown mapping"
			return vpFErrBadf
		}
		fs.touch("munmap " + h.name)
		if fs.fault("munmap " + h.name) {
			return vpFErrIO
		}
		h.mapped = nil
		return nil
	})
	vpStub("github.com/dgraph-io/ristretto/v2/z.Msync", func(b []byte) error {
		if len(b) == 0 {
			return nil
		}
		h := fs.byMapping(b)
		if h == nil {
			fs.bad = "msync of an unknown mapping"
			return vpFErrBadf
		}
		fs.touch("msync " + h.name)
		if fs.fault("msync " + h.name) {
			return vpFErrIO
		}
		h.f.snap, h.f.synced = append([]byte{}, h.f.data...), true
		if fs.onSync != nil {
			fs.onSync(h)
		}
		fs.stepSync("msync " + h.name)
		return nil
	})
	vpStub("github.com/dgraph-io/ristretto/v2/z.Madvise", func(b []byte, readahead bool) error { return nil })
	vpStub("golang.org/x/sys/unix.Flock", func(fd int, how int) error {
		fs.touch("flock")
		if fs.fault("flock") {
			return vpFErrIO
		}
		return nil
	})
	vpStub("crypto/rand.Read", func(b []byte) (int, error) {
		for i := range b {
			b[i] = byte(0xE0 + i)
		}
		return len(b), nil
	})
	return fs
}

func (fs *vpFS) arm() {
	fs.armed = true
	fs.event("---- armed ----")
}

// ---------- opaque protobuf codec for MANIFEST change sets (copy of H-MANIFEST's) ----------

type vpFCodec struct{ tab [][]*pb.ManifestChange }

// decode: the change set behind one MANIFEST record payload written by addChanges
func (c *vpFCodec) decode(b []byte) ([]*pb.ManifestChange, bool) {
	if len(b) == 0 {
		return nil, true
	}
	if len(b) != 2 || b[0] != 0xA5 || b[1] == 0 || int(b[1]) > len(c.tab) {
		return nil, false
	}
	return c.tab[int(b[1])-1], true
}

func vpFInstallCodec() *vpFCodec {
	c := &vpFCodec{}
	vpStub("google.golang.org/protobuf/proto.Marshal", func(m proto.Message) ([]byte, error) {
		cs := m.(*pb.ManifestChangeSet)
		if len(cs.Changes) == 0 {
			return []byte{}, nil
		}
		var cp []*pb.ManifestChange
		for _, ch := range cs.Changes {
			cp = append(cp, &pb.ManifestChange{Id: ch.Id, Op: ch.Op, Level: ch.Level, KeyId: ch.KeyId,
				EncryptionAlgo: ch.EncryptionAlgo, Compression: ch.Compression})
		}
		c.tab = append(c.tab, cp)
		return []byte{0xA5, byte(len(c.tab))}, nil
	})
	vpStub("google.golang.org/protobuf/proto.Unmarshal", func(b []byte, m proto.Message) error {
		cs := m.(*pb.ManifestChangeSet)
		cs.Changes = nil
		chs, ok := c.decode(b)
		if !ok {
			return errors.New("vp: opaque codec: cannot decode")
		}
		for _, ch := range chs {
			cs.Changes = append(cs.Changes, &pb.ManifestChange{Id: ch.Id, Op: ch.Op, Level: ch.Level, KeyId: ch.KeyId,
				EncryptionAlgo: ch.EncryptionAlgo, Compression: ch.Compression})
		}
		return nil
	})
	return c
}

// ---------- model of the MANIFEST as it exists in the file system ----------

// vpFManifest follows the bytes that reach the MANIFEST file through the Write/Sync stubs
// (the record payload is decoded with the opaque codec; that ReplayManifestFile yields exactly the
// sequence of change sets written is H-MANIFEST's claim).
// written: table ids after applying every change set written so far (crash model: this is what
// recovery sees). pending: table-id sets after each change set written since the last fsync; under
// the power-loss model recovery may see `synced` or any of `pending` (unsynced appends may or may
// not have reached the disk).
type vpFRecord struct {
	creates, deletes []uint64
	synced           bool // covered by a successful fsync of the MANIFEST
	failed           bool // the addChanges call that wrote it returned an error (write or fsync fault)
}

type vpFManifest struct {
	path    string
	codec   *vpFCodec
	written map[uint64]bool
	synced  map[uint64]bool
	pending []map[uint64]bool
	recs    []*vpFRecord
	bad     string
	nwrites int
	nsyncs  int
}

const vpFMaxID = 10

// vpFMaxFile: largest file the abstract file system materialises (bytes)
const vpFMaxFile = 1 << 14

func vpFCopySet(m map[uint64]bool) map[uint64]bool {
	c := map[uint64]bool{}
	for id := uint64(0); id < vpFMaxID; id++ {
		if m[id] {
			c[id] = true
		}
	}
	return c
}

func vpFTrackManifest(fs *vpFS, path string, codec *vpFCodec, initial []uint64) *vpFManifest {
	mm := &vpFManifest{path: path, codec: codec, written: map[uint64]bool{}, synced: map[uint64]bool{}}
	for _, id := range initial {
		mm.written[id], mm.synced[id] = true, true
	}
	fs.onWrite = func(h *vpFHandle, b []byte, reportedFailed bool) {
		if h.name != path {
			return
		}
		mm.nwrites++
		if len(b) < 8 {
			mm.bad = "short MANIFEST record"
			return
		}
		chs, ok := codec.decode(b[8:])
		if !ok {
			mm.bad = "MANIFEST record is not a change set"
			return
		}
		r := &vpFRecord{failed: reportedFailed}
		for _, ch := range chs {
			if ch.Id >= vpFMaxID {
				mm.bad = "table id beyond the harness bound"
			}
			if ch.Op == pb.ManifestChange_CREATE {
				mm.written[ch.Id] = true
				r.creates = append(r.creates, ch.Id)
			} else {
				delete(mm.written, ch.Id)
				r.deletes = append(r.deletes, ch.Id)
			}
		}
		mm.recs = append(mm.recs, r)
		mm.pending = append(mm.pending, vpFCopySet(mm.written))
	}
	fs.onSync = func(h *vpFHandle) {
		if h.name != path {
			return
		}
		mm.nsyncs++
		mm.synced = vpFCopySet(mm.written)
		mm.pending = nil
		for _, r := range mm.recs {
			r.synced = true
		}
	}
	fs.onFault = func(op string) {
		// a failed fsync of the MANIFEST: the record written just before belongs to an addChanges
		// call that returns an error
		if op == "fsync "+path && len(mm.recs) > 0 && !mm.recs[len(mm.recs)-1].synced {
			mm.recs[len(mm.recs)-1].failed = true
		}
	}
	return mm
}

// mayList: under the power-loss model, may recovery find table id in the MANIFEST?
func (mm *vpFManifest) mayList(id uint64) bool {
	if mm.synced[id] {
		return true
	}
	for _, p := range mm.pending {
		if p[id] {
			return true
		}
	}
	return false
}

// mustList: does every MANIFEST state recovery can find list table id?
func (mm *vpFManifest) mustList(id uint64) bool {
	if !mm.synced[id] {
		return false
	}
	for _, p := range mm.pending {
		if !p[id] {
			return false
		}
	}
	return true
}

// createdByFailedAdd: table id was entered by a record whose addChanges call returned an error
func (mm *vpFManifest) createdByFailedAdd(id uint64) bool {
	for _, r := range mm.recs {
		if r.failed {
			for _, c := range r.creates {
				if c == id {
					return true
				}
			}
		}
	}
	return false
}

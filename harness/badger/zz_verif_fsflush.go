package badger

import (
	"bytes"

	"github.com/dgraph-io/badger/v4/skl"
	"github.com/dgraph-io/badger/v4/table"
	"github.com/dgraph-io/badger/v4/y"
)

// H-FSORDER / flush: the REAL DB.flushMemtable (one memtable on the flush channel, retry loop
// included) -> REAL handleMemTableFlush -> REAL table.CreateTable (z.OpenMmapFile, buildData.Copy,
// z.Msync) -> REAL levelsController.addLevel0Table -> REAL manifestFile.addChanges (Write, Sync) ->
// REAL tryAddLevel0Table, Table.DecrRef -> REAL memTable.DecrRef -> Skiplist.DecrRef -> OnClose ->
// logFile.Delete (munmap, ftruncate, close, unlink), all over the abstract file system of
// zz_verif_fsorder.go. The memtable and the MANIFEST are created by the real newMemTable and
// helpOpenOrCreateManifestFile before the fault schedule is armed.
// Stubbed besides the file system: buildTableOptions (zero Options), buildL0Table (closes the
// iterator as the real one does, returns an empty Builder), Builder.Empty (false) / Finish / Close,
// Builder.Done + table.OpenTable (table/zz_verif_fshelp.go), Table.StaleDataSize (0),
// skl.NewSkiplist / Skiplist.Put / MemSize / Empty (the reference counting is real).

const vpFKeyIOErr = "C14-manifest-ahead-after-io-error"
const vpFKeyDirsync = "C10-missing-dirsync"

// vpFEnv: what the flush / compaction / write-path kernels share.
type vpFEnv struct {
	fs    *vpFS
	codec *vpFCodec
	mm    *vpFManifest
	db    *DB
	img   []byte // complete image of a table file
	dir   string
	puts  []string // keys handed to Skiplist.Put
	rng   func(id uint64) ([]byte, []byte)
}

func vpFSst(dir string, id uint64) string { return table.NewFilename(id, dir) }

// crash model: the table file is there with the complete image
func (e *vpFEnv) crashOK(id uint64) bool {
	f := e.fs.lookup(vpFSst(e.dir, id))
	return f != nil && f.exists && bytes.Equal(f.data, e.img)
}

// power-loss model: complete image msynced ...
func (e *vpFEnv) contentDurable(id uint64) bool {
	f := e.fs.lookup(vpFSst(e.dir, id))
	return f != nil && f.exists && f.synced && bytes.Equal(f.snap, e.img)
}

// ... and the directory entry synced afterwards
func (e *vpFEnv) powerOK(id uint64) bool {
	f := e.fs.lookup(vpFSst(e.dir, id))
	return e.contentDurable(id) && f.dirDur
}

// known class C10-missing-dirsync: the ONLY missing durability is the directory entry of a file
// created by the code under test that no directory fsync followed
func (e *vpFEnv) dirGapOnly(id uint64) bool {
	f := e.fs.lookup(vpFSst(e.dir, id))
	return e.contentDurable(id) && !f.dirDur && f.isNew
}

// known class C14-manifest-ahead-after-io-error: the table was entered into the MANIFEST by an
// addChanges call that returned an error (the record had reached the file), and the error path
// (Table.DecrRef of the only reference -> MmapFile.Delete: ftruncate(0), unlink) removed its file
func (e *vpFEnv) removedAfterFailedAdd(id uint64) bool {
	f := e.fs.lookup(vpFSst(e.dir, id))
	return e.mm.createdByFailedAdd(id) && (f == nil || !f.exists || len(f.data) == 0)
}

// i1: every table the MANIFEST lists (as recovery could read it) has its complete file.
// Returns crash-model verdict, power-loss verdict, and whether every failure is inside the class
// dirsync / inside the class io-error.
func (e *vpFEnv) i1() (crash, crashIO, power, powerDir, powerIO bool) {
	crash, crashIO, power, powerDir, powerIO = true, true, true, true, true
	for id := uint64(1); id < vpFMaxID; id++ {
		if e.mm.written[id] && !e.crashOK(id) {
			crash = false
			if !e.removedAfterFailedAdd(id) {
				crashIO = false
			}
		}
		if e.mm.mayList(id) && !e.powerOK(id) {
			power = false
			if !e.dirGapOnly(id) {
				powerDir = false
			}
			if !e.removedAfterFailedAdd(id) && !e.dirGapOnly(id) {
				powerIO = false
			}
		}
	}
	return
}

// obligeI1 files the I1 obligations of one checkpoint under the ids pfx+...
// C08 / C10 quantify over crash points of runs WITHOUT I/O errors: their invariants are evaluated
// only while no fault has been injected on the path. After an injected error the crash-model
// invariant is filed under C14 ("the table files on disk match the MANIFEST").
// dirGapKnown: whether the unchanged tree has the known directory-sync gap on this path (flush: yes;
// compaction: no - compactBuildTables fsyncs the directory before the MANIFEST is written, so there
// a missing directory entry is an ordinary violation).
func (e *vpFEnv) obligeI1(pfx string, dirGapKnown bool) {
	fs := e.fs
	crash, crashIO, power, powerDir, _ := e.i1()
	if fs.faults == 0 {
		fs.oblige("C08:"+pfx+".i1-manifest-tables-exist", crash)
		if dirGapKnown {
			fs.obligeKnown("C10:"+pfx+".i1-sst-durable-before-manifest", power, !power && powerDir, vpFKeyDirsync)
		} else {
			fs.oblige("C10:"+pfx+".i1-sst-durable-before-manifest", power)
		}
	} else {
		fs.obligeKnown("C14:"+pfx+".manifest-tables-exist-after-io-error", crash, !crash && crashIO, vpFKeyIOErr)
	}
}

func vpFSetup(maxFaults int) *vpFEnv {
	fs := vpFNewFS(maxFaults)
	codec := vpFInstallCodec()
	const dir = "/db"
	fs.seedDir(dir)

	db := &DB{}
	db.opt.Dir, db.opt.ValueDir = dir, dir
	db.opt.MemTableSize = 128
	db.opt.maxBatchSize = 2048
	db.opt.NumLevelZeroTables = 5
	db.opt.NumLevelZeroTablesStall = 15
	db.opt.MaxLevels = 3
	db.registry = &KeyRegistry{}

	e := &vpFEnv{fs: fs, codec: codec, db: db, dir: dir, img: table.VpFSImage()}
	e.rng = func(id uint64) ([]byte, []byte) {
		return y.KeyWithTs([]byte("a"), 5), y.KeyWithTs([]byte("b"), 5)
	}

	vpStub("badger.buildTableOptions", func(db *DB) table.Options { return table.Options{} })
	vpStub("badger.buildL0Table", func(iter y.Iterator, dropPrefixes [][]byte, bopts table.Options) *table.Builder {
		iter.Close() // the real one defers this: releases the iterator's reference on the skiplist
		return table.VpFSBuilder()
	})
	vpStub("(*badger/table.Builder).Empty", func(b *table.Builder) bool { return false })
	vpStub("(*badger/table.Builder).Finish", func(b *table.Builder) []byte { return nil })
	vpStub("(*badger/table.Builder).Close", func(b *table.Builder) {})
	vpStub("(*badger/table.Table).StaleDataSize", func(t *table.Table) uint32 { return 0 })
	// skiplist: only its REAL reference counting (IncrRef/DecrRef -> OnClose, NewIterator/Close) is
	// used here; the arena (unsafe casts) is not built and Put/MemSize/Empty are recorders
	vpStub("badger/skl.NewSkiplist", func(arenaSize int64) *skl.Skiplist {
		s := &skl.Skiplist{}
		s.IncrRef()
		return s
	})
	vpStub("(*badger/skl.Skiplist).Put", func(s *skl.Skiplist, key []byte, v y.ValueStruct) {
		e.puts = append(e.puts, string(key))
	})
	vpStub("(*badger/skl.Skiplist).MemSize", func(s *skl.Skiplist) int64 { return 0 })
	vpStub("(*badger/skl.Skiplist).Empty", func(s *skl.Skiplist) bool { return len(e.puts) == 0 })
	vpStub("(*badger/table.Builder).Done", table.VpFSDone)
	vpStub("badger/table.OpenTable", table.VpFSOpenTable(func(id uint64) ([]byte, []byte) { return e.rng(id) },
		func() bool { return fs.fault("opentable: parse index") }))

	// MANIFEST by the real code, fault schedule not armed
	mf, _, err := helpOpenOrCreateManifestFile(dir, false, 0, manifestDeletionsRewriteThreshold, db.opt)
	vpAssume(err == nil)
	db.manifest = mf
	db.nextMemFid = 1
	db.lc = &levelsController{kv: db}
	db.lc.levels = []*levelHandler{newLevelHandler(db, 0), newLevelHandler(db, 1), newLevelHandler(db, 2)}
	db.lc.nextFileID.Store(1)
	return e
}

func VpHFlushOrder() {
	e := vpFSetup(vpParam("fs.faults", 1))
	fs, db, dir := e.fs, e.db, e.dir
	mt, err := db.newMemTable()
	vpAssume(err == nil)
	mt.sl.Put(y.KeyWithTs([]byte("a"), 5), y.ValueStruct{Value: []byte("v")})
	vpAssume(syncDir(dir) == nil) // as newLevelsController does at the end of Open
	wal := fs.lookup(mt.wal.path)
	vpAssert(wal != nil && wal.exists && wal.dirDur, "C08:flush.setup")

	db.imm = []*memTable{mt}
	db.flushChan = make(chan *memTable, 1)
	db.flushChan <- mt
	close(db.flushChan)

	e.mm = vpFTrackManifest(fs, dir+"/"+ManifestFilename, e.codec, nil)
	mm := e.mm

	fs.check = func(ev string) {
		e.obligeI1("flush", true)
		// I3: the memtable's WAL is gone only if a complete table of it is in the MANIFEST
		if !wal.exists && fs.faults == 0 {
			vpCover("flush.wal-removed")
			i3c, i3p, i3k := false, false, false
			for id := uint64(1); id < vpFMaxID; id++ {
				if mm.written[id] && e.crashOK(id) {
					i3c = true
				}
				if mm.mustList(id) && e.powerOK(id) {
					i3p = true
				}
				if mm.mustList(id) && e.dirGapOnly(id) {
					i3k = true
				}
			}
			fs.oblige("C08:flush.i3-wal-removed-after-manifest", i3c)
			fs.obligeKnown("C10:flush.i3-wal-removed-after-durable-manifest", i3p, !i3p && i3k, vpFKeyDirsync)
		}
	}

	fs.arm()
	db.flushMemtable(nil)

	vpFDischarge(fs)
	// the loop retries until the flush succeeded: final state
	l0 := db.lc.levels[0].tables
	if fs.faults == 0 {
		vpCover("flush.no-fault")
		vpAssert(fs.bad == "", "C08:flush.file-handle-discipline")
		vpAssert(mm.bad == "", "C08:flush.manifest-records-wellformed")
		vpAssert(len(db.imm) == 0 && !wal.exists, "C08:flush.done-memtable-released")
		vpAssert(len(l0) == 1, "C08:flush.done-one-l0-table")
		if len(l0) == 1 {
			id := l0[0].ID()
			vpAssert(mm.written[id] && e.crashOK(id) && table.VpFSRefs(l0[0]) == 1, "C08,C14:flush.done-l0-table-listed-and-present")
		}
	} else {
		// after an I/O error the loop has retried (or the error hit the WAL removal, which is only logged)
		vpCover("flush.retried-or-leaked")
		vpAssert(fs.bad == "" && mm.bad == "", "C14:flush.retry-file-handle-discipline")
		vpAssert(len(db.imm) == 0 && len(l0) == 1, "C14:flush.retry-one-l0-table")
		if len(l0) == 1 {
			id := l0[0].ID()
			vpAssert(mm.written[id] && e.crashOK(id) && table.VpFSRefs(l0[0]) == 1, "C14:flush.retry-l0-table-listed-and-present")
		}
	}
}

package badger

import (
	"bytes"
	"errors"
	"io"

	"github.com/dgraph-io/badger/v4/skl"
	"github.com/dgraph-io/badger/v4/y"
	"github.com/dgraph-io/ristretto/v2/z"
)

// One result handed to logFile.iterate by the stubbed (*safeRead).Entry.
type vpRes struct {
	kind int // 0 entry, 1 io.EOF, 2 io.ErrUnexpectedEOF, 3 errTruncate, 4 zero entry, 5 other error
	e    *Entry
	off  uint32 // record offset (what the real Entry stores in e.offset)
	ln   uint32 // record length hlen+klen+vlen+crc
}

type vpGot struct {
	idx int
	e   Entry
	vp  valuePointer
}

var vpErrOther = errors.New("vp: read error other than EOF/ErrUnexpectedEOF/errTruncate")

// reference parse of an end-of-transaction marker value: non-empty, decimal digits only
func vpRefParseDec(b []byte) (ok bool, val uint64) {
	ok = len(b) > 0
	for _, c := range b {
		ok = vpAnd(ok, vpAnd(c >= '0', c <= '9'))
		val = val*10 + uint64(c-'0')
	}
	return
}

// vpWalStub installs the record-level stub of (*safeRead).Entry: an arbitrary sequence of at most
// maxRes results, generated lazily (one per call), then io.EOF. allowOther: include kind 5.
// Entries: key = 1 user byte + 8-byte version (real y.KeyWithTs, version symbolic), value 1..2
// symbolic bytes (an end marker's value goes through the real strconv.ParseUint), meta symbolic
// (so iterate itself classifies bitTxn / bitFinTxn / neither), header length symbolic 5..22,
// UserMeta = sequence index (identity tag).
func vpWalStub(maxRes int, allowOther bool) *[]vpRes {
	gen := new([]vpRes)
	vpStub("(*badger.safeRead).Entry", func(r *safeRead, reader io.Reader) (*Entry, error) {
		if len(*gen) >= maxRes {
			*gen = append(*gen, vpRes{kind: 1})
			return nil, io.EOF
		}
		nk := 5
		if allowOther {
			nk = 6
		}
		k := vpChoose("kind", nk)
		switch k {
		case 1:
			*gen = append(*gen, vpRes{kind: 1})
			return nil, io.EOF
		case 2:
			*gen = append(*gen, vpRes{kind: 2})
			return nil, io.ErrUnexpectedEOF
		case 3:
			*gen = append(*gen, vpRes{kind: 3})
			return nil, errTruncate
		case 4:
			// what reading a zeroed region yields when its checksum happens to match
			*gen = append(*gen, vpRes{kind: 4})
			return &Entry{offset: r.recordOffset}, nil
		case 5:
			*gen = append(*gen, vpRes{kind: 5})
			return nil, vpErrOther
		}
		ts := vpU64("ts")
		meta := vpU8("meta")
		vl := 1 + vpChoose("vlen", 2)
		val := vpBytes("val", vl)
		hl := vpU8("hlen")
		vpAssume(vpAnd(hl >= 5, hl <= maxHeaderSize))
		// documented preconditions: commit timestamps are >= 1 (0 is iterate's "no open
		// transaction" sentinel) - for transaction entries and for the value of end markers
		vpAssume(vpImplies(meta&bitTxn != 0, ts >= 1))
		okd, dv := vpRefParseDec(val)
		vpAssume(vpImplies(vpAnd(meta&bitTxn == 0, vpAnd(meta&bitFinTxn != 0, okd)), dv >= 1))
		e := &Entry{Key: y.KeyWithTs([]byte{vpU8("k")}, ts), Value: val, meta: meta, UserMeta: byte(len(*gen)),
			ExpiresAt: vpU64("exp"), offset: r.recordOffset, hlen: int(hl)}
		*gen = append(*gen, vpRes{kind: 0, e: e, off: r.recordOffset, ln: uint32(hl) + uint32(len(e.Key)+vl) + 4})
		return e, nil
	})
	return gen
}

// vpWalReference: what the property statements (C16, C08, C09) demand of a replay.
// Units: (a) a run of bitTxn entries with one common version followed by an end marker whose
// decimal value is that version; (b) an entry with neither bit while no transaction is open.
// Anything else (read error, zero entry, version change inside a transaction, end marker that does
// not parse / does not match / has no open transaction, plain entry inside a transaction) is damage:
// nothing from there on is delivered, and the valid end is the end of the last complete unit.
func vpWalReference(gen []vpRes) (want []int, validEnd uint32, otherErr bool, openAtStop bool) {
	validEnd = vlogHeaderSize
	var pend []int
	var pendTs uint64
loop:
	for i, g := range gen {
		switch g.kind {
		case 1, 2, 3, 4:
			break loop
		case 5:
			otherErr = true
			break loop
		}
		e := g.e
		if e.meta&bitTxn != 0 {
			ts := y.ParseTs(e.Key)
			if len(pend) > 0 && pendTs != ts {
				break loop
			}
			pendTs = ts
			pend = append(pend, i)
		} else if e.meta&bitFinTxn != 0 {
			ok, v := vpRefParseDec(e.Value)
			if len(pend) == 0 || !ok || v != pendTs {
				break loop
			}
			want = append(want, pend...)
			pend = nil
			validEnd = g.off + g.ln
			vpCover("waliter.txn-delivered")
		} else {
			if len(pend) > 0 {
				break loop
			}
			want = append(want, i)
			validEnd = g.off + g.ln
			vpCover("waliter.plain-delivered")
		}
	}
	return want, validEnd, otherErr, len(pend) > 0
}

// H-WALITER (a), record level: the REAL logFile.iterate loop (transaction grouping, validEndOffset)
// over an arbitrary result sequence of the stubbed (*safeRead).Entry; in mode 1 the REAL
// memTable.UpdateSkipList + replayFunction drive it (Skiplist.Put and logFile.Truncate stubbed
// to recorders).
func VpHWalIter() {
	maxRes := vpParam("waliter.results", 4)
	fid := vpU32("fid")
	lf := &logFile{MmapFile: &z.MmapFile{Data: make([]byte, 32)}, fid: fid, path: "vp.mem"}
	mode := vpChoose("mode", 2)
	if mode == 1 {
		// the replay path forks additionally on every maxVersion comparison, on ReadOnly and on
		// the size comparison: its own (smaller) bound
		maxRes = vpParam("waliter.replay", 2)
	}
	gen := vpWalStub(maxRes, mode == 0)
	var got []vpGot

	if mode == 0 {
		end, err := lf.iterate(true, 0, func(e Entry, vp valuePointer) error {
			got = append(got, vpGot{idx: int(e.UserMeta), e: e, vp: vp})
			return nil
		})
		want, validEnd, otherErr, open := vpWalReference(*gen)
		if otherErr {
			vpCover("waliter.other-error")
			vpAssert(err != nil && end == 0, "C16:waliter.read-error-propagates")
		} else {
			vpAssert(err == nil, "C16,C09:waliter.damage-is-not-an-error")
			vpAssert(end == validEnd, "C16,C08,C09:waliter.valid-end-offset")
		}
		if open {
			vpCover("waliter.open-txn-dropped")
		}
		vpCheckDelivered(got, want, *gen, fid, true)
		return
	}

	// mode 1: UpdateSkipList -> iterate -> replayFunction -> Skiplist.Put ; then the truncate decision
	var truncated []int64
	vpStub("(*badger/skl.Skiplist).Put", func(s *skl.Skiplist, key []byte, v y.ValueStruct) {
		got = append(got, vpGot{idx: int(v.UserMeta), e: Entry{Key: key, Value: v.Value, meta: v.Meta, UserMeta: v.UserMeta, ExpiresAt: v.ExpiresAt}})
	})
	vpStub("(*badger.logFile).Truncate", func(l *logFile, end int64) error {
		truncated = append(truncated, end)
		return nil
	})
	size := vpU32("filesize")
	lf.size.Store(size)
	mt := &memTable{sl: &skl.Skiplist{}, wal: lf}
	mt.opt.ReadOnly = vpBool("readonly")
	err := mt.UpdateSkipList()
	want, validEnd, _, _ := vpWalReference(*gen)
	vpCheckDelivered(got, want, *gen, fid, false)
	// maxVersion = largest version among replayed entries
	var mx uint64
	for _, i := range want {
		ts := y.ParseTs((*gen)[i].e.Key)
		mx = vpIteU64(ts > mx, ts, mx)
	}
	vpAssert(mt.maxVersion == mx, "C08,C11:waliter.maxversion")
	if mt.opt.ReadOnly && validEnd < size {
		vpCover("waliter.readonly-truncate-needed")
		vpAssert(err != nil && len(truncated) == 0, "C09,C07:waliter.readonly-never-truncates")
		return
	}
	vpCover("waliter.truncate")
	vpAssert(err == nil && len(truncated) == 1, "C08,C09:waliter.truncate-once")
	if len(truncated) == 1 {
		vpAssert(truncated[0] == int64(validEnd), "C08,C09:waliter.truncate-at-last-complete-unit")
	}
}

func vpCheckDelivered(got []vpGot, want []int, gen []vpRes, fid uint32, withVp bool) {
	vpAssert(len(got) <= len(want), "C16,C08,C09:waliter.nothing-partial-or-after-damage")
	vpAssert(len(got) >= len(want), "C16,C08:waliter.complete-units-all-delivered")
	for k := 0; k < len(got) && k < len(want); k++ {
		g := gen[want[k]]
		vpAssert(got[k].idx == want[k], "C16,C08:waliter.order")
		vpAssert(vpAnd(bytes.Equal(got[k].e.Key, g.e.Key), vpAnd(bytes.Equal(got[k].e.Value, g.e.Value),
			vpAnd(got[k].e.meta == g.e.meta, got[k].e.ExpiresAt == g.e.ExpiresAt))), "C16:waliter.entry-content")
		if withVp {
			vpAssert(vpAnd(got[k].vp.Fid == fid, vpAnd(got[k].vp.Offset == g.off, got[k].vp.Len == g.ln)), "C16,C06:waliter.vptr")
		}
	}
}

package badger

import (
	"bytes"

	"github.com/dgraph-io/badger/v4/skl"
	"github.com/dgraph-io/badger/v4/y"
	"github.com/dgraph-io/ristretto/v2/z"
)

// H-PENDING (second part): several iterators in the life of ONE read-write transaction, with
// writes between them. C04: "any iterator created after a Set, SetEntry or Delete reflects that
// pending write" — in particular a write that REPLACES an already pending key (same number of
// pending keys) or deletes it, after an earlier iterator of the same direction has been used.
// Real: Txn.Set/Delete/modify, Txn.NewIterator, newPendingWritesIterator, pendingWritesIterator.*,
// table.NewMergeIterator, Iterator.Rewind/Next/Valid/Item/Close. The snapshot below the pending
// writes is empty (Skiplist.NewUniIterator hands out an empty list iterator; no levels).
func VpHPendingReiter() {
	nk := 1 + vpChoose("keys", 2)
	ukeys := make([][]byte, nk)
	for k := range ukeys {
		ukeys[k] = vpBytes("ukey", 1)
		if k > 0 {
			vpAssume(bytes.Compare(ukeys[k-1], ukeys[k]) < 0)
		}
	}
	readTs := vpU64("readTs")
	vpAssume(vpAnd(readTs >= 1, readTs < 1<<63))

	db := &DB{}
	db.opt.NamespaceOffset = -1
	db.opt.ValueLogFileSize = 1 << 20
	db.opt.maxBatchCount = 1000
	db.opt.maxBatchSize = 1 << 20
	db.threshold = &vlogThreshold{}
	db.threshold.valueThreshold.Store(1 << 10)
	sl := &skl.Skiplist{}
	sl.IncrRef()
	db.mt = &memTable{sl: sl}
	db.lc = &levelsController{kv: db}
	txn := &Txn{readTs: readTs, db: db, update: true, pendingWrites: map[string]*Entry{}, conflictKeys: map[uint64]struct{}{}}

	vpStub("(*badger/skl.Skiplist).NewUniIterator", func(s *skl.Skiplist, reversed bool) *skl.UniIterator { return &skl.UniIterator{} })
	vpStub("(*badger/skl.UniIterator).Next", func(u *skl.UniIterator) {})
	vpStub("(*badger/skl.UniIterator).Rewind", func(u *skl.UniIterator) {})
	vpStub("(*badger/skl.UniIterator).Seek", func(u *skl.UniIterator, key []byte) {})
	vpStub("(*badger/skl.UniIterator).Key", func(u *skl.UniIterator) []byte { return nil })
	vpStub("(*badger/skl.UniIterator).Value", func(u *skl.UniIterator) y.ValueStruct { return y.ValueStruct{} })
	vpStub("(*badger/skl.UniIterator).Valid", func(u *skl.UniIterator) bool { return false })
	vpStub("(*badger/skl.UniIterator).Close", func(u *skl.UniIterator) error { return nil })

	// model: per key, present? value byte, user meta
	type cell struct {
		set     bool
		deleted bool
		val     byte
		umeta   byte
	}
	model := make([]cell, nk)
	write := func(k int) {
		if vpChoose("kind", 2) == 0 {
			v, um := vpU8("val"), vpU8("umeta")
			err := txn.SetEntry(NewEntry(ukeys[k], []byte{v}).WithMeta(um))
			vpAssert(err == nil, "C04:reiter.write-accepted")
			model[k] = cell{set: true, val: v, umeta: um}
		} else {
			vpAssert(txn.Delete(ukeys[k]) == nil, "C04:reiter.write-accepted")
			model[k] = cell{set: true, deleted: true}
		}
	}
	scan := func(reverse bool, id string) {
		it := txn.NewIterator(IteratorOptions{Reverse: reverse})
		it.Rewind()
		got := 0
		order := make([]int, 0, nk)
		for j := 0; j < nk; j++ {
			k := j
			if reverse {
				k = nk - 1 - j
			}
			if model[k].set && !model[k].deleted {
				order = append(order, k)
			}
		}
		for ; it.Valid() && got <= nk; it.Next() {
			item := it.Item()
			if got < len(order) {
				k := order[got]
				ok := vpAnd(bytes.Equal(item.key, ukeys[k]), vpAnd(item.userMeta == model[k].umeta,
					vpAnd(len(item.vptr) == 1, item.vptr[0] == model[k].val)))
				vpAssert(ok, id)
			}
			got++
		}
		vpAssert(got == len(order), id)
		it.Close()
	}

	// first round: every key written once, then an iterator in one direction is used
	for k := 0; k < nk; k++ {
		write(k)
	}
	reverse := vpChoose("reverse", 2) == 1
	scan(reverse, "C04,C01:reiter.first-iterator-is-overlay")
	// second round: a write that replaces or deletes an already pending key (the number of pending
	// keys does not change), then a NEW iterator of the same or the other direction
	write(vpChoose("rewrite-key", nk))
	vpCover("reiter.rewrite")
	if vpChoose("same-direction", 2) == 0 {
		reverse = !reverse
	}
	scan(reverse, "C04,C01:reiter.later-iterator-reflects-later-write")
	// third round: once more
	if vpChoose("third", 2) == 1 {
		write(vpChoose("rewrite-key", nk))
		scan(reverse, "C04,C01:reiter.later-iterator-reflects-later-write")
		vpCover("reiter.third")
	}
}

// H-READTRACK (C02): every read of database state through an iterator is recorded for conflict
// detection — also for a key the transaction itself has written AFTER the iterator was created
// (the iterator took its copy of the pending writes at creation, so what it returns for that key is
// the state of the database, not the pending write). Real: Txn.SetEntry/modify (conflictKeys),
// Txn.NewIterator, Iterator.Seek -> Txn.addReadKey.
func VpHReadTracking() {
	k := vpBytes("key", 1+vpChoose("klen", 2))
	other := vpBytes("other", 1)
	db := &DB{}
	db.opt.NamespaceOffset = -1
	db.opt.ValueLogFileSize = 1 << 20
	db.opt.maxBatchCount = 1000
	db.opt.maxBatchSize = 1 << 20
	db.opt.DetectConflicts = true
	db.threshold = &vlogThreshold{}
	db.threshold.valueThreshold.Store(1 << 10)
	sl := &skl.Skiplist{}
	sl.IncrRef()
	db.mt = &memTable{sl: sl}
	db.lc = &levelsController{kv: db}
	txn := &Txn{readTs: 10, db: db, update: true, pendingWrites: map[string]*Entry{}, conflictKeys: map[uint64]struct{}{}}
	vpStub("(*badger/skl.Skiplist).NewUniIterator", func(s *skl.Skiplist, reversed bool) *skl.UniIterator { return &skl.UniIterator{} })
	vpStub("(*badger/skl.UniIterator).Next", func(u *skl.UniIterator) {})
	vpStub("(*badger/skl.UniIterator).Rewind", func(u *skl.UniIterator) {})
	vpStub("(*badger/skl.UniIterator).Seek", func(u *skl.UniIterator, key []byte) {})
	vpStub("(*badger/skl.UniIterator).Key", func(u *skl.UniIterator) []byte { return nil })
	vpStub("(*badger/skl.UniIterator).Value", func(u *skl.UniIterator) y.ValueStruct { return y.ValueStruct{} })
	vpStub("(*badger/skl.UniIterator).Valid", func(u *skl.UniIterator) bool { return false })
	vpStub("(*badger/skl.UniIterator).Close", func(u *skl.UniIterator) error { return nil })

	recorded := func(key []byte) bool {
		fp := z.MemHash(key)
		has := false
		for _, r := range txn.reads {
			has = vpOr(has, r == fp)
		}
		return has
	}
	// what the transaction wrote before the iterator exists: nothing, the key itself, another key
	switch vpChoose("written-before", 3) {
	case 1:
		vpAssert(txn.SetEntry(NewEntry(k, []byte{1})) == nil, "C02:readtrack.write-accepted")
	case 2:
		vpAssert(txn.SetEntry(NewEntry(other, []byte{1})) == nil, "C02:readtrack.write-accepted")
	}
	it := txn.NewIterator(IteratorOptions{Reverse: vpChoose("reverse", 2) == 1})
	// ... and after it was created
	if vpChoose("written-after", 2) == 1 {
		vpAssert(txn.SetEntry(NewEntry(k, []byte{2})) == nil, "C02:readtrack.write-accepted")
		vpCover("readtrack.written-after-iterator")
	}
	it.Seek(k)
	vpAssert(recorded(k), "C02:readtrack.seek-key-recorded")
	it.Close()
}

package badger

import (
	"bytes"
	"errors"
	"strconv"

	"github.com/dgraph-io/badger/v4/y"
	"github.com/dgraph-io/ristretto/v2/z"
)

// H-COMMIT: the REAL Txn.Commit / CommitWith / CommitAt -> commitPrecheck -> commitAndSend ->
// oracle.newCommitTs (hasConflict, doneRead, cleanupCommittedTransactions) -> DB.sendToWriteCh ->
// request.Wait -> oracle.doneCommit -> Txn.Discard, runTxnCallback in its own goroutine, over the
// REAL oracle with its two REAL WaterMark goroutines, REAL newTransaction / oracle.readTs.
//
// The harness plays DB.doWrites: db.writeCh is an UNBUFFERED channel, a harness goroutine receives
// each request at the moment sendToWriteCh sends it (so the state of orc.writeChLock observed by
// the receiver is its state during the send), lets every other goroutine run until it blocks
// (the committer reaches request.Wait), optionally fails the request (req.Err) and acknowledges it
// (req.Wg.Done()).
//
// Observation-only wrappers (vpStub closures that record/assert and then call the real function):
// oracle.newCommitTs (writeChLock must be held on entry), oracle.doneCommit (the request carrying
// that commit ts must have been acknowledged), y.WaterMark.Begin / Done (balance per index).
//
// Scenarios (vpChoose "mode"): 0 normal mode, 1..2 update transactions started at the same
// snapshot, the second may have read a key the first writes; 1 the same in managed mode with
// caller-chosen read and commit timestamps; 2 managed mode, one transaction whose entries carry a
// symbolic Entry.version (0 = none); 3 commits that must not reach the channel (empty, read-only,
// discarded, managed without commit ts). Bounds via vpParam: commit.writesA (2), commit.writesB (1),
// commit.apis (0: the two commits use different APIs, 1: independent), commit.collisions (0: the
// two keys' z.MemHash fingerprints differ), commit.widets (0: 4-digit timestamps).

var vpTcErrWrite = errors.New("vp: the write of this request failed")

const vpTcUserMetaBits = bitDelete | bitDiscardEarlierVersions | bitMergeEntry

type vpTcWrite struct {
	key   []byte // user key (the harness's own copy)
	ver   uint64 // explicit per-entry version (managed mode), 0 = none
	val   []byte
	meta  byte
	umeta byte
}

type vpTcReq struct {
	entries  []*Entry
	ts       uint64 // version of the last entry (the commit ts when it is the end marker)
	lockHeld bool
	acked    bool
	failed   bool
}

type vpTcNew struct {
	txn      *Txn
	ts       uint64
	conflict bool
}

type vpTcMark struct {
	wm   *y.WaterMark
	idx  uint64
	done bool
}

type vpTcWorld struct {
	db         *DB
	managed    bool
	ts0        uint64
	reqs       []*vpTcReq
	ncts       []vpTcNew
	dones      []uint64
	marks      []vpTcMark
	failBudget int // how many requests the receiver may still fail
}

func vpTcSettle() {
	for i := 0; i < 4; i++ {
		vpYield()
	}
}

// vpTcSetup builds the DB fragment the commit path touches, the way Open does for the oracle.
func vpTcSetup(managed bool, wideTs bool) *vpTcWorld {
	w := &vpTcWorld{managed: managed}
	db := &DB{}
	db.opt.maxBatchSize = 1 << 30
	db.opt.maxBatchCount = 1 << 20
	db.opt.ValueLogFileSize = 1 << 30
	db.opt.NamespaceOffset = -1
	db.opt.DetectConflicts = true
	db.opt.managedTxns = managed
	db.threshold = &vlogThreshold{}
	db.threshold.valueThreshold.Store(1 << 20)
	db.orc = newOracle(db.opt)
	ts0 := vpU64("ts0")
	if wideTs {
		vpAssume(ts0 < 1<<40)
	} else {
		// four decimal digits for every timestamp derived from ts0 (the end marker stores the
		// decimal commit ts; strconv.FormatUint forks per digit count)
		vpAssume(vpAnd(ts0 >= 1000, ts0 < 9000))
	}
	w.ts0 = ts0
	db.orc.nextTxnTs = ts0
	db.orc.txnMark.Done(ts0)
	db.orc.readMark.Done(ts0)
	db.orc.incrementNextTs()
	vpTcSettle()
	db.writeCh = make(chan *request)
	w.db = db

	vpStub("(*badger.oracle).newCommitTs", func(o *oracle, txn *Txn) (uint64, bool) {
		held := !o.writeChLock.TryLock()
		vpAssert(held, "C03:commit.writechlock-held-before-newcommitts")
		ts, conflict := o.newCommitTs(txn)
		w.ncts = append(w.ncts, vpTcNew{txn, ts, conflict})
		return ts, conflict
	})
	vpStub("(*badger.oracle).doneCommit", func(o *oracle, cts uint64) {
		if !o.isManaged { // managed mode: doneCommit does nothing, its position is irrelevant
			for _, r := range w.reqs {
				// the request that carries this commit ts (its end marker) must have been acknowledged
				vpAssert(vpImplies(r.ts == cts, r.acked), "C03:commit.donecommit-only-after-request-acknowledged")
			}
		}
		w.dones = append(w.dones, cts)
		o.doneCommit(cts)
	})
	vpStub("(*badger/y.WaterMark).Begin", func(wm *y.WaterMark, idx uint64) {
		w.marks = append(w.marks, vpTcMark{wm, idx, false})
		wm.Begin(idx)
	})
	vpStub("(*badger/y.WaterMark).Done", func(wm *y.WaterMark, idx uint64) {
		w.marks = append(w.marks, vpTcMark{wm, idx, true})
		wm.Done(idx)
	})

	// the harness as DB.doWrites
	go func() {
		for {
			req := <-db.writeCh
			r := &vpTcReq{entries: append([]*Entry(nil), req.Entries...)}
			r.ts = y.ParseTs(req.Entries[len(req.Entries)-1].Key)
			r.lockHeld = !db.orc.writeChLock.TryLock()
			w.reqs = append(w.reqs, r)
			vpAssert(r.lockHeld, "C03:commit.writechlock-held-during-send")
			vpTcSettle() // the committer runs on until it blocks in request.Wait
			if w.failBudget > 0 && vpChoose("request-fails", 2) == 1 {
				w.failBudget--
				req.Err = vpTcErrWrite
				r.failed = true
			}
			r.acked = true
			req.Wg.Done()
		}
	}()
	return w
}

// marksBalanced: every Begin(idx) on a watermark has exactly one Done(idx) (counted per index).
func (w *vpTcWorld) marksBalanced() bool {
	ok := true
	for _, a := range w.marks {
		nb, nd := 0, 0
		for _, b := range w.marks {
			same := vpAnd(a.wm == b.wm, a.idx == b.idx)
			if b.done {
				nd += vpIteInt(same, 1, 0)
			} else {
				nb += vpIteInt(same, 1, 0)
			}
		}
		ok = vpAnd(ok, nb == nd)
	}
	return ok
}

type vpTcTxn struct {
	txn    *Txn
	writes []vpTcWrite
	readTs uint64
	reads  []int // indices of keys read
	// outcome
	gotTs    bool
	cts      uint64
	conflict bool
	err      error
}

// checkRequest: framing and content of the request that carries the writes of t at commit
// timestamp cts. Content oracle (independent of how the transaction stores its writes): applying
// the entries in slice order leaves, for every (user key, effective version) the transaction wrote,
// the LAST write issued to it; every entry is one of the transaction's writes; entries without an
// explicit version carry cts, the others their own version.
func (w *vpTcWorld) checkRequest(r *vpTcReq, t *vpTcTxn, cts uint64) {
	keep := true
	for _, x := range t.writes {
		if x.ver != 0 {
			keep = false
		}
	}
	n := len(r.entries)
	if keep {
		vpCover("commit.with-end-marker")
		vpAssert(n >= 2, "C03:commit.marker-last")
		if n < 2 {
			return
		}
		n--
		last := r.entries[n]
		vpAssert(last.meta == bitFinTxn, "C03:commit.marker-last")
		vpAssert(bytes.Equal(last.Key, y.KeyWithTs(txnKey, cts)), "C03:commit.marker-key-is-txnkey-plus-commit-ts")
		vpAssert(bytes.Equal(last.Value, []byte(strconv.FormatUint(cts, 10))), "C03:commit.marker-value-is-decimal-commit-ts")
	} else {
		vpCover("commit.per-entry-versions-no-marker")
	}
	vpAssert(n >= 1 && n <= len(t.writes), "C03,C36:commit.request-is-the-pending-writes-plus-marker")
	nw := len(t.writes)
	effver := make([]uint64, nw)
	ikeys := make([][]byte, nw)
	for i, x := range t.writes {
		effver[i] = x.ver
		if x.ver == 0 {
			effver[i] = cts
		}
		ikeys[i] = y.KeyWithTs(x.key, effver[i])
	}
	same := func(i, j int) bool {
		x, e := t.writes[i], r.entries[j]
		return vpAnd(bytes.Equal(e.Key, ikeys[i]), vpAnd(bytes.Equal(e.Value, x.val), vpAnd(e.meta&^bitTxn == x.meta, e.UserMeta == x.umeta)))
	}
	for i := range t.writes {
		lastWrite := true
		for j := i + 1; j < nw; j++ {
			if bytes.Equal(t.writes[j].key, t.writes[i].key) {
				lastWrite = vpAnd(lastWrite, effver[j] != effver[i])
			}
		}
		ex := false
		for j := 0; j < n; j++ {
			lastEntry := true
			for k := j + 1; k < n; k++ {
				lastEntry = vpAnd(lastEntry, vpNot(bytes.Equal(r.entries[k].Key, r.entries[j].Key)))
			}
			ex = vpOr(ex, vpAnd(lastEntry, same(i, j)))
		}
		vpAssert(vpImplies(lastWrite, ex), "C03,C36:commit.entry-key-is-user-key-plus-commit-ts-or-own-version")
	}
	for j := 0; j < n; j++ {
		ex := false
		for i := range t.writes {
			ex = vpOr(ex, same(i, j))
		}
		vpAssert(ex, "C03:commit.every-entry-is-a-write-of-the-txn")
		e := r.entries[j]
		if keep {
			vpAssert(e.meta&(bitTxn|bitFinTxn) == bitTxn, "C03:commit.every-entry-has-bittxn")
		} else {
			vpAssert(e.meta&(bitTxn|bitFinTxn) == 0, "C36:commit.no-txn-bits-with-per-entry-versions")
		}
	}
}

// commit runs one real Commit / CommitWith / CommitAt and returns the error the caller sees.
func (w *vpTcWorld) commit(t *vpTcTxn, useCb bool, cts uint64) error {
	if !useCb {
		if w.managed {
			return t.txn.CommitAt(cts, nil)
		}
		return t.txn.Commit()
	}
	vpCover("commit.commitwith")
	done := make(chan error, 2)
	cb := func(err error) {
		for _, r := range w.reqs {
			vpAssert(r.acked, "C03:commit.callback-only-after-request-acknowledged")
		}
		done <- err
	}
	if w.managed {
		vpAssert(t.txn.CommitAt(cts, cb) == nil, "C03:commit.commitat-with-callback-returns-nil")
	} else {
		t.txn.CommitWith(cb)
	}
	err := <-done
	vpTcSettle()
	vpAssert(len(done) == 0, "C03:commit.callback-runs-once")
	return err
}

func VpHCommit() {
	vpConfig("maporder", 1)
	vpPanicID("C03:commit.no-panic")
	keys := [][]byte{[]byte("a"), []byte("bc")}
	// 0: normal mode, two update transactions; 1: managed mode, two update transactions at
	// caller-chosen read/commit timestamps; 2: managed mode, one transaction whose entries may carry
	// their own version (Entry.version, what WriteBatch.SetEntryAt sets); 3: commits that must not send
	mode := vpChoose("mode", 4)
	if mode == 3 {
		vpTcDegenerate(keys)
		return
	}
	managed := mode != 0
	wide := vpParam("commit.widets", 0) == 1
	w := vpTcSetup(managed, wide)
	db := w.db
	w.failBudget = 2
	injective := vpParam("commit.collisions", 0) == 0
	if injective {
		vpAssume(z.MemHash(keys[0]) != z.MemHash(keys[1]))
	}
	maxW := []int{vpParam("commit.writesA", 2), vpParam("commit.writesB", 1)}
	nT := 1
	if mode != 2 {
		nT += vpChoose("txns", 2)
	}
	txns := make([]*vpTcTxn, nT)
	// both transactions start before either commits
	for i := range txns {
		t := &vpTcTxn{}
		if managed {
			t.readTs = vpU64("readTs")
			t.txn = db.NewTransactionAt(t.readTs, true)
		} else {
			t.txn = db.NewTransaction(true)
			t.readTs = t.txn.readTs
			vpAssert(t.readTs == w.ts0, "C03:commit.snapshot-is-last-committed-ts")
		}
		txns[i] = t
	}
	for i, t := range txns {
		nw := 1 + vpChoose("writes", maxW[i])
		for j := 0; j < nw; j++ {
			wr := vpTcWrite{key: keys[vpChoose("key", 2)], val: vpBytes("val", 1), umeta: vpU8("usermeta")}
			wr.meta = vpU8("meta") & vpTcUserMetaBits
			if mode == 2 {
				wr.ver = vpU64("version") // 0 = no explicit version
			}
			e := &Entry{Key: y.Copy(wr.key), Value: y.Copy(wr.val), UserMeta: wr.umeta, meta: wr.meta}
			e.version = wr.ver // what WriteBatch.SetEntryAt does in managed mode
			vpAssert(t.txn.SetEntry(e) == nil, "C03:commit.write-accepted")
			t.writes = append(t.writes, wr)
		}
		if i == 1 {
			// the second transaction may have read a key (Txn.Get / iterators record reads with addReadKey)
			if r := vpChoose("read", 3); r > 0 {
				t.txn.addReadKey(keys[r-1])
				t.reads = append(t.reads, r-1)
			}
		}
	}

	apiA := vpChoose("api", 2)
	for i, t := range txns {
		// the two commits use different APIs unless commit.apis=1 (then each chooses)
		useCb := (apiA+i)%2 == 1
		if i > 0 && vpParam("commit.apis", 0) == 1 {
			useCb = vpChoose("api", 2) == 1
		}
		blocked := vpChoose("writes-blocked", 2) == 1
		var cts uint64
		if managed {
			cts = vpU64("commitTs")
			if !wide {
				// the marker value is the decimal ts: one digit count (strconv.FormatUint forks per count)
				vpAssume(vpAnd(cts >= 1000, cts < 10000))
			} else {
				vpAssume(cts >= 1)
			}
		}
		if blocked {
			db.blockWrites.Store(1)
		}
		nReq, nNew, nDone := len(w.reqs), len(w.ncts), len(w.dones)
		err := w.commit(t, useCb, cts)
		db.blockWrites.Store(0)
		t.err = err

		// --- conflict detection
		vpAssert(len(w.ncts) == nNew+1 && w.ncts[nNew].txn == t.txn, "C03:commit.one-newcommitts-per-commit")
		nc := w.ncts[nNew]
		t.conflict = nc.conflict
		expectConflict := false
		if i == 1 {
			a := txns[0]
			if a.gotTs {
				hit := false
				for _, r := range t.reads {
					for _, wr := range a.writes {
						if bytes.Equal(keys[r], wr.key) {
							hit = true
						}
					}
				}
				if hit {
					expectConflict = vpOr(expectConflict, a.cts > t.readTs)
				}
			}
		}
		vpAssert(vpImplies(expectConflict, nc.conflict), "C02:commit.read-key-committed-since-start-is-a-conflict")
		if injective {
			vpAssert(vpImplies(nc.conflict, expectConflict), "C02:commit.no-conflict-without-overlap")
		}
		if nc.conflict {
			vpCover("commit.conflict")
			vpAssert(err == ErrConflict, "C02:commit.conflict-returns-errconflict")
			vpAssert(len(w.reqs) == nReq, "C02,C03:commit.conflict-nothing-sent")
			vpAssert(len(w.dones) == nDone, "C03:commit.conflict-no-donecommit")
			vpAssert(t.txn.discarded, "C03:commit.txn-discarded-after-commit")
			continue
		}
		vpAssert(err != ErrConflict, "C02:commit.errconflict-only-on-conflict")

		// --- a commit timestamp was assigned
		t.gotTs = true
		t.cts = nc.ts
		if managed {
			vpAssert(nc.ts == cts, "C36:commit.managed-uses-callers-commit-ts")
		} else {
			vpAssert(nc.ts > t.readTs, "C03:commit.ts-above-snapshot")
			for _, o := range txns[:i] {
				if o.gotTs {
					vpCover("commit.two-timestamps")
					vpAssert(nc.ts > o.cts, "C03:commit.ts-distinct-and-increasing-in-issue-order")
				}
			}
		}
		vpAssert(len(w.dones) == nDone+1 && w.dones[nDone] == nc.ts, "C03:commit.donecommit-exactly-once-with-commit-ts")
		vpAssert(t.txn.discarded, "C03:commit.txn-discarded-after-commit")
		if blocked {
			vpCover("commit.send-error")
			vpAssert(err == ErrBlockedWrites, "C03:commit.send-error-returned")
			vpAssert(len(w.reqs) == nReq, "C03:commit.send-error-nothing-sent")
			continue
		}
		vpAssert(len(w.reqs) == nReq+1, "C03:commit.exactly-one-request")
		r := w.reqs[nReq]
		vpAssert(r.acked, "C03:commit.returns-only-after-request-acknowledged")
		if r.failed {
			vpCover("commit.request-failed")
			vpAssert(err == vpTcErrWrite, "C03:commit.request-error-returned")
		} else {
			vpCover("commit.ok")
			vpAssert(err == nil, "C03:commit.success-returns-nil")
		}
		w.checkRequest(r, t, nc.ts)
	}

	// Discard after Commit (the usual `defer txn.Discard()`) must not mark the read done twice
	for _, t := range txns {
		t.txn.Discard()
	}
	vpTcSettle()
	vpAssert(w.marksBalanced(), "C03,C34:commit.every-watermark-begin-has-exactly-one-done")
	if !managed {
		// a transaction started now sees every commit that returned nil (and is not blocked by
		// one that failed): its snapshot is at or above all assigned commit timestamps
		c := db.NewTransaction(false)
		for _, t := range txns {
			if t.gotTs {
				vpAssert(c.readTs >= t.cts, "C03:commit.later-txn-snapshot-includes-commit")
			}
		}
		vpAssert(db.orc.txnMark.DoneUntil() == c.readTs, "C03,C34:commit.txnmark-caught-up")
		c.Discard()
		vpTcSettle()
		vpAssert(db.orc.readMark.DoneUntil() == c.readTs, "C03,C34:commit.readmark-caught-up")
		vpCover("commit.later-reader")
	}
}

// vpTcDegenerate: commits that must not reach the write channel at all.
func vpTcDegenerate(keys [][]byte) {
	kind := vpChoose("degenerate", 4)
	managed := kind == 3
	w := vpTcSetup(managed, false)
	db := w.db
	useCb := vpChoose("api", 2) == 1
	t := &vpTcTxn{}
	switch kind {
	case 0: // update transaction without writes
		t.txn = db.NewTransaction(true)
		err := w.commit(t, useCb, 0)
		vpAssert(err == nil, "C03:commit.empty-txn-commit-returns-nil")
		vpCover("commit.empty")
	case 1: // read-only transaction
		t.txn = db.NewTransaction(false)
		vpAssert(t.txn.Set(keys[0], []byte("v")) == ErrReadOnlyTxn, "C03:commit.readonly-txn-rejects-writes")
		err := w.commit(t, useCb, 0)
		vpAssert(err == nil, "C03:commit.readonly-txn-commit-returns-nil")
		vpCover("commit.readonly")
	case 2: // discarded transaction with a pending write
		t.txn = db.NewTransaction(true)
		vpAssert(t.txn.Delete(keys[1]) == nil, "C03:commit.write-accepted")
		t.txn.Discard()
		err := w.commit(t, useCb, 0)
		vpAssert(err != nil && err.Error() == "Trying to commit a discarded txn", "C03:commit.discarded-txn-commit-is-an-error")
		vpCover("commit.discarded")
	case 3: // managed mode: Commit instead of CommitAt
		t.txn = db.NewTransactionAt(vpU64("readTs"), true)
		vpAssert(t.txn.Set(keys[0], []byte("v")) == nil, "C03:commit.write-accepted")
		var err error
		if useCb {
			done := make(chan error, 2)
			t.txn.CommitWith(func(e error) { done <- e })
			err = <-done
		} else {
			err = t.txn.Commit()
		}
		vpAssert(err != nil, "C36:commit.zero-commit-ts-with-markers-rejected")
		vpAssert(!t.txn.discarded, "C36:commit.precheck-error-leaves-txn-usable")
		vpCover("commit.managed-commit-without-ts")
	}
	vpAssert(len(w.reqs) == 0 && len(w.ncts) == 0 && len(w.dones) == 0, "C03:commit.nothing-sent-without-writes-or-after-discard")
	t.txn.Discard()
	t.txn.Discard()
	vpTcSettle()
	vpAssert(w.marksBalanced(), "C03,C34:commit.every-watermark-begin-has-exactly-one-done")
	if !managed {
		vpAssert(len(w.marks) == 2, "C03,C34:commit.one-read-mark-begin-and-done")
	}
}

package badger

import (
	"errors"
	"os"
	"path/filepath"

	"github.com/dgraph-io/badger/v4/skl"
	"github.com/dgraph-io/ristretto/v2/z"
)

// H-FLOCK (C35): badger's use of the directory lock against a MODEL of BSD flock(2).
//
// Real: acquireDirectoryLock, (*directoryLockGuard).release, syncDir/openDir (dir_unix.go), and
// the real Open / DB.Close / DB.close as the callers of those: checkAndSetOptions, createDirs /
// exists, the Dir and ValueDir acquisition block of Open with its two deferred releases, the
// hand-over of the guards into the DB, the release block of DB.close, DB.syncDir. Also real (cheap,
// nothing to do with locks): newOracle, newPublisher, DB.MaxVersion, oracle.incrementNextTs,
// valueLog.Close (no files), levelsController.close (no levels).
//
// Stubbed - every other callee of Open and close (they are the subject of C07/C08/C17, not of
// C35): openOrCreateManifestFile (returns an empty manifest, or - injected - an error: "Open fails
// AFTER the locks were taken"), manifestFile.close, OpenKeyRegistry, KeyRegistry.Close,
// DB.openMemTables, DB.newMemTable (an empty memtable), newLevelsController (no levels),
// valueLog.init / open, DB.LevelsToString, vlogThreshold.close, the goroutine bodies Open starts
// (vpFOpenStubs), z.Closer.Signal / SignalAndWait / Wait (nothing is running),
// skl.Skiplist.Empty / DecrRef.
//
// TRUSTED BASE = the model of the operating system below, written from flock(2) / open(2) /
// close(2) as documented for Linux and the BSDs; whether a real kernel (NFS, some FUSE file systems)
// behaves like it is outside the claim:
//   os.Open(dir)        a NEW open file description on the directory (no lock); may fail (injected).
//   (*os.File).Fd       the descriptor number of that description.
//   unix.Flock(fd, how) locks belong to the open file DESCRIPTION, not to the process: two
//                       descriptions of the same directory conflict, in one process or in two.
//                       LOCK_SH is granted unless another description holds LOCK_EX; LOCK_EX is
//                       granted unless another description holds any lock; a conflicting request
//                       returns EWOULDBLOCK with LOCK_NB and BLOCKS without it (the model records
//                       "blocked" and then fails the call, a blocked Open being a violation of "the
//                       attempt fails"); neither LOCK_SH nor LOCK_EX nor LOCK_UN -> EINVAL; unknown
//                       or closed descriptor -> EBADF; may fail for another reason without taking
//                       the lock (injected, e.g. ENOLCK/EINTR).
//   (*os.File).Close    closing the description releases its lock (no dup()/fork() in badger's
//                       use: one descriptor per description); the descriptor is gone even if
//                       close reports an error (injected).
//   os.WriteFile / os.Remove of the pid file: a plain map {path -> pid}; may fail (injected).
//   os.Getpid           100 + number of the instance acting (instances may be separate processes
//                       or live in one process - the lock model does not distinguish).
//   os.Stat             both directories exist. (*os.File).Sync: no-op.
//
// Shape: `flock.inst` DB instances; layout 0: all on Dir = ValueDir; layout 1: all on one Dir and
// one separate ValueDir; layout 2: instance i on its own Dir (two of them) and one shared ValueDir.
// A sequence of `flock.steps` steps; each step picks an instance; a closed
// instance attempts Open (read-write or read-only, chosen per attempt), an open one is closed
// (DB.Close). At most `flock.faults` injected errors per path.
//
// quick:    flock.inst=3, flock.steps=3, flock.faults=1
// thorough: flock.inst=3, flock.steps=5, flock.faults=1

var vpLErrWouldBlock = errors.New("vp: EWOULDBLOCK (resource temporarily unavailable)")
var vpLErrInval = errors.New("vp: EINVAL")
var vpLErrBadf = errors.New("vp: EBADF")
var vpLErrInjected = errors.New("vp: injected error")

const (
	vpLLockSH = 1 // unix.LOCK_SH
	vpLLockEX = 2 // unix.LOCK_EX
	vpLLockNB = 4 // unix.LOCK_NB
	vpLLockUN = 8 // unix.LOCK_UN
)

type vpLDesc struct {
	fp     *os.File
	dir    string
	owner  int
	closed bool
	lock   int // 0 none, vpLLockSH, vpLLockEX
}

type vpLWorld struct {
	descs      []*vpLDesc
	pid        map[string]int // pid file -> pid written (absent: no file)
	actor      int
	actorRO    bool
	faults     int
	maxFaults  int
	faulted    bool // an error was injected during the current call
	blocked    bool
	bad        string
	pidWrites  int
	pidRemoves int
}

func (w *vpLWorld) fault(op string) bool {
	if w.faults >= w.maxFaults {
		return false
	}
	if vpBool("fault") {
		w.faults++
		w.faulted = true
		vpCover("flock.fault")
		vpEvent("FAULT " + op)
		return true
	}
	return false
}

func (w *vpLWorld) byFile(fp *os.File) *vpLDesc {
	for _, d := range w.descs {
		if d.fp == fp {
			return d
		}
	}
	return nil
}

// holds: instance `who` has an open description of dir with lock `kind`
func (w *vpLWorld) holds(who int, dir string, kind int) bool {
	for _, d := range w.descs {
		if !d.closed && d.owner == who && d.dir == dir && d.lock == kind {
			return true
		}
	}
	return false
}

func (w *vpLWorld) openDescs(who int) int {
	n := 0
	for _, d := range w.descs {
		if !d.closed && d.owner == who {
			n++
		}
	}
	return n
}

func (w *vpLWorld) locksOf(who int) int {
	n := 0
	for _, d := range w.descs {
		if !d.closed && d.owner == who && d.lock != 0 {
			n++
		}
	}
	return n
}

func vpLInstall(w *vpLWorld) {
	vpStub("os.Open", func(name string) (*os.File, error) {
		name = filepath.Clean(name)
		if w.fault("open " + name) {
			return nil, vpLErrInjected
		}
		fp := new(os.File)
		w.descs = append(w.descs, &vpLDesc{fp: fp, dir: name, owner: w.actor})
		vpEvent("open " + name)
		return fp, nil
	})
	vpStub("(*os.File).Fd", func(fp *os.File) uintptr {
		for i, d := range w.descs {
			if d.fp == fp {
				return uintptr(3 + i)
			}
		}
		return ^uintptr(0)
	})
	vpStub("golang.org/x/sys/unix.Flock", func(fd int, how int) error {
		i := fd - 3
		if i < 0 || i >= len(w.descs) || w.descs[i].closed {
			w.bad = "flock on a closed or unknown descriptor"
			return vpLErrBadf
		}
		d := w.descs[i]
		if how&vpLLockUN != 0 {
			d.lock = 0
			return nil
		}
		want := 0
		switch how &^ vpLLockNB {
		case vpLLockSH:
			want = vpLLockSH
		case vpLLockEX:
			want = vpLLockEX
		default:
			return vpLErrInval
		}
		if w.fault("flock " + d.dir) {
			return vpLErrInjected
		}
		conflict := false
		for _, o := range w.descs {
			if o == d || o.closed || o.dir != d.dir {
				continue
			}
			if o.lock == vpLLockEX || (o.lock == vpLLockSH && want == vpLLockEX) {
				conflict = true
			}
		}
		if conflict {
			if how&vpLLockNB == 0 {
				// the real call would sleep until the holder lets go
				w.blocked = true
				vpEvent("flock " + d.dir + ": BLOCKS")
			}
			vpEvent("flock " + d.dir + ": EWOULDBLOCK")
			return vpLErrWouldBlock
		}
		d.lock = want
		if want == vpLLockEX {
			vpEvent("flock " + d.dir + ": exclusive")
		} else {
			vpEvent("flock " + d.dir + ": shared")
		}
		return nil
	})
	vpStub("(*os.File).Close", func(fp *os.File) error {
		d := w.byFile(fp)
		if d == nil || d.closed {
			w.bad = "close of a closed or unknown file"
			return vpLErrBadf
		}
		d.closed, d.lock = true, 0 // the description is gone, and its lock with it, whatever close reports
		vpEvent("close " + d.dir)
		if w.fault("close " + d.dir) {
			return vpLErrInjected
		}
		return nil
	})
	vpStub("(*os.File).Sync", func(fp *os.File) error { return nil })
	vpStub("os.Stat", func(name string) (os.FileInfo, error) {
		return vpFInfo{filepath.Base(name), 0, true}, nil
	})
	vpStub("os.Getpid", func() int { return 100 + w.actor })
	vpStub("os.WriteFile", func(name string, data []byte, perm os.FileMode) error {
		name = filepath.Clean(name)
		// the pid file is (over)written only by the instance that holds the exclusive lock on its
		// directory: the lock comes first, and a read-only open or a loser never writes it
		vpAssert(w.holds(w.actor, filepath.Dir(name), vpLLockEX) && !w.actorRO,
			"C35:flock.pidfile-written-only-under-exclusive-lock")
		vpAssert(filepath.Base(name) == lockFile, "C35:flock.only-the-pid-file-is-written")
		if w.fault("writefile " + name) {
			return vpLErrInjected
		}
		w.pid[name] = 100 + w.actor
		w.pidWrites++
		vpEvent("writefile " + name)
		return nil
	})
	vpStub("os.Remove", func(name string) error {
		name = filepath.Clean(name)
		// removed only by the holder of the exclusive lock (release removes the file BEFORE closing)
		vpAssert(w.holds(w.actor, filepath.Dir(name), vpLLockEX) && !w.actorRO,
			"C35:flock.pidfile-removed-only-under-exclusive-lock")
		if w.fault("remove " + name) {
			return vpLErrInjected
		}
		if _, ok := w.pid[name]; !ok {
			return vpFErrNotExist
		}
		delete(w.pid, name)
		w.pidRemoves++
		vpEvent("remove " + name)
		return nil
	})
}

// vpLOpenCloseStubs: every callee of Open / DB.close that has nothing to do with the lock
func vpLOpenCloseStubs(w *vpLWorld) {
	vpFOpenStubs(nil)
	vpStub("badger.openOrCreateManifestFile", func(opt Options) (*manifestFile, Manifest, error) {
		if w.fault("open MANIFEST") {
			return nil, Manifest{}, vpLErrInjected
		}
		return &manifestFile{}, Manifest{}, nil
	})
	vpStub("(*badger.manifestFile).close", func(mf *manifestFile) error { return nil })
	vpStub("badger.OpenKeyRegistry", func(opt KeyRegistryOptions) (*KeyRegistry, error) { return &KeyRegistry{}, nil })
	vpStub("(*badger.KeyRegistry).Close", func(kr *KeyRegistry) error { return nil })
	vpStub("(*badger.DB).openMemTables", func(db *DB, opt Options) error { return nil })
	vpStub("(*badger.DB).newMemTable", func(db *DB) (*memTable, error) { return &memTable{sl: &skl.Skiplist{}}, nil })
	vpStub("(*badger/skl.Skiplist).Empty", func(s *skl.Skiplist) bool { return true })
	vpStub("(*badger/skl.Skiplist).DecrRef", func(s *skl.Skiplist) {})
	vpStub("badger.newLevelsController", func(db *DB, mf *Manifest) (*levelsController, error) {
		return &levelsController{kv: db}, nil
	})
	vpStub("(*badger.valueLog).init", func(v *valueLog, db *DB) {})
	vpStub("(*badger.valueLog).open", func(v *valueLog, db *DB) error { return nil })
	vpStub("(*badger.DB).LevelsToString", func(db *DB) string { return "" })
	vpStub("(*badger.vlogThreshold).close", func(v *vlogThreshold) {})
	vpStub("(*github.com/dgraph-io/ristretto/v2/z.Closer).SignalAndWait", func(c *z.Closer) {})
	vpStub("(*github.com/dgraph-io/ristretto/v2/z.Closer).Signal", func(c *z.Closer) {})
	vpStub("(*github.com/dgraph-io/ristretto/v2/z.Closer).Wait", func(c *z.Closer) {})
	vpStub("(*github.com/dgraph-io/ristretto/v2/z.AllocatorPool).Release", func(p *z.AllocatorPool) {})
}

const (
	vpLClosed = 0
	vpLRO     = 1
	vpLRW     = 2
)

func VpHDirLock() {
	w := &vpLWorld{pid: map[string]int{}, maxFaults: vpParam("flock.faults", 1)}
	vpLInstall(w)
	vpLOpenCloseStubs(w)
	nInst := vpParam("flock.inst", 3)
	steps := vpParam("flock.steps", 3)

	// layout 0: every instance uses Dir = ValueDir = /db
	// layout 1: every instance uses Dir = /db, ValueDir = /vdb
	// layout 2: instance i uses its own Dir /db<i mod 2> and the shared ValueDir /vdb (a second
	//           database pointed at the value directory of the first: the Dir lock is taken, the
	//           ValueDir lock is refused, the Dir lock must be given back)
	layout := vpChoose("layout", 3)
	dirOf := func(i int) string {
		if layout == 2 {
			return []string{"/db0", "/db1"}[i%2]
		}
		return "/db"
	}
	vdirOf := func(i int) string {
		if layout == 0 {
			return "/db"
		}
		return "/vdb"
	}
	dirsOf := func(i int) []string {
		if dirOf(i) == vdirOf(i) {
			return []string{dirOf(i)}
		}
		return []string{dirOf(i), vdirOf(i)}
	}
	shares := func(i, j int) bool {
		for _, a := range dirsOf(i) {
			for _, b := range dirsOf(j) {
				if a == b {
					return true
				}
			}
		}
		return false
	}
	switch layout {
	case 0:
		vpCover("flock.same-dir")
	case 1:
		vpCover("flock.separate-value-dir")
	case 2:
		vpCover("flock.shared-value-dir-only")
	}
	allDirs := []string{"/db", "/db0", "/db1", "/vdb"}
	pidPath := func(d string) string { return filepath.Join(d, lockFile) }

	state := make([]int, nInst)
	dbs := make([]*DB, nInst)
	released := false // some instance has been closed before

	for s := 0; s < steps; s++ {
		i := vpChoose("instance", nInst)
		w.actor, w.faulted = i, false
		dirs := dirsOf(i)
		if state[i] == vpLClosed {
			ro := vpChoose("read-only", 2) == 1
			w.actorRO = ro
			// reference: what C35 says about this attempt - it fails if one of its directories is
			// open read-write elsewhere, or open at all elsewhere when this attempt is read-write
			rwHolder, anyHolder := false, false
			for j := range state {
				if j != i && state[j] != vpLClosed && shares(i, j) {
					anyHolder = true
					rwHolder = rwHolder || state[j] == vpLRW
				}
			}
			mustFail := rwHolder || (anyHolder && !ro)
			// snapshot of everything a loser must leave alone
			pidBefore := map[string]int{}
			for _, d := range allDirs {
				if p, ok := w.pid[pidPath(d)]; ok {
					pidBefore[d] = p
				}
			}
			wr0, rm0 := w.pidWrites, w.pidRemoves
			locksBefore := make([]int, nInst)
			for j := range state {
				locksBefore[j] = w.locksOf(j)
			}

			opt := vpFOpenOptions(dirOf(i))
			opt.ValueDir = vdirOf(i)
			opt.ReadOnly = ro
			db, err := Open(opt)

			vpAssert(!w.blocked, "C35:flock.conflicting-open-fails-instead-of-blocking")
			vpAssert(w.bad == "", "C35:flock.descriptor-discipline")
			if mustFail {
				vpCover("flock.open-refused")
				if rwHolder {
					vpAssert(err != nil && db == nil, "C35:flock.open-fails-while-a-read-write-holder-exists")
				} else {
					vpCover("flock.read-write-open-refused-by-readers")
					vpAssert(err != nil && db == nil, "C35:flock.read-write-open-fails-while-readers-exist")
				}
			} else if !w.faulted {
				if ro && anyHolder {
					vpCover("flock.readers-coexist")
					vpAssert(err == nil && db != nil, "C35:flock.read-only-opens-coexist")
				} else if released {
					vpCover("flock.open-after-release")
					vpAssert(err == nil && db != nil, "C35:flock.open-succeeds-after-release")
				} else {
					vpAssert(err == nil && db != nil, "C35:flock.open-succeeds-when-nobody-holds-the-directory")
				}
			} else {
				// an injected error: Open may fail (os.Open, flock, pid file, MANIFEST) ...
				if err != nil {
					vpCover("flock.open-failed-by-injected-error")
				}
			}
			if err != nil {
				// ... but a failed Open leaks nothing: every descriptor it opened is closed again
				// (so its locks are gone), the holders keep their locks
				vpAssert(db == nil && w.openDescs(i) == 0, "C35:flock.failed-open-leaks-no-descriptor-or-lock")
				for j := range state {
					if j != i {
						vpAssert(w.locksOf(j) == locksBefore[j], "C35:flock.failed-open-leaves-holders-locked")
					}
				}
				// the pid file of a directory whose lock the loser did not get is neither written nor
				// removed by it (the stubs assert "only under the exclusive lock" at every call); where
				// it lost on its first directory nothing at all was touched
				for _, d := range allDirs {
					held := false
					for j := range state {
						if j != i && state[j] != vpLClosed {
							for _, dj := range dirsOf(j) {
								held = held || dj == d
							}
						}
					}
					if held {
						p, ok := w.pid[pidPath(d)]
						pb, okb := pidBefore[d]
						vpAssert(ok == okb && p == pb, "C35:flock.loser-does-not-touch-the-holders-pid-file")
					}
				}
				if mustFail && layout != 2 {
					vpAssert(w.pidWrites == wr0 && w.pidRemoves == rm0, "C35:flock.loser-writes-and-removes-no-pid-file")
				}
				ownDirFree := true
				for j := range state {
					if j != i && state[j] != vpLClosed && dirOf(j) == dirOf(i) {
						ownDirFree = false
					}
				}
				if mustFail && layout == 2 && ownDirFree && !w.faulted {
					// it held its own Dir for a moment (read-write: own pid file written) and lost on the
					// shared ValueDir: the pid file is removed again, the Dir lock given back
					vpCover("flock.partial-acquisition-undone")
					_, left := w.pid[pidPath(dirOf(i))]
					_, before := pidBefore[dirOf(i)] // (a stale file of an earlier attempt that failed in os.Remove)
					if ro {
						vpAssert(left == before, "C35:flock.partial-acquisition-removes-own-pid-file")
					} else {
						vpAssert(!left, "C35:flock.partial-acquisition-removes-own-pid-file")
					}
				}
			} else {
				want := vpLLockEX
				if ro {
					want = vpLLockSH
				}
				all := true
				for _, d := range dirs {
					all = all && w.holds(i, d, want)
				}
				vpAssert(all && w.openDescs(i) == len(dirs) && w.locksOf(i) == len(dirs),
					"C35:flock.open-holds-one-lock-per-directory")
				vpAssert(db.dirLockGuard != nil && (len(dirs) == 1) == (db.valueDirGuard == nil),
					"C35:flock.guards-handed-to-the-db")
				if !ro {
					okp := true
					for _, d := range dirs {
						okp = okp && w.pid[pidPath(d)] == 100+i
					}
					vpAssert(okp, "C35:flock.pid-file-names-the-read-write-holder")
					vpCover("flock.opened-read-write")
					state[i] = vpLRW
				} else {
					vpAssert(w.pidWrites == wr0 && w.pidRemoves == rm0, "C35:flock.read-only-open-leaves-pid-file-alone")
					vpCover("flock.opened-read-only")
					state[i] = vpLRO
				}
				dbs[i] = db
			}
		} else {
			w.actorRO = state[i] == vpLRO
			wr0, rm0 := w.pidWrites, w.pidRemoves
			err := dbs[i].Close()
			vpAssert(w.bad == "", "C35:flock.descriptor-discipline")
			// Close releases the lock (whatever it returns): no descriptor, no lock left
			vpAssert(w.openDescs(i) == 0 && w.locksOf(i) == 0, "C35:flock.close-releases-the-lock")
			if !w.faulted {
				vpAssert(err == nil, "C35:flock.close-succeeds")
				if state[i] == vpLRW {
					gone := true
					for _, d := range dirs {
						_, ok := w.pid[pidPath(d)]
						gone = gone && !ok
					}
					vpAssert(gone, "C35:flock.close-removes-own-pid-file")
				} else {
					vpAssert(w.pidWrites == wr0 && w.pidRemoves == rm0, "C35:flock.read-only-close-leaves-pid-file-alone")
				}
			}
			vpCover("flock.closed")
			if s+1 < steps {
				vpCover("flock.step-after-close")
			}
			state[i], dbs[i] = vpLClosed, nil
			released = true
		}
	}
}

package badger

import (
	"bytes"
	"hash/crc32"

	"github.com/dgraph-io/badger/v4/y"
	"github.com/dgraph-io/ristretto/v2/z"
)

type vpThreshPut struct {
	key []byte
	vs  y.ValueStruct
}

// H-THRESH / H-VLOGRT: the write path valueLog.write (validateWrites, the write/toDisk closures,
// encodeEntry, createVlogFile on rotation) -> DB.writeToLSM, with the value threshold returned
// by DB.valueThreshold() a FRESH symbolic value at every call, then the read path
// Item.Value / ValueCopy / prefetchValue -> yieldItemValue -> valueLog.Read -> readValueBytes ->
// getFileRLocked -> logFile.read. Log files are real logFile structs over byte buffers
// pre-filled with arbitrary bytes; the memtable is a recorder.
func VpHThresh() {
	// package initialisers run lazily at the first use of a package-level variable; run them now
	vpAssume(ErrTxnTooBig != nil && y.ErrEOF != nil)
	maxE := vpParam("thresh.entries", 2)
	maxV := vpParam("thresh.maxval", 3)       // first entry: value of 0..maxval bytes
	maxV2 := vpParam("thresh.maxval2", 1)     // later entries
	expBits := vpParam("thresh.expbits", 14)  // first entry: expiresAt < 2^expbits (each varint length of it is a path)
	expBits2 := vpParam("thresh.expbits2", 7) // later entries
	symFsize := vpParam("thresh.fsize", 0)    // 1: ValueLogFileSize symbolic (rotation by size), 0: 1 MiB

	db := &DB{}
	vlog := &db.vlog
	vlog.db = db

	// ---- entries, grouped into requests ----
	n := 1 + vpChoose("entries", maxE)
	var reqs []*request
	var ents []*Entry
	type orig struct {
		key, val    []byte
		meta, umeta byte
		exp         uint64
	}
	var origs []orig
	fid0 := vpU32("fid")
	maxEntries := vpU32("valueLogMaxEntries")
	fileSize := 1 << 20
	ok := fid0 < 1<<31
	if symFsize == 1 {
		fileSize = vpInt("valueLogFileSize")
		ok = vpAnd(ok, vpAnd(fileSize >= 64, fileSize <= 1<<30))
	}
	for i := 0; i < n; i++ {
		mv := maxV
		if i > 0 {
			mv = maxV2
		}
		vl := vpChoose("vlen", mv+1)
		e := &Entry{Key: y.KeyWithTs(vpBytes("ukey", 1), vpU64("ver")), Value: vpBytes("val", vl),
			ExpiresAt: vpU64("exp"), meta: vpU8("meta"), UserMeta: vpU8("umeta")}
		// what Txn.modify / sendToWriteCh may already have cached from an earlier threshold (0: nothing)
		e.valThreshold = int64(vpU64("cachedThreshold"))
		eb := expBits
		if i > 0 {
			eb = expBits2
		}
		if eb < 64 {
			ok = vpAnd(ok, e.ExpiresAt < uint64(1)<<uint(eb))
		}
		if i == 0 || vpChoose("newRequest", 2) == 1 {
			reqs = append(reqs, &request{})
		}
		r := reqs[len(reqs)-1]
		r.Entries = append(r.Entries, e)
		ents = append(ents, e)
		origs = append(origs, orig{key: append([]byte{}, e.Key...), val: append([]byte{}, e.Value...),
			meta: e.meta, umeta: e.UserMeta, exp: e.ExpiresAt})
	}
	vpAssume(ok)
	if len(reqs) > 1 {
		vpCover("thresh.two-requests")
	}

	// ---- the value log: one writable file over a buffer, more are created on rotation ----
	fsz := vlogHeaderSize + n*(maxHeaderSize+9+maxV+crc32.Size) + maxHeaderSize
	lf0 := vpNewLogFile(fsz, fid0, false)
	db.opt.ValueLogFileSize = int64(fileSize)
	db.opt.ValueLogMaxEntries = maxEntries
	db.opt.VerifyValueChecksum = vpBool("verifyChecksum")
	vlog.opt = db.opt
	vlog.filesMap = map[uint32]*logFile{fid0: lf0}
	vlog.maxFid = fid0
	vlog.writableLogOffset.Store(vlogHeaderSize)
	db.threshold = &vlogThreshold{valueCh: make(chan []int64, 8)}
	db.mt = &memTable{}

	nThresh := 0
	vpStub("(*badger.DB).valueThreshold", func(db *DB) int64 {
		nThresh++
		return int64(vpU64("threshold")) // listenForValueThresholdUpdate may have run since the last call
	})
	var puts []vpThreshPut
	vpStub("(*badger.memTable).Put", func(mt *memTable, key []byte, vs y.ValueStruct) error {
		vs.Value = append([]byte{}, vs.Value...) // the skiplist copies key and value into its arena
		puts = append(puts, vpThreshPut{key: append([]byte{}, key...), vs: vs})
		return nil
	})
	rotations := 0
	vpStub("(*badger.logFile).open", func(lf *logFile, path string, flags int, fsize int64) error {
		rotations++
		data := vpBytes("stale", fsz)
		lf.MmapFile = &z.MmapFile{Data: data}
		lf.size.Store(uint32(len(data)))
		lf.baseIV = data[8:vlogHeaderSize]
		return z.NewFile
	})
	vpStub("(*badger.logFile).Truncate", func(lf *logFile, end int64) error {
		// munmap, ftruncate, mmap: the mapping afterwards is exactly `end` bytes long
		lf.size.Store(uint32(end))
		if int(end) <= len(lf.Data) {
			lf.Data = lf.Data[:end]
		} else {
			nd := make([]byte, end)
			copy(nd, lf.Data)
			lf.Data = nd
		}
		return nil
	})

	// ---- write: exactly what DB.writeRequests does ----
	err := vlog.write(reqs)
	vpAssert(err == nil, "C06:thresh.vlog-write-noerror")
	if err != nil {
		return
	}
	for _, r := range reqs {
		err = db.writeToLSM(r)
		vpAssert(err == nil, "C06:thresh.write-to-lsm-noerror")
		if err != nil {
			return
		}
	}
	if rotations > 0 {
		vpCover("thresh.rotated")
	}
	vpAssert(len(puts) == n, "C06:thresh.one-lsm-entry-per-written-entry")
	if len(puts) != n {
		return
	}

	// ---- what reached the LSM ----
	var ptrs []valuePointer
	for _, r := range reqs {
		vpAssert(len(r.Ptrs) == len(r.Entries), "C06:thresh.one-pointer-slot-per-entry")
		ptrs = append(ptrs, r.Ptrs...)
	}
	type span struct{ fid, off, end uint32 }
	var spans []span
	for i, p := range puts {
		o := origs[i]
		vs := p.vs
		vpAssert(bytes.Equal(p.key, o.key), "C06:thresh.lsm-key-and-order")
		vpAssert(vpAnd(vs.UserMeta == o.umeta, vs.ExpiresAt == o.exp), "C06:thresh.usermeta-expiry-pass-through")
		// the entry handed in is not disturbed either (it also goes to the memtable WAL)
		vpAssert(vpAnd(ents[i].meta == o.meta, bytes.Equal(ents[i].Value, o.val)), "C06:thresh.entry-restored-after-vlog-write")
		if vs.Meta&bitValuePointer == 0 {
			vpCover("thresh.inline")
			// documented bit change: the pointer bit is cleared for an inline value
			vpAssert(vs.Meta == o.meta&^bitValuePointer, "C06:thresh.inline-meta-minus-pointer-bit")
			vpAssert(bytes.Equal(vs.Value, o.val), "C06:thresh.inline-bytes-are-the-value")
			continue
		}
		vpCover("thresh.pointer")
		vpAssert(vs.Meta == o.meta|bitValuePointer, "C06:thresh.pointer-meta-plus-pointer-bit")
		// pointer bit => 12 bytes that are exactly the location vlog.write reported for this entry,
		// and that location is not the zero pointer of a skipped entry
		vpAssert(len(vs.Value) == int(vptrSize), "C06:thresh.pointer-bit-means-pointer-bytes")
		if len(vs.Value) != int(vptrSize) {
			continue
		}
		pf, pl, po := vpGcLE32(vs.Value[0:4]), vpGcLE32(vs.Value[4:8]), vpGcLE32(vs.Value[8:12])
		w := ptrs[i]
		vpAssert(vpAnd(pf == w.Fid, vpAnd(pl == w.Len, po == w.Offset)), "C06,C15:thresh.stored-pointer-is-the-write-location")
		vpAssert(vpAnd(pl > 0, po >= vlogHeaderSize), "C06,C15:thresh.no-zero-pointer-with-pointer-bit")
		// the record at that location is this entry (what value-log GC will scan: H-GCREWRITE)
		lf := vlog.filesMap[w.Fid]
		vpAssert(lf != nil, "C06,C15:thresh.pointer-file-exists")
		if lf == nil || int(w.Offset)+int(w.Len) > len(lf.Data) {
			vpAssert(false, "C06,C15:thresh.pointer-inside-file")
			continue
		}
		d, derr := lf.decodeEntry(lf.Data[w.Offset:w.Offset+w.Len], w.Offset)
		vpAssert(derr == nil, "C06,C15:thresh.vlog-record-decodes")
		if derr == nil {
			vpAssert(vpAnd(bytes.Equal(d.Key, o.key), bytes.Equal(d.Value, o.val)), "C06,C15:thresh.vlog-record-key-value")
			vpAssert(vpAnd(vpAnd(d.UserMeta == o.umeta, d.ExpiresAt == o.exp), d.meta == o.meta&^(bitTxn|bitFinTxn)),
				"C06,C15:thresh.vlog-record-meta-minus-txn-bits")
		}
		for _, s := range spans {
			if s.fid == w.Fid {
				vpAssert(w.Offset >= s.end, "C06:thresh.vlog-records-do-not-overlap")
			}
		}
		spans = append(spans, span{w.Fid, w.Offset, w.Offset + w.Len})
	}

	// ---- read back through the item of a transaction (Txn.Get / Iterator.fill build it like this) ----
	// a failing vlog.Read is only logged by yieldItemValue (which then opens a transaction to dump
	// the key's versions): it must not happen for a pointer the write path produced
	vpStub("(*badger.DB).NewTransaction", func(db *DB, update bool) *Txn {
		vpAssert(false, "C06:thresh.vlog-read-never-fails")
		vpDone()
		return nil
	})
	vpStub("(*badger.DB).NewTransactionAt", func(db *DB, readTs uint64, update bool) *Txn {
		vpAssert(false, "C06:thresh.vlog-read-never-fails")
		vpDone()
		return nil
	})
	txn := &Txn{db: db}
	for i, p := range puts {
		o := origs[i]
		mk := func() *Item {
			return &Item{key: y.ParseKey(p.key), version: y.ParseTs(p.key), meta: p.vs.Meta, userMeta: p.vs.UserMeta,
				vptr: y.SafeCopy(nil, p.vs.Value), txn: txn, expiresAt: p.vs.ExpiresAt}
		}
		// Item.Value
		it := mk()
		called := false
		verr := it.Value(func(v []byte) error {
			called = true
			vpAssert(bytes.Equal(v, o.val), "C06,C01,C15:thresh.item-value-is-what-was-written")
			return nil
		})
		vpAssert(verr == nil && called, "C06:thresh.item-value-noerror")
		// Item.ValueCopy
		it = mk()
		cp, cerr := it.ValueCopy(nil)
		vpAssert(cerr == nil, "C06:thresh.item-valuecopy-noerror")
		vpAssert(bytes.Equal(cp, o.val), "C06,C01:thresh.item-valuecopy-is-what-was-written")
		// prefetching iteration: prefetchValue, then Value from the prefetched copy
		it = mk()
		it.prefetchValue()
		verr = it.Value(func(v []byte) error {
			vpAssert(bytes.Equal(v, o.val), "C06,C05:thresh.prefetched-value-is-what-was-written")
			return nil
		})
		vpAssert(verr == nil, "C06:thresh.prefetched-value-noerror")
		vpAssert(vpAnd(it.UserMeta() == o.umeta, it.ExpiresAt() == o.exp), "C06:thresh.item-usermeta-expiry")
		vpAssert(it.DiscardEarlierVersions() == (o.meta&bitDiscardEarlierVersions > 0), "C06:thresh.item-discard-earlier-flag")
	}
	if nThresh >= 2 {
		vpCover("thresh.threshold-read-twice")
	}
}

package badger

import (
	"bytes"

	"github.com/dgraph-io/badger/v4/skl"
	"os"
	"time"

	"github.com/dgraph-io/badger/v4/table"
	"github.com/dgraph-io/badger/v4/y"
	"github.com/dgraph-io/ristretto/v2/z"
)

// H-FSORDER / I5: the REAL Open (whole function) with ReadOnly=true, respectively InMemory=true,
// over the abstract file system of zz_verif_fsorder.go, which records every file-system call and
// every successful mutation. Real below Open: checkAndSetOptions, createDirs, exists,
// acquireDirectoryLock, openOrCreateManifestFile / helpOpenOrCreateManifestFile / ReplayManifestFile,
// OpenKeyRegistry / readKeyRegistry, openMemTables / openMemTable / logFile.open / UpdateSkipList /
// logFile.iterate / logFile.Truncate, newLevelsController (getIDMap, revertToManifest, table
// opening goroutines, validate, syncDir), valueLog.init / open / populateFilesMap, newOracle,
// newPublisher, z.OpenMmapFile, the deferred lock release on failure.
// Stubbed besides the file system: the bodies of the background goroutines Open starts
// (monitorCache, updateSize, doWrites, flushMemtable, startCompact, waitOnGC, listenForUpdates,
// listenForValueThresholdUpdate, WaterMark.process: they run later, not in Open), z.NewCloser /
// z.NewAllocatorPool / time.NewTicker (plain objects), math.Min, initVlogThreshold (histogram floats), DB.calculateSize (a
// directory walk that only reads), DB.initBannedNamespaces (a read through the normal read path),
// DB.cleanup (stops goroutines, no file call), getTableInfo (in-memory), skl.NewSkiplist/Put/...
// and table.OpenTable as in vpFSetup.

type vpRODisk struct {
	mem, memTail, vlog, keyreg, orphan bool
}

// vpFOpenStubs: what the real Open needs around the file system
func vpFOpenStubs(e *vpFEnv) {
	vpStub("github.com/dgraph-io/ristretto/v2/z.NewCloser", func(initial int) *z.Closer { return &z.Closer{} })
	vpStub("github.com/dgraph-io/ristretto/v2/z.NewAllocatorPool", func(sz int) *z.AllocatorPool { return &z.AllocatorPool{} })
	vpStub("math.Min", func(a, b float64) float64 {
		if a < b {
			return a
		}
		return b
	})
	vpStub("badger.initVlogThreshold", func(opt *Options) *vlogThreshold {
		lt := &vlogThreshold{valueCh: make(chan []int64, 1000), clearCh: make(chan bool, 1)}
		lt.valueThreshold.Store(opt.ValueThreshold)
		return lt
	})
	vpStub("time.NewTicker", func(d time.Duration) *time.Ticker { return &time.Ticker{C: make(chan time.Time)} })
	vpStub("(*time.Ticker).Stop", func(t *time.Ticker) {})
	vpStub("time.Now", func() time.Time { return time.Unix(1000, 0) })
	vpStub("time.Since", func(t time.Time) time.Duration { return 0 })
	vpStub("(*badger.DB).monitorCache", func(db *DB, c *z.Closer) {})
	vpStub("(*badger.DB).updateSize", func(db *DB, c *z.Closer) {})
	vpStub("(*badger.DB).doWrites", func(db *DB, c *z.Closer) {})
	vpStub("(*badger.DB).flushMemtable", func(db *DB, c *z.Closer) {})
	vpStub("(*badger.levelsController).startCompact", func(s *levelsController, c *z.Closer) {})
	vpStub("(*badger.valueLog).waitOnGC", func(v *valueLog, c *z.Closer) {})
	vpStub("(*badger.publisher).listenForUpdates", func(p *publisher, c *z.Closer) {})
	vpStub("(*badger.vlogThreshold).listenForValueThresholdUpdate", func(v *vlogThreshold) {})
	vpStub("(*badger/y.WaterMark).process", func(w *y.WaterMark, c *z.Closer) {})
	vpStub("(*badger.DB).calculateSize", func(db *DB) {})
	vpStub("(*badger.DB).initBannedNamespaces", func(db *DB) error { return nil })
	vpStub("(*badger.DB).cleanup", func(db *DB) {})
	vpStub("(*badger.levelsController).getTableInfo", func(s *levelsController) []TableInfo { return nil })
}

func vpFOpenOptions(dir string) Options {
	opt := Options{}
	opt.Dir, opt.ValueDir = dir, dir
	opt.MemTableSize = 64 << 20
	opt.BaseTableSize = 2 << 20
	opt.BaseLevelSize = 10 << 20
	opt.LevelSizeMultiplier = 10
	opt.TableSizeMultiplier = 2
	opt.MaxLevels = 3
	opt.NumLevelZeroTables = 5
	opt.NumLevelZeroTablesStall = 15
	opt.NumMemtables = 5
	opt.NumCompactors = 0
	opt.NumVersionsToKeep = 1
	opt.ValueLogFileSize = 1 << 20
	opt.ValueLogMaxEntries = 1000
	opt.ValueThreshold = 1 << 10
	opt.VLogPercentile = 0
	opt.BlockSize = 4096
	opt.NamespaceOffset = -1
	opt.DetectConflicts = true
	return opt
}

// vpFMakeDisk: a database directory as an earlier read-write run left it, produced by the real
// creation code before recording starts.
func vpFMakeDisk(e *vpFEnv, d vpRODisk) {
	fs, db, dir := e.fs, e.db, e.dir
	// MANIFEST (created by vpFSetup) lists table 1 on level 0; its file exists
	vpAssume(db.manifest.addChanges(vpFCreates([]uint64{1}), db.opt) == nil)
	vpAssume(db.manifest.close() == nil)
	fs.seed(vpFSst(dir, 1), append([]byte{}, e.img...))
	if d.orphan {
		// a table file the MANIFEST does not reference: what a kill between "create .sst" and the
		// MANIFEST append of a flush or compaction leaves behind
		fs.seed(vpFSst(dir, 2), append([]byte{}, e.img...))
		vpCover("ro.disk-has-orphan-table")
	}
	if d.mem {
		mt, err := db.newMemTable()
		vpAssume(err == nil)
		vpAssume(mt.Put(y.KeyWithTs([]byte("m"), 9), y.ValueStruct{Value: []byte("w")}) == nil)
		f := fs.lookup(mt.wal.path)
		if !d.memTail {
			// cut at the end of the last record (no zeroed tail): a read-only open can replay it
			vpAssume(mt.wal.MmapFile.Truncate(int64(mt.wal.writeAt)) == nil)
			vpCover("ro.disk-has-exact-wal")
		} else {
			vpCover("ro.disk-has-wal-with-tail")
		}
		f.snap, f.synced, f.dirDur = append([]byte{}, f.data...), true, true
	}
	if d.vlog {
		vlog := &valueLog{opt: db.opt, db: db, dirPath: dir, filesMap: map[uint32]*logFile{}}
		vlog.opt.ValueLogFileSize = 128
		lf, err := vlog.createVlogFile()
		vpAssume(err == nil)
		vpAssume(lf.MmapFile.Truncate(int64(vlogHeaderSize)) == nil) // as valueLog.Close leaves it
		vpCover("ro.disk-has-vlog")
	}
	if d.keyreg {
		kr := newKeyRegistry(KeyRegistryOptions{Dir: dir})
		vpAssume(WriteKeyRegistry(kr, KeyRegistryOptions{Dir: dir}) == nil)
		vpCover("ro.disk-has-keyregistry")
	}
	// every descriptor of the earlier run is gone
	for _, h := range fs.hs {
		h.closed = true
	}
	for _, n := range fs.names {
		f := fs.files[n]
		if f.exists {
			f.dirDur, f.isNew = true, false
		}
	}
	e.puts = nil
}

func VpHReadOnlyNoMutation() {
	e := vpFSetup(vpParam("fs.faults", 1))
	fs, dir := e.fs, e.dir
	vpFOpenStubs(e)
	d := vpRODisk{}
	d.mem = vpChoose("disk.mem", 2) == 1
	if d.mem {
		d.memTail = vpChoose("disk.mem-tail", 2) == 1
	}
	d.vlog = vpChoose("disk.vlog", 2) == 1
	d.keyreg = vpChoose("disk.keyregistry", 2) == 1
	d.orphan = vpChoose("disk.orphan-table", 2) == 1
	vpFMakeDisk(e, d)
	e.rng = func(id uint64) ([]byte, []byte) { return y.KeyWithTs([]byte("a"), 5), y.KeyWithTs([]byte("b"), 5) }

	var flags []int
	var names []string
	vpStub("github.com/dgraph-io/ristretto/v2/z.OpenMmapFile", func(filename string, flag int, maxSz int) (*z.MmapFile, error) {
		flags = append(flags, flag)
		names = append(names, filename)
		return z.OpenMmapFile(filename, flag, maxSz) // the real one
	})
	vpStub("badger/y.OpenExistingFile", func(filename string, fl y.Flags) (*os.File, error) {
		if fl&y.ReadOnly == 0 {
			flags = append(flags, os.O_RDWR)
		} else {
			flags = append(flags, os.O_RDONLY)
		}
		names = append(names, filename)
		return y.OpenExistingFile(filename, fl) // the real one
	})

	// getIDMap turns a ReadDir error into log.Fatal (y.Check): no fault is injected there
	vpStub("badger.getIDMap", func(d string) map[uint64]struct{} {
		fs.quiet = true
		m := getIDMap(d) // the real one
		fs.quiet = false
		return m
	})

	opt := vpFOpenOptions(dir)
	opt.ReadOnly = true
	fs.arm()
	db, err := Open(opt)

	// I5: nothing was created, written, truncated, renamed or removed; nothing was even attempted
	// through a read-only descriptor; every open asked for read-only access. (Regression check for
	// "read-only Open unlinks .sst files the MANIFEST does not list": revertToManifest used to run its
	// removal step in every mode.)
	vpAssert(len(fs.muts) == 0, "C07:ro.no-file-mutation")
	vpAssert(len(fs.attempts) == 0, "C07:ro.no-mutation-attempt-through-readonly-descriptor")
	for _, sy := range fs.syncs {
		// observations, not violations: newLevelsController fsyncs the directory in every mode; an
		// error path (MmapFile.Close) msyncs a read-only mapping
		if sy == "fsync-dir "+dir {
			vpCover("ro.directory-fsync-in-read-only-mode")
		} else {
			vpCover("ro.msync-of-read-only-mapping-on-error-path")
		}
	}
	ro := true
	for _, fl := range flags {
		ro = ro && fl == os.O_RDONLY
	}
	vpAssert(ro && (len(flags) > 0 || err != nil), "C07:ro.every-open-is-read-only")
	vpAssert(fs.bad == "", "C07:ro.file-handle-discipline")
	if err == nil {
		vpCover("ro.open-succeeded")
		vpAssert(db != nil && db.mt == nil, "C07:ro.no-writable-memtable")
		if d.mem && !d.memTail {
			vpAssert(len(db.imm) == 1 && len(e.puts) == 1, "C07:ro.wal-replayed-into-immutable-memtable")
		}
		if fs.faults == 0 {
			vpAssert(len(db.lc.levels[0].tables) == 1, "C07:ro.tables-opened")
		}
	} else {
		vpCover("ro.open-failed")
		if fs.faults == 0 {
			// the only legitimate refusal here: a WAL that would need truncation
			vpAssert(d.mem && d.memTail, "C07:ro.open-fails-only-for-wal-needing-truncation")
		}
	}
	_ = names
}

func VpHInMemoryNoFiles() {
	e := vpFSetup(0)
	fs := e.fs
	vpFOpenStubs(e)
	opt := vpFOpenOptions("")
	opt.InMemory = true
	fs.arm()
	db, err := Open(opt)
	vpAssert(err == nil && db != nil, "C37:inmem.open-succeeds")
	vpAssert(len(fs.touched) == 0, "C37:inmem.open-touches-no-file")
	if err != nil {
		return
	}
	vpCover("inmem.opened")
	vpAssert(db.mt != nil && db.mt.wal == nil, "C37:inmem.memtable-has-no-wal")
	vpAssert(db.opt.SyncWrites == false && db.manifest.inMemory, "C37:inmem.options")

	// one write request through the real write path, then the real flush of that memtable
	// the value threshold is arbitrary, subject to what Txn.modify admits in InMemory mode: a value
	// up to AND INCLUDING the threshold length (17 bytes here)
	thr := vpU64("valueThreshold")
	vpAssume(vpAnd(thr >= 17, thr <= 1<<20))
	db.threshold = &vlogThreshold{}
	db.threshold.valueThreshold.Store(int64(thr))
	vpStub("(*badger.vlogThreshold).update", func(v *vlogThreshold, sizes []int64) {})
	vpPanicID("C37,C28:inmem.write-of-an-admitted-value-does-not-panic")
	// the entry carries arbitrary meta bits (delete, discard-earlier-versions, merge entry, txn),
	// user meta and expiry: what reaches the memtable must be what an on-disk database would store
	// for an inline value (the same meta apart from the value-pointer bit, same value, user meta,
	// expiry) - the memtable content is all an in-memory database has
	var putVs []y.ValueStruct
	vpStub("(*badger/skl.Skiplist).Put", func(s *skl.Skiplist, key []byte, v y.ValueStruct) {
		e.puts = append(e.puts, string(key))
		putVs = append(putVs, v)
	})
	ent := &Entry{Key: y.KeyWithTs([]byte("k1"), 7), Value: []byte("BIGVALUE-BIGVALUE"), meta: vpU8("meta"), UserMeta: vpU8("usermeta"), ExpiresAt: vpU64("expires")}
	vpAssume(ent.meta&(bitFinTxn|bitValuePointer) == 0)
	req := &request{Entries: []*Entry{ent}}
	req.Wg.Add(1)
	req.IncrRef()
	werr := db.writeRequests([]*request{req})
	vpAssert(werr == nil && req.Err == nil, "C37:inmem.write-succeeds")
	vpAssert(len(e.puts) == 1, "C37:inmem.value-stays-in-lsm")
	if len(putVs) == 1 {
		v := putVs[0]
		vpAssert(vpAnd(vpAnd(v.Meta == ent.meta, v.UserMeta == ent.UserMeta), vpAnd(v.ExpiresAt == ent.ExpiresAt, bytes.Equal(v.Value, ent.Value))),
			"C37,C06:inmem.memtable-gets-the-entry-unchanged")
	}
	vpAssert(len(fs.touched) == 0, "C37:inmem.write-touches-no-file")

	vpStub("badger/table.OpenInMemoryTable", func(data []byte, id uint64, opt *table.Options) (*table.Table, error) {
		return table.VpFSTable(&z.MmapFile{Data: data}, id, y.KeyWithTs([]byte("k1"), 7), y.KeyWithTs([]byte("k1"), 7), true), nil
	})
	vpStub("(*badger/table.Builder).Finish", func(b *table.Builder) []byte { return []byte{1, 2, 3} })
	ferr := db.handleMemTableFlush(db.mt, nil)
	vpAssert(ferr == nil && len(db.lc.levels[0].tables) == 1, "C37:inmem.flush-succeeds")
	vpAssert(len(fs.touched) == 0, "C37:inmem.flush-touches-no-file")
	vpAssert(db.syncDir("/db") == nil && len(fs.touched) == 0, "C37:inmem.syncdir-is-a-noop")
	db.mt.DecrRef()
	vpAssert(len(fs.touched) == 0, "C37:inmem.memtable-release-touches-no-file")
}

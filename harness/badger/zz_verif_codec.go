package badger

import (
	"bytes"
	"encoding/binary"

	"github.com/dgraph-io/badger/v4/y"
)

// H-CODEC(1): header Encode/Decode, every field full width.
func VpHHeader() {
	h := header{klen: vpU32("klen"), vlen: vpU32("vlen"), expiresAt: vpU64("exp"), meta: vpU8("meta"), userMeta: vpU8("umeta")}
	var buf [maxHeaderSize]byte
	n := h.Encode(buf[:])
	vpObserveU64("n", uint64(n))
	vpObserveBytes("enc", buf[:])
	vpAssert(n >= 5 && n <= maxHeaderSize, "C20,C16:header.size")
	var g header
	m := g.Decode(buf[:])
	vpAssert(m == n, "C20,C16:header.decode.len")
	vpAssert(g.klen == h.klen && g.vlen == h.vlen, "C20,C16:header.decode.lens")
	vpAssert(g.expiresAt == h.expiresAt, "C20,C16:header.decode.exp")
	vpAssert(g.meta == h.meta && g.userMeta == h.userMeta, "C20,C16:header.decode.meta")
}

// H-CODEC(2): ValueStruct Encode/EncodeTo/Decode/EncodedSize.
func VpHValueStruct() {
	lv := vpChoose("lenV", vpParam("vs.maxlen", 3)+1)
	v := y.ValueStruct{Meta: vpU8("meta"), UserMeta: vpU8("umeta"), ExpiresAt: vpU64("exp"), Value: vpBytes("val", lv)}
	sz := v.EncodedSize()
	buf := make([]byte, sz)
	n := v.Encode(buf)
	vpObserveBytes("enc", buf)
	vpAssert(n == sz, "C20,C06:vs.size")
	var w y.ValueStruct
	w.Decode(buf)
	vpAssert(w.Meta == v.Meta && w.UserMeta == v.UserMeta, "C20,C06:vs.meta")
	vpAssert(w.ExpiresAt == v.ExpiresAt, "C20,C06,C33:vs.exp")
	vpAssert(bytes.Equal(w.Value, v.Value), "C20,C06:vs.value")
	var bb bytes.Buffer
	v.EncodeTo(&bb)
	vpAssert(bytes.Equal(bb.Bytes(), buf), "C20,C06:vs.encodeto")
}

// H-CODEC(3): valuePointer Encode/Decode/Less/IsZero.
func VpHValuePointer() {
	p := valuePointer{Fid: vpU32("fid"), Len: vpU32("len"), Offset: vpU32("off")}
	q := valuePointer{Fid: vpU32("fid2"), Len: vpU32("len2"), Offset: vpU32("off2")}
	b := p.Encode()
	vpObserveBytes("enc", b)
	vpAssert(len(b) == int(vptrSize), "C20,C06:vp.size")
	var r valuePointer
	r.Decode(b)
	vpAssert(r == p, "C20,C06:vp.roundtrip")
	vpAssert(p.IsZero() == (p.Fid == 0 && p.Len == 0 && p.Offset == 0), "C20:vp.iszero")
	// Less is the lexicographic order on (Fid, Offset, Len): irreflexive, total, antisymmetric
	ref := vpOr(p.Fid < q.Fid, vpAnd(p.Fid == q.Fid, vpOr(p.Offset < q.Offset, vpAnd(p.Offset == q.Offset, p.Len < q.Len))))
	vpAssert(p.Less(q) == ref, "C20,C15:vp.less")
	vpAssert(vpNot(vpAnd(p.Less(q), q.Less(p))), "C20:vp.less.antisym")
	vpAssert(vpOr(vpOr(p.Less(q), q.Less(p)), p == q), "C20:vp.less.total")
}

// H-CODEC(4): sizeVarint agrees with PutUvarint; Uvarint inverts PutUvarint.
func VpHVarint() {
	x := vpU64("x")
	var buf [binary.MaxVarintLen64]byte
	n := binary.PutUvarint(buf[:], x)
	vpObserveBytes("enc", buf[:])
	v := y.ValueStruct{ExpiresAt: x}
	vpAssert(int(v.EncodedSize()) == 2+n, "C20:varint.size")
	back, m := binary.Uvarint(buf[:])
	vpAssert(back == x && m == n, "C20:varint.roundtrip")
}

package badger

import (
	"time"

	"github.com/dgraph-io/badger/v4/table"
	"github.com/dgraph-io/badger/v4/y"
)

// H-COMPACTITERS: the iterators that the real compactBuildTables hands to the merge iterator for
// one sub-compaction. The merge iterator gives precedence to the EARLIER input on identical
// internal keys (C21), so for an L0 compaction the L0 tables have to come newest first (level 0 is
// ordered by age, lh.tables[0] oldest) and the next level's tables after all of them: otherwise an
// older copy of an internal key (a vlog-GC write-back, a merge write-back, a managed rewrite at one
// version) survives the compaction instead of the newer one (C15, C12, C36).
func VpHCompactIters() {
	ntop := 2 + vpChoose("l0-tables", 2) // 2..3 level-0 tables, ids = age order (1 oldest)
	withBot := vpChoose("with-bottom-table", 2) == 1
	db := &DB{}
	db.opt.InMemory = true // syncDir is a no-op
	s := &levelsController{kv: db}
	l0 := &levelHandler{level: 0, db: db}
	l1 := &levelHandler{level: 1, db: db}
	var top []*table.Table
	for i := 0; i < ntop; i++ {
		// overlapping ranges (level 0), symbolic versions
		sm := y.KeyWithTs([]byte{'a'}, vpU64("smallest.ts"))
		bg := y.KeyWithTs([]byte{'m'}, vpU64("biggest.ts"))
		top = append(top, table.VpLvNewTable(uint64(i+1), sm, bg, 100, time.Time{}, 0))
	}
	var bot []*table.Table
	if withBot {
		bot = []*table.Table{table.VpLvNewTable(9, y.KeyWithTs([]byte{'a'}, 1), y.KeyWithTs([]byte{'z'}, 1), 100, time.Time{}, 0)}
	}
	cd := compactDef{thisLevel: l0, nextLevel: l1, top: top, bot: bot, splits: []keyRange{{}}}

	// table iterators and the concat iterator are tagged with the tables they were made for
	iterOf := map[y.Iterator][]*table.Table{}
	vpStub("(*badger/table.Table).NewIterator", func(t *table.Table, opt int) *table.Iterator {
		it := &table.Iterator{}
		iterOf[it] = []*table.Table{t}
		return it
	})
	vpStub("badger/table.NewConcatIterator", func(tbls []*table.Table, opt int) *table.ConcatIterator {
		c := &table.ConcatIterator{}
		iterOf[c] = tbls
		return c
	})
	var merged [][]*table.Table
	vpStub("badger/table.NewMergeIterator", func(iters []y.Iterator, reverse bool) y.Iterator {
		vpAssert(!reverse, "C12,C15:citers.forward-merge")
		for _, it := range iters {
			merged = append(merged, iterOf[it])
		}
		return &vpListIter{}
	})
	vpStub("(*badger.levelsController).subcompact", func(s *levelsController, it y.Iterator, kr keyRange, cd compactDef, thr *y.Throttle, res chan<- *table.Table) {
	})
	_, _, err := s.compactBuildTables(0, cd)
	vpAssert(err == nil, "C12,C15:citers.buildtables-ran")

	// flatten: the order of tables as the merge iterator sees its inputs
	var order []*table.Table
	for _, ts := range merged {
		order = append(order, ts...)
	}
	want := ntop
	if withBot {
		want++
	}
	vpAssert(len(order) == want, "C12,C15:citers.every-input-table-is-iterated-once")
	if len(order) != want {
		return
	}
	ok := true
	for i := 0; i < ntop; i++ {
		// newest level-0 table first: ids ntop, ntop-1, .., 1
		ok = ok && order[i].ID() == uint64(ntop-i)
	}
	vpAssert(ok, "C12,C15,C36:citers.l0-tables-newest-first")
	if withBot {
		vpAssert(order[ntop].ID() == 9, "C12,C15:citers.next-level-after-level0")
		vpCover("citers.with-bottom")
	}
	if ntop == 3 {
		vpCover("citers.three-l0-tables")
	}
}

package badger

import (
	"bytes"
	"context"
	"time"

	"github.com/dgraph-io/badger/v4/table"
	"github.com/dgraph-io/badger/v4/y"
	"go.opentelemetry.io/otel/attribute"
	"go.opentelemetry.io/otel/trace"
)

// vpLvStubTracing replaces the global OpenTelemetry tracer (process-global state that is never
// initialised under the engine) by a tracer that does nothing.
type vpLvSpan struct{ trace.Span }

func (vpLvSpan) End(...trace.SpanEndOption)          {}
func (vpLvSpan) SetAttributes(...attribute.KeyValue) {}

type vpLvTracer struct{ trace.Tracer }

func (vpLvTracer) Start(ctx context.Context, name string, o ...trace.SpanStartOption) (context.Context, trace.Span) {
	return ctx, vpLvSpan{}
}

func vpLvStubTracing() {
	vpStub("go.opentelemetry.io/otel.Tracer", func(name string, opts ...trace.TracerOption) trace.Tracer { return vpLvTracer{} })
}

// ---------------------------------------------------------------------------------------------
// shared helpers (all identifiers carry the prefix vpLv)
// ---------------------------------------------------------------------------------------------

// vpLvTab is the harness' view of one table: the real *table.Table plus the parts of its two
// boundary keys, so that oracles can be written branch-free without calling the code under test.
type vpLvTab struct {
	t      *table.Table
	id     uint64
	level  int
	su, bu []byte // user keys of smallest / biggest
	sts    uint64 // version of smallest
	bts    uint64 // version of biggest
	size   int64
	stale  uint32
	maxVer uint64
	inR    bool // input of the already-running compaction
	pre    bool // well-formedness of this table (to be assumed by the caller)
}

// internal-key order written without y.CompareKeys: user key ascending, version descending.
func vpLvLess(au []byte, ats uint64, bu []byte, bts uint64) bool {
	return vpOr(bytes.Compare(au, bu) < 0, vpAnd(bytes.Equal(au, bu), ats > bts))
}
func vpLvLeq(au []byte, ats uint64, bu []byte, bts uint64) bool {
	return vpOr(bytes.Compare(au, bu) < 0, vpAnd(bytes.Equal(au, bu), ats >= bts))
}

// vpLvMkTab builds a table whose boundary keys have user keys of the given lengths and symbolic
// versions, smallest <= biggest.
func vpLvMkTab(id uint64, level int, slen, blen int, size int64, created time.Time) *vpLvTab {
	tb := &vpLvTab{id: id, level: level, size: size}
	tb.su = vpBytes("smallest.user", slen)
	tb.sts = vpU64("smallest.ts")
	tb.bu = vpBytes("biggest.user", blen)
	tb.bts = vpU64("biggest.ts")
	tb.maxVer = vpU64("maxVersion")
	// smallest <= biggest; the table index records the maximum version over all keys, the
	// boundary keys included
	tb.pre = vpAnd(vpLvLeq(tb.su, tb.sts, tb.bu, tb.bts), vpAnd(tb.maxVer >= tb.sts, tb.maxVer >= tb.bts))
	tb.t = table.VpLvNewTable(id, y.KeyWithTs(tb.su, tb.sts), y.KeyWithTs(tb.bu, tb.bts), size, created, tb.maxVer)
	return tb
}

// vpLvSorted: well-formed tables + the level invariant that levelHandler.validate checks.
func vpLvSorted(tabs []*vpLvTab) bool {
	c := true
	for i, tb := range tabs {
		c = vpAnd(c, tb.pre)
		if i > 0 {
			c = vpAnd(c, vpLvLess(tabs[i-1].bu, tabs[i-1].bts, tb.su, tb.sts))
		}
	}
	return c
}

// vpLvMergeCompare replaces y.CompareKeys by a branch-free equivalent (one ite term instead of up
// to four paths per comparison). y.CompareKeys itself is decided by y.VpHKeys; with the harness
// parameter lv.forkcmp=1 (thorough tier) the real function is executed instead.
func vpLvMergeCompare() {
	if vpParam("lv.forkcmp", 0) == 1 {
		return
	}
	vpStub("badger/y.CompareKeys", func(a, b []byte) int {
		c := bytes.Compare(a[:len(a)-8], b[:len(b)-8])
		t := bytes.Compare(a[len(a)-8:], b[len(b)-8:])
		return vpIteInt(c != 0, c, t)
	})
}

// vpLvMergeKeyRange: the same for getKeyRange over tables with 1-byte user keys (running
// minimum / maximum as ite chains instead of one path per comparison outcome). Used only in the
// level-0 scenarios of H-LEVELS, where getKeyRange sees up to 5 tables; in the other scenarios,
// and everywhere with lv.forkcmp=1, the real getKeyRange runs.
func vpLvMergeKeyRange() {
	if vpParam("lv.forkcmp", 0) == 1 {
		return
	}
	vpStub("badger.getKeyRange", func(tables ...*table.Table) keyRange {
		if len(tables) == 0 {
			return keyRange{}
		}
		lo, hi := tables[0].Smallest()[0], tables[0].Biggest()[0]
		for _, t := range tables[1:] {
			s, b := t.Smallest()[0], t.Biggest()[0]
			lo = vpIteU8(s < lo, s, lo)
			hi = vpIteU8(b > hi, b, hi)
		}
		return vpLvRangeOf(lo, hi)
	})
}

func vpLvTables(tabs []*vpLvTab) []*table.Table {
	out := make([]*table.Table, len(tabs))
	for i, tb := range tabs {
		out[i] = tb.t
	}
	return out
}

// ---------------------------------------------------------------------------------------------
// H-PICKTABLES (C05): IteratorOptions.pickTables / pickTable never leave out a table that can
// hold a key the iterator has to return.
// ---------------------------------------------------------------------------------------------
func VpHPickTables() {
	maxT := vpParam("pick.tables", 2)
	maxKey := vpParam("pick.keylen", 2)
	maxWit := vpParam("pick.witnesslen", 2)
	n := vpChoose("ntables", maxT+1)
	tabs := make([]*vpLvTab, n)
	for i := range tabs {
		tabs[i] = vpLvMkTab(uint64(10+i), 1, 1+vpChoose("slen", maxKey), 1+vpChoose("blen", maxKey), 10, time.Time{})
	}
	pre := vpLvSorted(tabs)

	opt := &IteratorOptions{}
	opt.Prefix = vpBytes("prefix", vpChoose("prefixlen", 3))
	if len(opt.Prefix) > 0 && vpChoose("prefixIsKey", 2) == 1 {
		opt.prefixIsKey = true
	}
	useSince := vpChoose("since", 2) == 1
	if useSince {
		opt.SinceTs = vpU64("sinceTs")
	}

	// bloom filter answers: arbitrary, but never "absent" for a key the table holds (H-BLOOM)
	absent := make(map[uint64]bool)
	for _, tb := range tabs {
		absent[tb.id] = vpBool("bloom.absent")
	}
	bloomCalls := 0
	vpStub("(*badger/table.Table).DoesNotHave", func(t *table.Table, hash uint32) bool {
		bloomCalls++
		return absent[t.ID()]
	})

	// witness: some table h holds a key k = (wu, wts) that the iterator must yield
	var h *vpLvTab
	var wu []byte
	var wts uint64
	if n > 0 {
		h = tabs[vpChoose("holder", n)]
		wu = vpBytes("witness.user", 1+vpChoose("witnesslen", maxWit))
		wts = vpU64("witness.ts")
		pre = vpAnd(pre, vpAnd(vpLvLeq(h.su, h.sts, wu, wts), vpLvLeq(wu, wts, h.bu, h.bts)))
		// SinceTs: only versions above it are read; the code keeps every table whose maximum
		// version is at or above SinceTs, which is what is demanded here (a superset)
		pre = vpAnd(pre, vpAnd(wts <= h.maxVer, h.maxVer >= opt.SinceTs))
		if opt.prefixIsKey {
			// NewKeyIterator: exactly this user key; bloom filters have no false negatives
			pre = vpAnd(pre, vpAnd(bytes.Equal(wu, opt.Prefix), vpNot(absent[h.id])))
		} else {
			pre = vpAnd(pre, bytes.HasPrefix(wu, opt.Prefix))
		}
	}
	vpAssume(pre)

	all := vpLvTables(tabs)
	picked := opt.pickTables(all)
	// the result is a subsequence of the input (ConcatIterator needs ascending order)
	pos := -1
	for _, p := range picked {
		found := -1
		for i, t := range all {
			if t == p {
				found = i
			}
		}
		vpAssert(found > pos, "C05:pick.subsequence-in-order")
		pos = found
	}
	if h != nil {
		in := false
		for _, p := range picked {
			if p == h.t {
				in = true
			}
		}
		vpAssert(in, "C05,C01:pick.tables-keeps-holder")
		vpCover("pick.witness")
		// level 0 path: one table at a time
		vpAssert(opt.pickTable(h.t), "C05,C01:pick.table-keeps-holder")
		if len(picked) < n {
			vpCover("pick.some-table-dropped")
		}
	}
	// the level's own slice is never modified (filterTables compacts a copy in place)
	unchanged := len(all) == n
	for i := range all {
		unchanged = unchanged && all[i] == tabs[i].t
	}
	vpAssert(unchanged, "C05,C14:pick.level-tables-unchanged")
	// the same through levelHandler.appendIterators of a level >= 1
	lh := &levelHandler{level: 1, db: &DB{}, tables: all}
	iters := lh.appendIterators(nil, opt)
	if len(picked) == 0 {
		vpAssert(len(iters) == 0, "C05:pick.concat-iterator-over-picked")
	} else {
		ci, ok := iters[0].(*table.ConcatIterator)
		same := ok && len(iters) == 1
		if same {
			ct := table.VpLvConcatTables(ci)
			same = len(ct) == len(picked)
			for i := range picked {
				same = same && ct[i] == picked[i]
			}
		}
		vpAssert(same, "C05:pick.concat-iterator-over-picked")
	}
	unchanged = len(lh.tables) == n
	for i := range lh.tables {
		unchanged = unchanged && lh.tables[i] == tabs[i].t
	}
	vpAssert(unchanged, "C05,C14:pick.level-tables-unchanged")
	if opt.prefixIsKey {
		vpCover("pick.prefix-is-key")
	}
	if useSince {
		vpCover("pick.since")
	}
	vpObserveU64("picked", uint64(len(picked)))
}

// ---------------------------------------------------------------------------------------------
// H-DROPPREFIXTABLES (C29): table-level decisions of DropPrefix.
//
//	(A) compactBuildTables' keepTable closure: a table removed from the compaction without being
//	    read ("all the keys in this table have the dropPrefix") holds only prefixed keys;
//	(B) containsPrefix / containsAnyPrefixes: a table left out of the Li->Li drop compaction holds
//	    no prefixed key;
//	(C) levelsController.dropPrefixes: every table with containsAnyPrefixes is handed to exactly one
//	    runCompactDef call, groups are runs of consecutive tables, in level order bottom-up.
//
// The table content is abstract: smallest, biggest and one arbitrary witness key in between.
// ---------------------------------------------------------------------------------------------
func VpHDropPrefixTables() {
	maxKey := vpParam("dp.keylen", 3)
	tb := vpLvMkTab(7, 1, 1+vpChoose("slen", maxKey), 1+vpChoose("blen", maxKey), 10, time.Time{})
	pre := tb.pre
	np := 1 + vpChoose("nprefixes", vpParam("dp.prefixes", 1))
	var prefixes [][]byte
	for i := 0; i < np; i++ {
		prefixes = append(prefixes, vpBytes("dropPrefix", 1+vpChoose("prefixlen", maxKey)))
	}
	// witness key held by the table
	wu := vpBytes("witness.user", 1+vpChoose("witnesslen", maxKey))
	wts := vpU64("witness.ts")
	pre = vpAnd(pre, vpAnd(vpLvLeq(tb.su, tb.sts, wu, wts), vpLvLeq(wu, wts, tb.bu, tb.bts)))
	// versions are commit timestamps, far below 2^56 (so the first ts byte of a key is 0xff)
	pre = vpAnd(pre, vpAnd(vpAnd(tb.sts >= 1, tb.bts >= 1), wts >= 1))
	pre = vpAnd(pre, vpAnd(vpAnd(tb.sts < 1<<56, tb.bts < 1<<56), wts < 1<<56))
	wHasPrefix := false
	for _, p := range prefixes {
		wHasPrefix = vpOr(wHasPrefix, bytes.HasPrefix(wu, p))
	}
	part := vpChoose("part", 2)
	if part == 0 {
		// ---- (A) real compactBuildTables with one split; sub-compaction and iterators stubbed ----
		vpAssume(pre)
		db := &DB{}
		db.opt.InMemory = true // syncDir is a no-op
		s := &levelsController{kv: db}
		lh := &levelHandler{level: 1, db: db}
		cd := compactDef{thisLevel: lh, nextLevel: lh, bot: []*table.Table{tb.t}, dropPrefixes: prefixes,
			splits: []keyRange{{}}}
		var valid []*table.Table
		concatCalls := 0
		vpStub("badger/table.NewConcatIterator", func(tbls []*table.Table, opt int) *table.ConcatIterator {
			valid = tbls
			concatCalls++
			return &table.ConcatIterator{}
		})
		vpStub("badger/table.NewMergeIterator", func(iters []y.Iterator, reverse bool) y.Iterator { return &vpListIter{} })
		vpStub("(*badger.levelsController).subcompact", func(s *levelsController, it y.Iterator, kr keyRange, cd compactDef, thr *y.Throttle, res chan<- *table.Table) {
		})
		newTables, _, err := s.compactBuildTables(1, cd)
		vpAssert(err == nil && len(newTables) == 0 && concatCalls == 1, "C29:dp.buildtables-ran")
		kept := len(valid) == 1
		if !kept {
			vpCover("dp.table-dropped-wholesale")
			vpAssert(wHasPrefix, "C29:dp.wholesale-drop-only-prefixed-keys")
		} else {
			vpCover("dp.table-kept-for-iteration")
		}
		return
	}
	// ---- (B) real containsAnyPrefixes; the table iterator used by isPresent is an oracle ----
	// Seek(prefix@max) lands on the first key r of the table at or after the seek key, if any.
	var seekKey []byte
	ru := vpBytes("seek.result.user", 1+vpChoose("seekresultlen", maxKey))
	rts := vpU64("seek.result.ts")
	found := vpBool("seek.found")
	seeks := 0
	vpStub("(*badger/table.Table).NewIterator", func(t *table.Table, opt int) *table.Iterator { return &table.Iterator{} })
	vpStub("(*badger/table.Iterator).Close", func(it *table.Iterator) error { return nil })
	vpStub("(*badger/table.Iterator).Seek", func(it *table.Iterator, key []byte) {
		seeks++
		seekKey = key
	})
	vpStub("(*badger/table.Iterator).Key", func(it *table.Iterator) []byte {
		su, sts := y.ParseKey(seekKey), y.ParseTs(seekKey)
		// r is a key of the table, r >= seek key, and no key of the table (the witness in
		// particular) lies in [seek key, r); without a result every key is below the seek key
		inTable := vpAnd(vpLvLeq(tb.su, tb.sts, ru, rts), vpLvLeq(ru, rts, tb.bu, tb.bts))
		okFound := vpAnd(vpAnd(inTable, vpLvLeq(su, sts, ru, rts)),
			vpOr(vpLvLess(wu, wts, su, sts), vpLvLeq(ru, rts, wu, wts)))
		okNone := vpAnd(vpLvLess(wu, wts, su, sts), vpLvLess(tb.bu, tb.bts, su, sts))
		vpAssume(vpIteBool(found, okFound, okNone))
		if found {
			return y.KeyWithTs(ru, rts)
		}
		return nil
	})
	vpAssume(pre)
	contains := containsAnyPrefixes(tb.t, prefixes)
	if !contains {
		vpCover("dp.table-left-out")
		vpAssert(vpNot(wHasPrefix), "C29:dp.left-out-table-has-no-prefixed-key")
	} else {
		vpCover("dp.table-in-drop-compaction")
	}
	if seeks > 0 {
		vpCover("dp.ispresent-seek")
	}
}

// VpHDropPrefixGroups (C29): the real levelsController.dropPrefixes over a level state; the
// compactions themselves (doCompact for L0, runCompactDef for Li->Li) are recorded, not run.
func VpHDropPrefixGroups() {
	maxT := vpParam("dpg.tables", 3)
	db := &DB{}
	db.opt.MaxLevels = 3
	db.opt.BaseLevelSize = 50
	db.opt.BaseTableSize = 50
	db.opt.LevelSizeMultiplier = 2
	db.opt.TableSizeMultiplier = 2
	db.opt.MemTableSize = 50
	db.opt.Logger = nil
	s := &levelsController{kv: db}
	pre := true
	var tabs [3][]*vpLvTab
	id := uint64(10)
	for l := 0; l < 3; l++ {
		lh := &levelHandler{level: l, db: db}
		n := vpChoose("ntables", maxT+1)
		if l == 0 {
			n = vpChoose("l0tables", 2)
		}
		for i := 0; i < n; i++ {
			tabs[l] = append(tabs[l], vpLvMkTab(id, l, 1, 1, 10, time.Time{}))
			id++
		}
		if l > 0 {
			pre = vpAnd(pre, vpLvSorted(tabs[l]))
		}
		lh.tables = vpLvTables(tabs[l])
		s.levels = append(s.levels, lh)
	}
	prefix := vpBytes("dropPrefix", 1)
	vpAssume(pre)
	// containsPrefix is decided by part (B) of VpHDropPrefixTables; here: an arbitrary answer
	contains := make(map[uint64]bool)
	for l := 1; l < 3; l++ {
		for _, tb := range tabs[l] {
			contains[tb.id] = vpBool("containsPrefix")
		}
	}
	vpStub("badger.containsPrefix", func(t *table.Table, prefix []byte) bool { return contains[t.ID()] })
	// order of events
	type ev struct {
		level int
		bot   []*table.Table
	}
	var evs []ev
	vpStub("(*badger.levelsController).doCompact", func(s *levelsController, id int, p compactionPriority) error {
		vpAssert(p.level == 0 && len(p.dropPrefixes) == 1, "C29:dpg.l0-compaction-carries-prefixes")
		evs = append(evs, ev{level: 0})
		return nil
	})
	vpStub("(*badger.levelsController).runCompactDef", func(s *levelsController, id, l int, cd compactDef) error {
		vpAssert(cd.thisLevel == cd.nextLevel && cd.thisLevel.level == l && len(cd.top) == 0 && len(cd.dropPrefixes) == 1, "C29:dpg.same-level-compactdef")
		evs = append(evs, ev{level: l, bot: cd.bot})
		return nil
	})
	vpLvStubTracing()
	err := s.dropPrefixes([][]byte{prefix})
	vpAssert(err == nil, "C29:dpg.no-error")
	// levels are handled bottom-up (oldest data first)
	for i := 1; i < len(evs); i++ {
		vpAssert(evs[i].level <= evs[i-1].level, "C29:dpg.bottom-up")
	}
	for l := 1; l < 3; l++ {
		for i, tb := range tabs[l] {
			has := contains[tb.id]
			cnt := 0
			for _, e := range evs {
				if e.level != l {
					continue
				}
				for j, bt := range e.bot {
					if bt == tb.t {
						cnt++
						// consecutive run of the level's tables
						vpAssert(i-j >= 0 && tabs[l][i-j].t == e.bot[0], "C29:dpg.group-is-consecutive-run")
					}
				}
			}
			vpAssert(cnt <= 1, "C29:dpg.table-in-at-most-one-group")
			// exactly the tables for which containsAnyPrefixes said yes are compacted
			vpAssert(has == (cnt == 1), "C29:dpg.exactly-the-containing-tables-compacted")
			if cnt == 1 {
				vpCover("dpg.table-grouped")
			}
		}
	}
	if len(tabs[0]) > 0 {
		vpAssert(len(evs) > 0 && evs[len(evs)-1].level == 0, "C29:dpg.l0-compacted-last")
		vpCover("dpg.l0")
	}
}

// ---------------------------------------------------------------------------------------------
// H-L0ORDER (C12, C36): two (or three) level-0 tables hold the same internal key; every read
// path must return the entry of the table with the newest data.
// ---------------------------------------------------------------------------------------------

func vpLvIteKey(c bool, a, b []byte) []byte {
	out := make([]byte, len(a))
	for i := range out {
		out[i] = vpIteU8(c, a[i], b[i])
	}
	return out
}

type vpLvL0Tab struct {
	*vpLvTab
	holds bool  // the table holds the shared internal key K
	val   uint8 // value stored under K in this table
	age   int   // larger = newer data (for K)
}

func VpHL0Order() {
	maxT := vpParam("l0o.tables", 3)
	n := 2 + vpChoose("extra", maxT-1)
	ku := vpBytes("K.user", 1)
	kv := vpU64("K.version")
	pre := vpAnd(kv >= 1, kv < 1<<63)
	K := y.KeyWithTs(ku, kv)

	// tables in age order (position = age); file ids ascend with age, as flushes create them
	var tabs []*vpLvL0Tab
	nh := 0
	for i := 0; i < n; i++ {
		tb := &vpLvL0Tab{vpLvTab: vpLvMkTab(uint64(1+i), 0, 1, 1, 10, time.Time{}), age: i}
		tb.holds = vpChoose("holdsK", 2) == 1
		tb.val = vpU8("val")
		pre = vpAnd(pre, tb.pre)
		if tb.holds {
			nh++
			pre = vpAnd(pre, vpAnd(vpLvLeq(tb.su, tb.sts, ku, kv), vpLvLeq(ku, kv, tb.bu, tb.bts)))
		} else {
			pre = vpAnd(pre, vpNot(vpAnd(bytes.Equal(tb.su, ku), tb.sts == kv)))
			pre = vpAnd(pre, vpNot(vpAnd(bytes.Equal(tb.bu, ku), tb.bts == kv)))
		}
		tabs = append(tabs, tb)
	}
	if nh < 2 {
		vpAssume(false) // the harness is about duplicates of one internal key
	}
	byID := func(id uint64) *vpLvL0Tab {
		for _, tb := range tabs {
			if tb.id == id {
				return tb
			}
		}
		return nil
	}

	db := &DB{}
	lh := &levelHandler{level: 0, db: db}

	// ---- environment: table iterators over the abstract content {smallest, K?, biggest} ----
	vpStub("(*badger/table.Table).DecrRef", func(t *table.Table) error { return nil })
	vpStub("(*badger/table.Table).DoesNotHave", func(t *table.Table, hash uint32) bool { return false })
	vpStub("(*badger/table.Table).StaleDataSize", func(t *table.Table) uint32 { return 0 })
	curValid := make(map[uint64]bool)
	curKey := make(map[uint64][]byte)
	vpStub("(*badger/table.Iterator).Close", func(it *table.Iterator) error { return nil })
	vpStub("(*badger/table.Iterator).Seek", func(it *table.Iterator, key []byte) {
		tb := byID(table.VpLvIterTable(it).ID())
		su, sts := y.ParseKey(key), y.ParseTs(key)
		s, b := tb.t.Smallest(), tb.t.Biggest()
		sOK := vpLvLeq(su, sts, tb.su, tb.sts)
		bOK := vpLvLeq(su, sts, tb.bu, tb.bts)
		valid, res := bOK, vpLvIteKey(sOK, s, b)
		if tb.holds {
			if len(key) == len(K) && &key[0] == &K[0] {
				// Seek(K) in a table that holds K lands on K
				valid, res = true, K
			} else {
				kOK := vpLvLeq(su, sts, ku, kv)
				res = vpLvIteKey(sOK, s, vpLvIteKey(kOK, K, b))
			}
		}
		curValid[tb.id], curKey[tb.id] = valid, res
	})
	vpStub("(*badger/table.Iterator).Valid", func(it *table.Iterator) bool { return curValid[table.VpLvIterTable(it).ID()] })
	vpStub("(*badger/table.Iterator).Key", func(it *table.Iterator) []byte { return curKey[table.VpLvIterTable(it).ID()] })
	vpStub("(*badger/table.Iterator).ValueCopy", func(it *table.Iterator) y.ValueStruct {
		tb := byID(table.VpLvIterTable(it).ID())
		// only the entry under K matters; other entries carry a value that is never expected
		return y.ValueStruct{Value: []byte{tb.val}, Meta: 1 << 4}
	})

	vpLvMergeCompare()
	scenario := vpChoose("scenario", 4)
	afterL0L0 := scenario >= 2

	// initial state: as tryAddLevel0Table builds it (append in flush order)
	switch scenario {
	case 1:
		// Open: initTables receives the tables in MANIFEST map order (any order)
		perm := make([]*table.Table, 0, n)
		for i := n - 1; i >= 0; i-- {
			perm = append(perm, tabs[i].t)
		}
		if n == 3 && vpChoose("perm", 2) == 1 {
			perm[0], perm[1] = perm[1], perm[0]
		}
		vpAssume(pre)
		lh.initTables(perm)
		vpCover("l0o.inittables")
	default:
		for _, tb := range tabs {
			lh.tables = append(lh.tables, tb.t)
		}
	}
	if afterL0L0 {
		// an L0->L0 compaction of an arbitrary non-empty subset; the rest is skipped (too big, too
		// young, or part of another compaction). Output: one table with a new, highest file id.
		var inputs, skipped []*vpLvL0Tab
		for _, tb := range tabs {
			if vpChoose("input", 2) == 1 {
				inputs = append(inputs, tb)
			} else {
				skipped = append(skipped, tb)
			}
		}
		left := 0
		inHolds := 0
		for _, tb := range skipped {
			if tb.holds {
				left++
			}
		}
		for _, tb := range inputs {
			if tb.holds {
				inHolds = 1
			}
		}
		if len(inputs) == 0 || left+inHolds < 2 {
			vpAssume(false) // no compaction, or no duplicate of K left afterwards
		}
		m := &vpLvL0Tab{vpLvTab: vpLvMkTab(uint64(n+1), 0, 1, 1, 10, time.Time{}), age: -1}
		pre = vpAnd(pre, m.pre)
		// key range of the output = union of the inputs (entries may be dropped inside, not K)
		anyS, anyB := false, false
		for _, in := range inputs {
			pre = vpAnd(pre, vpAnd(vpLvLeq(m.su, m.sts, in.su, in.sts), vpLvLeq(in.bu, in.bts, m.bu, m.bts)))
			anyS = vpOr(anyS, vpAnd(bytes.Equal(m.su, in.su), m.sts == in.sts))
			anyB = vpOr(anyB, vpAnd(bytes.Equal(m.bu, in.bu), m.bts == in.bts))
			if in.holds {
				// the merge keeps the entry of the newest input (H-MERGE, H-SUBCOMPACT)
				m.holds, m.val, m.age = true, in.val, in.age
			}
		}
		pre = vpAnd(pre, vpAnd(anyS, anyB))
		vpAssume(pre)
		tabs = append(skipped, m)
		// runCompactDef: nextLevel.replaceTables(cd.bot, newTables); thisLevel.deleteTables(cd.top)
		vpAssert(lh.replaceTables(nil, []*table.Table{m.t}) == nil, "C12:l0o.replace-ok")
		vpAssert(lh.deleteTables(vpLvTables(func() []*vpLvTab {
			var o []*vpLvTab
			for _, in := range inputs {
				o = append(o, in.vpLvTab)
			}
			return o
		}())) == nil, "C12:l0o.delete-ok")
		vpCover("l0o.after-l0l0")
		if scenario == 3 {
			// close and re-open: initTables over the surviving tables
			cp := make([]*table.Table, len(lh.tables))
			copy(cp, lh.tables)
			lh.initTables(cp)
			vpCover("l0o.after-l0l0-reopen")
		}
	} else if scenario == 0 {
		vpAssume(pre)
	}

	// ---- expected winner: the holder with the newest data ----
	var want *vpLvL0Tab
	holders := 0
	for _, tb := range tabs {
		if tb.holds {
			holders++
			if want == nil || tb.age > want.age {
				want = tb
			}
		}
	}
	vpAssert(len(lh.tables) == len(tabs), "C14:l0o.table-count")
	vpAssert(holders >= 2, "C12:l0o.duplicate-present")

	// read path 1: levelHandler.get at exactly K
	vs, err := lh.get(K)
	vpAssert(err == nil, "C12:l0o.get-no-error")
	okGet := vpAnd(vs.Version == kv, vpAnd(len(vs.Value) == 1, vs.Value[0] == want.val))
	// values of the holders are made distinguishable by the solver when it looks for a violation
	vpAssertKnown(okGet, "C12,C36,C15:l0o.get-prefers-newest", afterL0L0, "C12-l0l0-shadow")

	// read path 2: iterators; MergeIterator gives precedence to the earlier iterator (H-MERGE)
	for _, reverse := range []bool{false, true} {
		opt := &IteratorOptions{Reverse: reverse}
		iters := lh.appendIterators(nil, opt)
		vpAssert(len(iters) == len(tabs), "C05:l0o.one-iterator-per-table")
		posWant, firstHolder := -1, -1
		for i, it := range iters {
			ti, ok := it.(*table.Iterator)
			vpAssert(ok, "C05:l0o.table-iterator")
			tb := byIDIn(tabs, table.VpLvIterTable(ti).ID())
			if tb.holds && firstHolder < 0 {
				firstHolder = i
			}
			if tb == want {
				posWant = i
			}
		}
		vpAssertKnown(posWant >= 0 && posWant == firstHolder, "C12,C36,C05:l0o.iterators-newest-first", afterL0L0, "C12-l0l0-shadow")
	}
	vpObserveU64("scenario", uint64(scenario))
}

func byIDIn(tabs []*vpLvL0Tab, id uint64) *vpLvL0Tab {
	for _, tb := range tabs {
		if tb.id == id {
			return tb
		}
	}
	return nil
}

// ---------------------------------------------------------------------------------------------
// H-LEVELS (C12, C14): one compaction step from an arbitrary valid level state.
// ---------------------------------------------------------------------------------------------

// user-key overlap of a table with the user-extended range [lo, hi] that getKeyRange produces
func vpLvOverlapsUser(tb *vpLvTab, lo, hi uint8) bool {
	return vpAnd(tb.bu[0] >= lo, tb.su[0] <= hi)
}

// vpLvSide is the footprint of the already-running compaction R on one level.
type vpLvSide struct {
	level  int
	inf    bool
	lo, hi uint8 // user keys of the range [lo@max, hi@0]
	tabs   []*vpLvTab
	kr     keyRange
}

func vpLvRangeOf(lo, hi uint8) keyRange {
	return keyRange{left: y.KeyWithTs([]byte{lo}, 1<<64-1), right: y.KeyWithTs([]byte{hi}, 0)}
}

// oracle for keyRange.overlapsWith on non-empty ranges produced by getKeyRange / infRange
func vpLvKrOverlap(a keyRange, side *vpLvSide) bool {
	if a.inf || side.inf {
		return true
	}
	alo, ahi := a.left[0], a.right[0]
	return vpAnd(alo <= side.hi, side.lo <= ahi)
}

const (
	vpLvNow      = 1000000
	vpLvStaleBig = 10 << 20
)

func VpHLevels() {
	vpLvMergeCompare()
	maxT := vpParam("lv.tables", 2)    // tables per level >= 1
	maxL0 := vpParam("lv.l0tables", 3) // level-0 tables outside the L0->L0 scenario
	maxOut := vpParam("lv.outputs", 1) // output tables of the compaction
	runMode := vpParam("lv.running", 1)

	db := &DB{}
	db.opt.MaxLevels = 3
	db.opt.BaseLevelSize = 25
	db.opt.BaseTableSize = 15
	db.opt.LevelSizeMultiplier = 2
	db.opt.TableSizeMultiplier = 2
	db.opt.MemTableSize = 15
	db.opt.NumLevelZeroTables = 2
	db.opt.NumLevelZeroTablesStall = 8
	discardTs := vpU64("discardTs")
	db.orc = &oracle{isManaged: true, discardTs: discardTs}
	s := &levelsController{kv: db}
	for l := 0; l < 3; l++ {
		s.levels = append(s.levels, &levelHandler{level: l, db: db})
		s.cstatus.levels = append(s.cstatus.levels, &levelCompactStatus{})
	}
	s.cstatus.tables = make(map[uint64]struct{})

	// ---- environment ----
	vpStub("time.Now", func() time.Time { return time.Unix(vpLvNow, 0) })
	all := make(map[uint64]*vpLvTab)
	decr := make(map[uint64]int)
	vpStub("(*badger/table.Table).DecrRef", func(t *table.Table) error { decr[t.ID()]++; return nil })
	vpStub("(*badger/table.Table).StaleDataSize", func(t *table.Table) uint32 { return all[t.ID()].stale })
	vpStub("(*badger.valueLog).updateDiscardStats", func(v *valueLog, stats map[uint32]int64) {})

	// ---- scenario: which level the new compaction N starts from ----
	scenario := vpParam("lv.scenario", -1) // development aid: run one scenario only
	if scenario < 0 {
		scenario = vpChoose("scenario", 5)
	}
	if scenario == 4 {
		vpLvApply(s, maxT, maxL0, maxOut, all, decr)
		return
	}
	lev := scenario
	if scenario == 3 {
		lev = 0
	}
	if lev == 0 {
		vpLvMergeKeyRange()
	}
	old := time.Unix(vpLvNow-100000, 0)
	young := time.Unix(vpLvNow-5, 0)
	var tabs [3][]*vpLvTab
	pre := true
	mk := func(l, i int, size int64, created time.Time) *vpLvTab {
		tb := vpLvMkTab(uint64(10*l+i+1), l, 1, 1, size, created)
		pre = vpAnd(pre, tb.pre)
		all[tb.id] = tb
		tabs[l] = append(tabs[l], tb)
		return tb
	}
	var n [3]int
	special, reason := -1, 0
	adjusted := 1.5
	switch scenario {
	case 0:
		n[0] = 1 + vpChoose("n0", maxL0)
		if n[0] > 2 && runMode == 1 {
			// quick tier: with 3 level-0 tables the lower levels hold at most one table each and
			// no other compaction runs
			n[1], n[2] = vpChoose("n1", 2), vpChoose("n2", 2)
			runMode = 0
		} else {
			n[1], n[2] = vpChoose("n1", maxT+1), vpChoose("n2", maxT+1)
			if runMode == 1 && n[1] > 1 && n[2] > 1 {
				vpAssume(false) // quick tier: at most one of L1, L2 holds more than one table
			}
		}
	case 1:
		n[0], n[1], n[2] = 0, 1+vpChoose("n1", maxT), vpChoose("n2", maxT+1)
	case 2:
		n[0], n[1], n[2] = 0, vpChoose("n1", 2), 1+vpChoose("n2", maxT)
	case 3:
		n[0], n[1], n[2] = 4+vpChoose("extraL0", 2), vpChoose("n1", 2), vpChoose("n2", 2)
		if n[0] == 5 {
			special = vpChoose("special", 5)
			reason = vpChoose("reason", 3) // 0 big, 1 young, 2 input of a running L0->Lbase compaction
			if reason == 2 && special != 0 {
				vpAssume(false) // L0->Lbase takes a prefix of the level
			}
		}
		if reason != 2 || runMode == 1 {
			// score >= 1, adjusted score < 1: only L0->L0 is allowed. With a running L0->Lbase
			// compaction the thorough tier uses 1.5: L0->Lbase is tried first and refused.
			adjusted = 0.5
		}
	}
	l2size := int64(10)
	if n[2] > 0 && (scenario == 0 || scenario == 2) && vpChoose("l2size", 2) == 1 {
		l2size = 30 // decides the base level (scenario 0) / the max-level file size (scenario 2)
	}
	for l := 0; l < 3; l++ {
		for i := 0; i < n[l]; i++ {
			size, created := int64(10), old
			if l == 2 {
				size = l2size
			}
			if l == 0 && i == special && reason == 0 {
				size = 40 // >= 2 * fileSz[0]
			}
			if l == 0 && i == special && reason == 1 {
				created = young
			}
			mk(l, i, size, created)
		}
		if l > 0 {
			// C14 invariant, strong form: sorted, disjoint, no user key in two tables
			for i := 1; i < n[l]; i++ {
				pre = vpAnd(pre, tabs[l][i-1].bu[0] < tabs[l][i].su[0])
			}
		}
		s.levels[l].tables = vpLvTables(tabs[l])
		for _, tb := range tabs[l] {
			s.levels[l].totalSize += tb.size
		}
	}
	if scenario == 2 {
		// stale data / age of the max-level tables decide which one is rewritten
		st := vpChoose("stale", n[2]+1)
		for i, tb := range tabs[2] {
			if i+1 == st {
				tb.stale = vpLvStaleBig
			}
		}
		if vpChoose("recent", 2) == 1 {
			tabs[2][0].t.CreatedAt = time.Unix(vpLvNow-60, 0)
		}
	}
	vpAssume(pre)
	for l := 0; l < 3; l++ {
		vpAssert(len(s.levels[l].tables) == n[l], "C14:lv.setup")
		for i, tb := range tabs[l] {
			vpAssert(s.levels[l].tables[i] == tb.t, "C14:lv.setup")
		}
	}

	// ---- the compaction definition, as doCompact builds it ----
	t := s.levelTargets()
	vpAssert(t.baseLevel >= 1 && t.baseLevel <= 2, "C12:lv.base-level-in-range")
	p := compactionPriority{level: lev, score: 1.5, adjusted: adjusted, t: t}
	if scenario == 0 && vpChoose("dropPrefix", 2) == 1 {
		p.dropPrefixes = [][]byte{vpBytes("dropPrefix", 1)}
		p.adjusted = 0 // dropPrefixes does not set it
		runMode = 0    // DropPrefix stops the compactors first
	}
	cd := compactDef{compactorId: 0, p: p, t: p.t, thisLevel: s.levels[lev], dropPrefixes: p.dropPrefixes}
	if lev == 0 {
		cd.nextLevel = s.levels[t.baseLevel]
	} else {
		cd.nextLevel = cd.thisLevel
		if !cd.thisLevel.isLastLevel() {
			cd.nextLevel = s.levels[lev+1]
		}
	}
	x, yv := lev, cd.nextLevel.level

	// ---- the already-running compaction R: footprint on the levels N can touch ----
	var sides []*vpLvSide
	rpre := true
	mkSide := func(l int, run []*vpLvTab) *vpLvSide {
		sd := &vpLvSide{level: l, lo: vpU8("R.lo"), hi: vpU8("R.hi"), tabs: run}
		rpre = vpAnd(rpre, sd.lo <= sd.hi)
		inRun := make(map[uint64]bool)
		for _, tb := range run {
			inRun[tb.id] = true
			rpre = vpAnd(rpre, vpAnd(sd.lo <= tb.su[0], tb.bu[0] <= sd.hi))
		}
		if l > 0 {
			// tables of a level >= 1 that overlap the range are inputs of R
			for _, tb := range tabs[l] {
				if !inRun[tb.id] {
					rpre = vpAnd(rpre, vpNot(vpLvOverlapsUser(tb, sd.lo, sd.hi)))
				}
			}
		}
		sd.kr = vpLvRangeOf(sd.lo, sd.hi)
		return sd
	}
	// runs of consecutive tables of a level >= 1 (the empty run included)
	runsOf := func(l int) [][]*vpLvTab {
		out := [][]*vpLvTab{nil}
		for lo := 0; lo < n[l]; lo++ {
			for hi := lo + 1; hi <= n[l]; hi++ {
				if runMode == 1 && hi-lo > 1 {
					continue // quick tier: R holds at most one table per level >= 1
				}
				out = append(out, tabs[l][lo:hi])
			}
		}
		return out
	}
	type ropt struct {
		a, b   int
		ia, ib int // run / prefix index on level a and b (-1: level not touched by N, canonical)
	}
	var ropts []ropt
	touched := func(l int) bool { return l == x || l == yv || (scenario == 3 && l == 0) }
	if runMode > 0 && !(scenario == 3 && reason != 2) {
		for _, ab := range [][2]int{{0, 1}, {0, 2}, {1, 2}, {2, 2}} {
			a, b := ab[0], ab[1]
			if !touched(a) && !touched(b) {
				continue
			}
			if scenario == 3 && a != 0 {
				continue
			}
			var ias, ibs []int
			if !touched(a) {
				ias = []int{-1}
			} else if a == 0 {
				for k := 1; k <= n[0]; k++ {
					if (scenario == 3 || runMode == 1) && k != 1 {
						continue // quick tier: R holds the oldest L0 table only
					}
					ias = append(ias, k)
				}
			} else {
				for i := 0; i < n[a]; i++ {
					ias = append(ias, i)
				}
			}
			if a == b {
				ibs = []int{0}
				ias = nil
				for i := 1; i < len(runsOf(a)); i++ { // non-empty runs
					ias = append(ias, i)
				}
			} else if !touched(b) || (a == 0 && touched(a) && runMode == 1) {
				// level not touched by N, or (quick tier) R already blocks N on level 0
				ibs = []int{-1}
			} else {
				for i := range runsOf(b) {
					ibs = append(ibs, i)
				}
			}
			for _, ia := range ias {
				for _, ib := range ibs {
					ropts = append(ropts, ropt{a, b, ia, ib})
				}
			}
		}
	}
	if scenario == 3 && reason == 2 && len(ropts) == 0 {
		vpAssume(false)
	}
	ri := -1
	if len(ropts) > 0 {
		if scenario == 3 && reason == 2 {
			ri = vpChoose("running", len(ropts))
		} else {
			ri = vpChoose("running", len(ropts)+1) - 1
		}
	}
	if ri >= 0 {
		o := ropts[ri]
		if o.a == o.b {
			sides = append(sides, mkSide(o.a, runsOf(o.a)[o.ia]))
		} else {
			var runA []*vpLvTab
			switch {
			case o.ia < 0:
			case o.a == 0:
				runA = tabs[0][:o.ia]
			default:
				runA = tabs[o.a][o.ia : o.ia+1]
			}
			sides = append(sides, mkSide(o.a, runA))
			var runB []*vpLvTab
			if o.ib >= 0 {
				runB = runsOf(o.b)[o.ib]
			}
			sides = append(sides, mkSide(o.b, runB))
		}
		vpAssume(rpre)
		for _, sd := range sides {
			s.cstatus.levels[sd.level].ranges = append(s.cstatus.levels[sd.level].ranges, sd.kr)
			for _, tb := range sd.tabs {
				tb.inR = true
				s.cstatus.tables[tb.id] = struct{}{}
			}
		}
		vpCover("lv.running-compaction")
	}
	nR := len(s.cstatus.tables)
	sidesOn := func(l int) int {
		c := 0
		for _, sd := range sides {
			if sd.level == l {
				c++
			}
		}
		return c
	}
	statusIsR := func() bool {
		ok := len(s.cstatus.tables) == nR
		for l := 0; l < 3; l++ {
			ok = ok && len(s.cstatus.levels[l].ranges) == sidesOn(l)
		}
		for _, tb := range all {
			_, in := s.cstatus.tables[tb.id]
			ok = ok && in == tb.inR
		}
		return ok
	}

	// ---- real selection ----
	var accepted bool
	if lev == 0 {
		accepted = s.fillTablesL0(&cd)
	} else {
		accepted = s.fillTables(&cd)
	}
	if !accepted {
		vpCover("lv.rejected")
		vpAssert(statusIsR(), "C14:lv.rejected-leaves-status-unchanged")
		return
	}
	yv = cd.nextLevel.level // L0->L0 redirects the output level
	kind := "lv.level-to-level"
	switch {
	case x == 0 && yv == 0:
		kind = "lv.l0-to-l0"
	case x == 0:
		kind = "lv.l0-to-base"
	case x == yv:
		kind = "lv.max-level"
	}
	vpCover(kind)

	// inputs, mapped back to the harness view
	pos := func(l int, tb *vpLvTab) int {
		for i, o := range tabs[l] {
			if o == tb {
				return i
			}
		}
		return -1
	}
	isInput := make(map[uint64]bool)
	var top, bot, inputs []*vpLvTab
	for _, tt := range cd.top {
		tb := all[tt.ID()]
		vpAssert(tb != nil && tb.level == x && !isInput[tb.id], "C14:lv.top-from-this-level")
		isInput[tb.id] = true
		top = append(top, tb)
	}
	for _, tt := range cd.bot {
		tb := all[tt.ID()]
		vpAssert(tb != nil && tb.level == yv && !isInput[tb.id], "C14:lv.bot-from-next-level")
		isInput[tb.id] = true
		bot = append(bot, tb)
	}
	inputs = append(append(inputs, top...), bot...)
	vpAssert(len(top) > 0, "C12:lv.top-not-empty")
	for i := 1; i < len(bot); i++ {
		vpAssert(pos(yv, bot[i]) == pos(yv, bot[i-1])+1, "C14:lv.bot-is-a-run")
	}
	if x == yv && x > 0 && len(bot) > 0 {
		vpAssert(len(top) == 1 && pos(yv, bot[0]) == pos(x, top[0])+1, "C14:lv.bot-is-a-run")
	}
	// user-extended ranges
	rangeOf := func(ts []*vpLvTab) (uint8, uint8) {
		lo, hi := ts[0].su[0], ts[0].bu[0]
		for _, tb := range ts[1:] {
			lo = vpIteU8(tb.su[0] < lo, tb.su[0], lo)
			hi = vpIteU8(tb.bu[0] > hi, tb.bu[0], hi)
		}
		return lo, hi
	}
	topLo, topHi := rangeOf(top)
	allLo, allHi := rangeOf(inputs)

	// (b) every table of the output level that overlaps the moved range is an input
	if x != yv {
		complete := true
		for _, tb := range tabs[yv] {
			if !isInput[tb.id] {
				complete = vpAnd(complete, vpNot(vpLvOverlapsUser(tb, topLo, topHi)))
			}
		}
		for _, tb := range bot {
			complete = vpAnd(complete, vpLvOverlapsUser(tb, topLo, topHi))
		}
		vpAssert(complete, "C12,C14:lv.bot-complete")
		// levels strictly between: the moved data must not pass older data
		between := true
		for l := x + 1; l < yv; l++ {
			for _, tb := range tabs[l] {
				between = vpAnd(between, vpNot(vpLvOverlapsUser(tb, topLo, topHi)))
				vpCover("lv.level-skipped")
			}
		}
		vpAssert(between, "C12:lv.no-table-between-this-and-next-level")
	}
	// (f) L0 -> Lbase takes the oldest tables: what stays behind and overlaps is newer.
	if x == 0 && yv > 0 {
		// the general form: an unpicked L0 table overlapping the union range of the picked tables
		// (= the key range of the output) is newer than EVERY picked table, i.e. the picked tables
		// are a prefix, in age order, of the L0 tables overlapping the final range
		newestPicked := -1
		for _, mv := range top {
			if pos(0, mv) > newestPicked {
				newestPicked = pos(0, mv)
			}
		}
		prefix := true
		for _, stay := range tabs[0] {
			if !isInput[stay.id] && pos(0, stay) < newestPicked {
				prefix = vpAnd(prefix, vpNot(vpLvOverlapsUser(stay, topLo, topHi)))
			}
		}
		vpAssert(prefix, "C12:lv.l0-pick-is-age-prefix-of-overlapping")
	}
	// (c) exclusion with the running compaction
	for _, tb := range inputs {
		vpAssert(!tb.inR, "C12,C14:lv.no-table-in-two-compactions")
	}
	excl := true
	for _, sd := range sides {
		if sd.level == x && !(x == 0 && yv == 0) {
			excl = vpAnd(excl, vpNot(vpLvKrOverlap(cd.thisRange, sd)))
		}
		if sd.level == yv && !(x == 0 && yv == 0) {
			excl = vpAnd(excl, vpNot(vpLvKrOverlap(cd.nextRange, sd)))
		}
	}
	vpAssert(excl, "C12,C14:lv.ranges-exclusive")
	vpAssert(len(s.cstatus.tables) == nR+len(inputs), "C14:lv.status-holds-inputs")

	// (d),(e) hasOverlap as the real subcompact computes it (empty iterator: prologue only)
	called, hasOverlap, gotLev, gotN := 0, false, -1, -1
	vpStub("(*badger.levelsController).checkOverlap", func(s *levelsController, tables []*table.Table, lv int) bool {
		r := s.checkOverlap(tables, lv) // the real one
		called++
		hasOverlap, gotLev, gotN = r, lv, len(tables)
		return r
	})
	s.subcompact(&vpListIter{}, keyRange{}, cd, y.NewThrottle(1), make(chan *table.Table, 1))
	vpAssert(called == 1 && gotLev == yv+1 && gotN == len(inputs), "C12:lv.subcompact-prologue")
	lower := false
	for l := yv + 1; l < 3; l++ {
		for _, tb := range tabs[l] {
			lower = vpOr(lower, vpLvOverlapsUser(tb, allLo, allHi))
		}
	}
	vpAssert(vpImplies(lower, hasOverlap), "C12:lv.checkoverlap-sound")
	older := lower
	if yv == 0 {
		newest := -1
		for _, tb := range top {
			if pos(0, tb) > newest {
				newest = pos(0, tb)
			}
		}
		for _, tb := range tabs[0] {
			if !isInput[tb.id] && pos(0, tb) < newest {
				older = vpOr(older, vpLvOverlapsUser(tb, allLo, allHi))
				vpCover("lv.l0l0-older-table-skipped")
			}
		}
	}

	// the compaction ends: its footprint is removed from the status (the output is applied in
	// scenario 4 from an arbitrary selection with the properties asserted above)
	s.cstatus.delete(cd)
	vpAssert(statusIsR(), "C14:lv.status-restored")
	vpObserveU64("inputs", uint64(len(inputs)))
	// (e) the tombstone-drop condition (last, because a known violation may end the path)
	vpAssertKnown(vpImplies(older, hasOverlap), "C12,C29,C33:lv.no-overlap-means-no-older-version-left", yv == 0, "C12-l0l0-tombstone")
}

// vpLvApply (scenario 4 of H-LEVELS): the output of a compaction is installed with the real
// replaceTables / deleteTables. The selection is arbitrary within what scenarios 0-3 assert about
// the real selection code (assume-guarantee): bot is a run of the next level, every bot table
// overlaps the user-extended range of top, no other table of the next level does; for a
// max-level rewrite top and bot form one run. The output is arbitrary but legal: sorted, one
// table per user key, inside [smallest input key, biggest input key].
func vpLvApply(s *levelsController, maxT, maxL0, maxOut int, all map[uint64]*vpLvTab, decr map[uint64]int) {
	kinds := [][2]int{{0, 1}, {0, 2}, {1, 2}, {2, 2}, {0, 0}}
	k := kinds[vpChoose("kind", len(kinds))]
	x, yv := k[0], k[1]
	var tabs [3][]*vpLvTab
	pre := true
	gen := func(l, cnt int) {
		for i := 0; i < cnt; i++ {
			tb := vpLvMkTab(uint64(10*l+i+1), l, 1, 1, 10, time.Time{})
			pre = vpAnd(pre, tb.pre)
			if l > 0 && i > 0 {
				pre = vpAnd(pre, tabs[l][i-1].bu[0] < tb.su[0])
			}
			all[tb.id] = tb
			tabs[l] = append(tabs[l], tb)
			s.levels[l].totalSize += tb.size
		}
		s.levels[l].tables = vpLvTables(tabs[l])
	}
	if x == 0 {
		gen(0, 1+vpChoose("nthis", maxL0))
	} else {
		gen(x, 1+vpChoose("nthis", maxT))
	}
	if yv != x {
		gen(yv, vpChoose("nnext", maxT+1))
	}
	var top, bot []*vpLvTab
	isInput := make(map[uint64]bool)
	switch {
	case x == 0:
		// L0->Lbase takes a prefix, L0->L0 any subset: deleteTables must cope with any subset
		mask := 1 + vpChoose("topset", 1<<len(tabs[0])-1)
		for i, tb := range tabs[0] {
			if mask&(1<<i) != 0 {
				top = append(top, tb)
			}
		}
	default:
		ti := vpChoose("top", len(tabs[x]))
		top = tabs[x][ti : ti+1]
		if x == yv {
			bot = tabs[x][ti+1 : ti+1+vpChoose("botlen", len(tabs[x])-ti)]
		}
	}
	if x != yv && len(tabs[yv]) > 0 {
		lo := vpChoose("botlo", len(tabs[yv]))
		bot = tabs[yv][lo : lo+vpChoose("botlen", len(tabs[yv])-lo+1)]
	}
	inputs := append(append([]*vpLvTab(nil), top...), bot...)
	for _, tb := range inputs {
		isInput[tb.id] = true
	}
	if x != yv {
		lo, hi := top[0].su[0], top[0].bu[0]
		for _, tb := range top[1:] {
			lo = vpIteU8(tb.su[0] < lo, tb.su[0], lo)
			hi = vpIteU8(tb.bu[0] > hi, tb.bu[0], hi)
		}
		for _, tb := range tabs[yv] {
			pre = vpAnd(pre, vpLvOverlapsUser(tb, lo, hi) == isInput[tb.id])
		}
	}
	nOut := vpChoose("outputs", maxOut+1)
	if yv == 0 && nOut > 1 {
		vpAssume(false) // L0->L0 writes one file
	}
	var outs []*vpLvTab
	for i := 0; i < nOut; i++ {
		o := vpLvMkTab(uint64(31+i), yv, 1, 1, 10, time.Unix(vpLvNow, 0))
		all[o.id] = o
		pre = vpAnd(pre, o.pre)
		ge, le := false, false
		for _, in := range inputs {
			ge = vpOr(ge, vpLvLeq(in.su, in.sts, o.su, o.sts))
			le = vpOr(le, vpLvLeq(o.bu, o.bts, in.bu, in.bts))
		}
		pre = vpAnd(pre, vpAnd(ge, le))
		if i > 0 {
			pre = vpAnd(pre, outs[i-1].bu[0] < o.su[0])
		}
		outs = append(outs, o)
	}
	vpAssume(pre)
	cd := compactDef{thisLevel: s.levels[x], nextLevel: s.levels[yv], top: vpLvTables(top), bot: vpLvTables(bot)}
	// runCompactDef: replaceTables on the next level first, then deleteTables on this level
	vpAssert(cd.nextLevel.replaceTables(cd.bot, vpLvTables(outs)) == nil, "C14:lv.replace-ok")
	vpAssert(cd.thisLevel.deleteTables(cd.top) == nil, "C14:lv.delete-ok")
	vpCover("lv.output-applied")
	if nOut > 0 && len(bot) < len(tabs[yv]) && yv > 0 {
		vpCover("lv.output-next-to-untouched-table")
	}

	// (a) invariant re-established
	strong := true
	for l := 0; l < 3; l++ {
		lh := s.levels[l]
		want := 0
		var sz int64
		for _, tb := range tabs[l] {
			if !isInput[tb.id] {
				want++
				sz += tb.size
			}
		}
		if l == yv {
			want += nOut
			sz += int64(10 * nOut)
		}
		vpAssert(len(lh.tables) == want && lh.totalSize == sz, "C14,C28:lv.level-content-and-size")
		for _, tt := range lh.tables {
			tb := all[tt.ID()]
			vpAssert(!isInput[tb.id] && tb.level == l, "C14:lv.inputs-gone")
		}
		if l == 0 {
			continue
		}
		vpAssert(lh.validate() == nil, "C14:lv.validate")
		for i := 1; i < len(lh.tables); i++ {
			a, b := all[lh.tables[i-1].ID()], all[lh.tables[i].ID()]
			strong = vpAnd(strong, a.bu[0] < b.su[0])
		}
	}
	vpAssert(strong, "C14:lv.one-table-per-user-key")
	for _, tb := range all {
		wantDecr := 0
		if isInput[tb.id] {
			wantDecr = 1
		}
		vpAssert(decr[tb.id] == wantDecr, "C14:lv.decref-exactly-the-inputs")
	}
	vpObserveU64("outputs", uint64(nOut))
}

package badger

import (
	"bufio"
	"bytes"
	"hash/crc32"

	"github.com/dgraph-io/badger/v4/pb"
	"github.com/dgraph-io/badger/v4/y"
	"github.com/dgraph-io/ristretto/v2/z"
)

// vpNewLogFile builds a logFile directly over an in-memory Data buffer (no file, no mmap: a
// z.MmapFile whose Data is a plain slice and whose Fd is nil). The buffer is pre-filled with
// arbitrary (symbolic) bytes standing for whatever an earlier use of the file left behind, so
// that zeroNextEntry is observable.
func vpNewLogFile(size int, fid uint32, enc bool) *logFile {
	data := vpBytes("stale", size)
	lf := &logFile{MmapFile: &z.MmapFile{Data: data}, fid: fid, writeAt: vlogHeaderSize, path: "vp.vlog"}
	lf.size.Store(uint32(size))
	// the 20-byte file header: keyID(8) | baseIV(12); bootstrap writes it, here it is arbitrary
	lf.baseIV = data[8:vlogHeaderSize]
	if enc {
		lf.dataKey = &pb.DataKey{KeyId: 1, Data: vpBytes("datakey", 16)}
	}
	return lf
}

type vpRec struct {
	e    *Entry
	off  uint32
	plen uint32
	hlen int
}

func vpSameEntry(got *Entry, want *Entry) bool {
	return vpAnd(vpAnd(bytes.Equal(got.Key, want.Key), bytes.Equal(got.Value, want.Value)),
		vpAnd(got.ExpiresAt == want.ExpiresAt, vpAnd(got.meta == want.meta, got.UserMeta == want.UserMeta)))
}

// vpShape bounds one written entry: key 1..maxK bytes, value 0..maxV bytes, expiresAt < 2^expBits
// (the varint length of expiresAt forks the path: 10 ways at 64 bits).
type vpShape struct{ maxK, maxV, expBits int }

// vpWriteEntries writes n entries with the REAL writeEntry (encodeEntry, zeroNextEntry).
// plainMeta: meta without bitTxn/bitFinTxn; otherwise all 256 metas.
func vpWriteEntries(lf *logFile, n int, shape func(i int) vpShape, plainMeta bool) []vpRec {
	var buf bytes.Buffer
	var recs []vpRec
	for i := 0; i < n; i++ {
		sh := shape(i)
		kl := 1 + vpChoose("klen", sh.maxK)
		vl := vpChoose("vlen", sh.maxV+1)
		e := &Entry{Key: vpBytes("key", kl), Value: vpBytes("val", vl), ExpiresAt: vpU64("exp"),
			meta: vpU8("meta"), UserMeta: vpU8("umeta")}
		if sh.expBits < 64 {
			vpAssume(e.ExpiresAt < uint64(1)<<uint(sh.expBits))
		}
		if plainMeta {
			vpAssume(e.meta&(bitTxn|bitFinTxn) == 0)
		}
		off := lf.writeAt
		if err := lf.writeEntry(&buf, e, lf.opt); err != nil {
			vpAssert(false, "C16:logrt.write.noerror")
		}
		plen := lf.writeAt - off
		var h header
		hl := h.Decode(lf.Data[off:])
		recs = append(recs, vpRec{e: e, off: off, plen: plen, hlen: hl})
		// written length = header + key + value + crc
		vpAssert(int(plen) == hl+kl+vl+crc32.Size, "C16:logrt.write.len")
		vpAssert(buf.Len() == int(plen), "C16:logrt.write.buflen")
		// the next header is zeroed (crash tolerance, C09): an iterator stops here
		zeroed := true
		for j := int(lf.writeAt); j < int(lf.writeAt)+maxHeaderSize && j < len(lf.Data); j++ {
			zeroed = vpAnd(zeroed, lf.Data[j] == 0)
		}
		vpAssert(zeroed, "C16,C09:logrt.zero-next-header")
	}
	return recs
}

// H-LOGRT: write 1..N entries with the real writeEntry, read them back through every real
// read path: decodeEntry, safeRead.Entry, logFile.iterate, valueLog.Read.
// CRC mode uf (see engine/intr_crc.go). Encryption: vpParam logrt.enc (0 off, 1 on, 2 both).
func VpHLogRT() {
	maxN := vpParam("logrt.entries", 2)
	maxK := vpParam("logrt.maxkey", 2)
	maxV := vpParam("logrt.maxval", 2)
	encMode := vpParam("logrt.enc", 0)
	enc := encMode == 1
	if encMode == 2 {
		enc = vpChoose("enc", 2) == 1
	}
	n := 1 + vpChoose("entries", maxN)
	fid := vpU32("fid")
	lf := vpNewLogFile(vlogHeaderSize+n*(maxHeaderSize+maxK+maxV+crc32.Size)+maxHeaderSize, fid, enc)
	if enc {
		vpCover("logrt.encrypted")
	} else {
		vpCover("logrt.plain")
	}
	// expiresAt: first entry full 64 bits, later entries < 2^logrt.exp2 (quick tier: fewer varint shapes)
	exp2 := vpParam("logrt.exp2", 64)
	recs := vpWriteEntries(lf, n, func(i int) vpShape {
		if i == 0 {
			return vpShape{maxK, maxV, 64}
		}
		return vpShape{maxK, maxV, exp2}
	}, false)
	if n > 1 {
		vpCover("logrt.two-entries")
	}

	for i, r := range recs {
		// (1) decodeEntry on the record bytes at the recorded offset (= what valueLog.Read and GC use)
		d, err := lf.decodeEntry(lf.Data[r.off:r.off+r.plen], r.off)
		vpAssert(err == nil, "C16:logrt.decode.noerror")
		vpAssert(vpSameEntry(d, r.e), "C16,C23:logrt.decode.roundtrip")
		vpAssert(d.offset == r.off, "C16:logrt.decode.offset")

		// (2) safeRead.Entry from a reader positioned at the record
		sr := &safeRead{k: make([]byte, 10), v: make([]byte, 10), recordOffset: r.off, lf: lf}
		g, err := sr.Entry(bufio.NewReader(lf.NewReader(int(r.off))))
		vpAssert(err == nil && g != nil, "C16:logrt.saferead.accepts-intact")
		if err != nil || g == nil {
			return
		}
		vpAssert(vpSameEntry(g, r.e), "C16,C23:logrt.saferead.roundtrip")
		vpAssert(g.offset == r.off && g.hlen == r.hlen, "C16:logrt.saferead.offset-hlen")
		if i == 0 {
			vpObserveBytes("key0", g.Key)
			vpObserveU64("exp0", g.ExpiresAt)
		}

		// (3) stored bytes: plain log holds key|value verbatim after the header; an encrypted log
		// holds plain xor keystream(dataKey, baseIV||offset) - checked through the inverse below
		if !enc {
			vpAssert(bytes.Equal(lf.Data[int(r.off)+r.hlen:int(r.off)+r.hlen+len(r.e.Key)], r.e.Key), "C16:logrt.layout.key")
		}
	}

	// (4) valueLog.Read(vp) returns the value (with and without VerifyValueChecksum)
	vlog := &valueLog{filesMap: map[uint32]*logFile{fid: lf}, maxFid: fid, db: &DB{}} // db only for opt.MetricsEnabled (false)
	vlog.opt.VerifyValueChecksum = vpBool("verifyChecksum")
	vlog.writableLogOffset.Store(lf.writeAt)
	for _, r := range recs {
		val, cb, err := vlog.Read(valuePointer{Fid: fid, Len: r.plen, Offset: r.off}, new(y.Slice))
		vpAssert(err == nil, "C16,C06:logrt.vlogread.noerror")
		if err != nil {
			return
		}
		vpAssert(bytes.Equal(val, r.e.Value), "C16,C06,C23:logrt.vlogread.value")
		runCallback(cb)
	}

	// (5) iterate: write order, value pointers, end offset. Non-transactional metas here; the
	// transaction grouping is H-WALITER's subject.
	for _, r := range recs {
		vpAssume(r.e.meta&(bitTxn|bitFinTxn) == 0)
	}
	seen := 0
	end, err := lf.iterate(true, 0, func(e Entry, vp valuePointer) error {
		vpAssert(seen < len(recs), "C16:logrt.iterate.no-extra-entry")
		if seen >= len(recs) {
			return errStop
		}
		r := recs[seen]
		vpAssert(vpSameEntry(&e, r.e), "C16,C23:logrt.iterate.entry-in-write-order")
		vpAssert(vp.Fid == fid && vp.Offset == r.off && vp.Len == r.plen, "C16,C06:logrt.iterate.vptr")
		seen++
		return nil
	})
	vpAssert(err == nil, "C16:logrt.iterate.noerror")
	vpAssert(seen == len(recs), "C16:logrt.iterate.count")
	vpAssert(end == lf.writeAt, "C16,C09:logrt.iterate.endoffset")
	vpCover("logrt.iterated")
}

// H-LOGRT (corruption clause, uf-CRC): alter one stored byte of the last record and read it with
// the real safeRead.Entry.
//   - a stored checksum byte altered: the recomputed sum is the same term as at write time, the
//     stored one differs -> errTruncate, unconditionally.
//   - a meta / userMeta / key / value byte altered: the record is rejected with errTruncate UNLESS
//     crc(altered bytes) = crc(original bytes). Under the uninterpreted crcstep that collision cannot
//     be excluded by the solver (nothing is assumed about unequal streams); it is excluded for
//     single-byte alterations by the real-table lemmas L1+L2 of y.VpHCrcLemmas plus induction over
//     the unchanged suffix (on paper). What this harness decides is that the reader's comparison
//     covers every header/key/value byte and the stored sum.
//
// Length bytes (klen/vlen/expiresAt varints) are not altered: a corrupted length changes the
// record shape (symbolic slice lengths) - outside, see DESIGN C16.
func VpHLogCorrupt() {
	maxK := vpParam("logrt.maxkey", 2)
	maxV := vpParam("logrt.maxval", 2)
	enc := vpParam("logrt.enc", 0) == 1
	fid := vpU32("fid")
	n := 1 + vpChoose("entries", 2)
	lf := vpNewLogFile(vlogHeaderSize+n*(maxHeaderSize+maxK+maxV+crc32.Size)+maxHeaderSize, fid, enc)
	// the altered record is the last one (all shapes, expiresAt 64-bit); an optional record before
	// it (1-byte key, 0..1-byte value, expiresAt < 128) only moves it to another offset
	recs := vpWriteEntries(lf, n, func(i int) vpShape {
		if i == n-1 {
			return vpShape{maxK, maxV, 64}
		}
		return vpShape{1, 1, 7}
	}, false)
	r := recs[len(recs)-1]
	orig := append([]byte{}, lf.Data[r.off:r.off+r.plen]...)
	body := int(r.plen) - crc32.Size
	sumOrig := crc32.Checksum(orig[:body], y.CastagnoliCrcTable)

	// positions that may be altered: meta, userMeta, key and value bytes, checksum bytes
	var pos []int
	pos = append(pos, 0, 1)
	for j := r.hlen; j < int(r.plen); j++ {
		pos = append(pos, j)
	}
	p := pos[vpChoose("pos", len(pos))]
	x := vpU8("xor")
	vpAssume(x != 0)
	lf.Data[int(r.off)+p] ^= x

	sr := &safeRead{k: make([]byte, 10), v: make([]byte, 10), recordOffset: r.off, lf: lf}
	g, err := sr.Entry(bufio.NewReader(lf.NewReader(int(r.off))))
	if p >= body {
		vpCover("corrupt.crc-byte")
		vpAssert(err == errTruncate && g == nil, "C16,C09:logrt.corrupt.stored-crc-rejected")
		return
	}
	vpCover("corrupt.payload-byte")
	sumAlt := crc32.Checksum(lf.Data[r.off:int(r.off)+body], y.CastagnoliCrcTable)
	if err == nil {
		vpCover("corrupt.payload-accepted-only-on-collision")
		vpAssert(sumAlt == sumOrig, "C16,C09:logrt.corrupt.payload-rejected-unless-crc-collision")
		return
	}
	vpAssert(err == errTruncate && g == nil, "C16,C09:logrt.corrupt.payload-errTruncate")
}

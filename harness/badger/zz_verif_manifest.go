package badger

import (
	"bufio"
	"encoding/binary"
	"errors"
	"hash/crc32"
	"io"
	"os"
	"time"

	"google.golang.org/protobuf/proto"

	"github.com/dgraph-io/badger/v4/options"
	"github.com/dgraph-io/badger/v4/pb"
	"github.com/dgraph-io/badger/v4/y"
)

// H-MANIFEST: the real manifestFile.addChanges / rewrite / helpRewrite / applyChangeSet /
// applyManifestChange / Manifest.asChanges / clone / ReplayManifestFile (with the real
// countingReader, bufio.Reader, io.ReadFull, y.Open*File, syncDir) over an abstract
// in-memory file system. Trusted stubs (all in this file):
//   * proto.Marshal / proto.Unmarshal -> opaque codec: an empty change set encodes to zero
//     bytes (as protobuf does), a non-empty one to {0xA5, table index+1}; anything else
//     fails to decode.
//   * crc32: the engine's model (intr_crc.go, uf mode: concrete bytes get the real CRC-32C,
//     symbolic bytes an uninterpreted step function). With -params man.crcstub=1 the harness
//     function vpMCrc is used instead (opaque, crc(empty)=0, one altered byte alters the sum).
//   * os.OpenFile, (*os.File).Write/Read/Sync/Close/Stat/Seek/Truncate, os.Rename,
//     badger.openDir -> vpMFS below. No I/O call fails.

// ---------- abstract file system ----------

type vpMFile struct {
	data   []byte
	synced int // length of the prefix covered by a Sync
}

type vpMHandle struct {
	fp     *os.File
	name   string
	f      *vpMFile
	pos    int
	closed bool
	dir    bool
}

type vpMFS struct {
	files   map[string]*vpMFile
	hs      []*vpMHandle
	ev      []string
	renames int
	bad     string // first misuse of a handle seen by a stub
}

type vpMInfo struct{ n int64 }

func (i vpMInfo) Name() string       { return "MANIFEST" }
func (i vpMInfo) Size() int64        { return i.n }
func (i vpMInfo) Mode() os.FileMode  { return 0600 }
func (i vpMInfo) ModTime() time.Time { return time.Time{} }
func (i vpMInfo) IsDir() bool        { return false }
func (i vpMInfo) Sys() interface{}   { return nil }

var vpErrMFS = errors.New("vp: abstract file system: bad handle use")

func (fs *vpMFS) event(s string) {
	fs.ev = append(fs.ev, s)
	vpEvent(s)
}

func (fs *vpMFS) handle(fp *os.File) *vpMHandle {
	for _, h := range fs.hs {
		if h.fp == fp {
			return h
		}
	}
	return nil
}

func (fs *vpMFS) use(fp *os.File, op string) *vpMHandle {
	h := fs.handle(fp)
	if h == nil || h.closed {
		if fs.bad == "" {
			fs.bad = op + " on a closed or unknown file"
		}
		return nil
	}
	return h
}

func (fs *vpMFS) open(name string, f *vpMFile, dir bool) *os.File {
	fp := new(os.File)
	fs.hs = append(fs.hs, &vpMHandle{fp: fp, name: name, f: f, dir: dir})
	return fp
}

func vpNewMFS() *vpMFS {
	fs := &vpMFS{files: map[string]*vpMFile{}}
	vpStub("os.OpenFile", func(name string, flag int, perm os.FileMode) (*os.File, error) {
		f := fs.files[name]
		if f == nil {
			if flag&os.O_CREATE == 0 {
				return nil, os.ErrNotExist
			}
			f = &vpMFile{}
			fs.files[name] = f
		}
		if flag&os.O_TRUNC != 0 {
			f.data = nil
			f.synced = 0
		}
		fs.event("open:" + name)
		return fs.open(name, f, false), nil
	})
	vpStub("badger.openDir", func(path string) (*os.File, error) {
		return fs.open(path, nil, true), nil
	})
	vpStub("(*os.File).Write", func(fp *os.File, b []byte) (int, error) {
		h := fs.use(fp, "Write")
		if h == nil || h.dir {
			return 0, vpErrMFS
		}
		// every writer in manifest.go appends (position is at the end)
		if h.pos != len(h.f.data) {
			fs.bad = "Write not at the end of " + h.name
			return 0, vpErrMFS
		}
		h.f.data = append(h.f.data, b...)
		h.pos = len(h.f.data)
		fs.event("write:" + h.name)
		return len(b), nil
	})
	vpStub("(*os.File).Sync", func(fp *os.File) error {
		h := fs.use(fp, "Sync")
		if h == nil {
			return vpErrMFS
		}
		if h.dir {
			fs.event("syncdir:" + h.name)
			return nil
		}
		h.f.synced = len(h.f.data)
		fs.event("sync:" + h.name)
		return nil
	})
	vpStub("(*os.File).Close", func(fp *os.File) error {
		h := fs.use(fp, "Close")
		if h == nil {
			return vpErrMFS
		}
		h.closed = true
		if !h.dir {
			fs.event("close:" + h.name)
		}
		return nil
	})
	vpStub("(*os.File).Read", func(fp *os.File, b []byte) (int, error) {
		h := fs.use(fp, "Read")
		if h == nil || h.dir {
			return 0, vpErrMFS
		}
		if len(b) == 0 {
			return 0, nil
		}
		if h.pos >= len(h.f.data) {
			return 0, io.EOF
		}
		n := copy(b, h.f.data[h.pos:])
		h.pos += n
		return n, nil
	})
	vpStub("(*os.File).Stat", func(fp *os.File) (os.FileInfo, error) {
		h := fs.use(fp, "Stat")
		if h == nil || h.dir {
			return nil, vpErrMFS
		}
		return vpMInfo{int64(len(h.f.data))}, nil
	})
	vpStub("(*os.File).Seek", func(fp *os.File, off int64, whence int) (int64, error) {
		h := fs.use(fp, "Seek")
		if h == nil || h.dir {
			return 0, vpErrMFS
		}
		switch whence {
		case io.SeekStart:
			h.pos = int(off)
		case io.SeekCurrent:
			h.pos += int(off)
		case io.SeekEnd:
			h.pos = len(h.f.data) + int(off)
		}
		return int64(h.pos), nil
	})
	vpStub("(*os.File).Truncate", func(fp *os.File, size int64) error {
		h := fs.use(fp, "Truncate")
		if h == nil || h.dir || int(size) > len(h.f.data) {
			return vpErrMFS
		}
		h.f.data = h.f.data[:size]
		if h.f.synced > int(size) {
			h.f.synced = int(size)
		}
		return nil
	})
	vpStub("os.Rename", func(from, to string) error {
		f := fs.files[from]
		if f == nil {
			return os.ErrNotExist
		}
		fs.files[to] = f
		delete(fs.files, from)
		fs.renames++
		fs.event("rename:" + from + ">" + to)
		return nil
	})
	return fs
}

// vpMCrc: stand-in for crc32.Checksum (see file comment).
func vpMCrc(b []byte, _ *crc32.Table) uint32 {
	h := uint32(0xffffffff)
	for _, c := range b {
		h = (h ^ uint32(c)) * 16777619
	}
	return ^h
}

// ---------- opaque protobuf codec ----------

var vpErrCodec = errors.New("vp: opaque codec: cannot decode")

func vpInstallCodec() {
	var tab [][]*pb.ManifestChange
	vpStub("google.golang.org/protobuf/proto.Marshal", func(m proto.Message) ([]byte, error) {
		cs := m.(*pb.ManifestChangeSet)
		if len(cs.Changes) == 0 {
			return []byte{}, nil
		}
		var cp []*pb.ManifestChange
		for _, c := range cs.Changes {
			cp = append(cp, &pb.ManifestChange{Id: c.Id, Op: c.Op, Level: c.Level, KeyId: c.KeyId,
				EncryptionAlgo: c.EncryptionAlgo, Compression: c.Compression})
		}
		tab = append(tab, cp)
		return []byte{0xA5, byte(len(tab))}, nil
	})
	vpStub("google.golang.org/protobuf/proto.Unmarshal", func(b []byte, m proto.Message) error {
		cs := m.(*pb.ManifestChangeSet)
		cs.Changes = nil
		if len(b) == 0 {
			return nil
		}
		if len(b) != 2 || b[0] != 0xA5 || b[1] == 0 || int(b[1]) > len(tab) {
			return vpErrCodec
		}
		for _, c := range tab[int(b[1])-1] {
			cs.Changes = append(cs.Changes, &pb.ManifestChange{Id: c.Id, Op: c.Op, Level: c.Level, KeyId: c.KeyId,
				EncryptionAlgo: c.EncryptionAlgo, Compression: c.Compression})
		}
		return nil
	})
}

// ---------- reference model ----------

const vpMaxIDs = 4

type vpMShadow struct {
	nids      int
	present   [vpMaxIDs]bool
	level     [vpMaxIDs]int
	keyid     [vpMaxIDs]uint64
	comp      [vpMaxIDs]uint32
	creations int
	deletions int
}

func (s *vpMShadow) count() int {
	n := 0
	for id := 0; id < s.nids; id++ {
		if s.present[id] {
			n++
		}
	}
	return n
}

// apply returns false when the change must be refused (create of an existing table).
// A delete of an unknown table is tolerated by badger (warning only) and counted.
func (s *vpMShadow) apply(c *pb.ManifestChange) bool {
	id := int(c.Id)
	if c.Op == pb.ManifestChange_CREATE {
		if s.present[id] {
			return false
		}
		s.present[id], s.level[id], s.keyid[id], s.comp[id] = true, int(c.Level), c.KeyId, c.Compression
		s.creations++
		return true
	}
	s.present[id] = false
	s.deletions++
	return true
}

// check compares a Manifest built by the real code with the model. Look-ups use concrete
// ids only (a range over the maps would fork over iteration orders).
func (s *vpMShadow) check(m *Manifest, idTables, idLevels string) {
	n := 0
	for id := 0; id < s.nids; id++ {
		tm, ok := m.Tables[uint64(id)]
		vpAssert(ok == s.present[id], idTables)
		if !s.present[id] {
			continue
		}
		n++
		vpAssert(int(tm.Level) == s.level[id], idTables)
		vpAssert(vpAnd(tm.KeyID == s.keyid[id], tm.Compression == options.CompressionType(s.comp[id])), idTables)
		vpAssert(s.level[id] < len(m.Levels), idLevels)
	}
	vpAssert(len(m.Tables) == n, idTables)
	tot := 0
	for l := range m.Levels {
		tot += len(m.Levels[l].Tables)
		for id := 0; id < s.nids; id++ {
			_, in := m.Levels[l].Tables[uint64(id)]
			vpAssert(in == (s.present[id] && s.level[id] == l), idLevels)
		}
	}
	vpAssert(tot == n, idLevels)
}

func vpMIndex(ev []string, s string, from int) int {
	for i := from; i < len(ev); i++ {
		if ev[i] == s {
			return i
		}
	}
	return -1
}

// rewrite protocol: everything written to MANIFEST-REWRITE is synced, the file is closed,
// renamed over MANIFEST, and the directory is synced afterwards.
func vpMCheckRewriteOrder(ev []string, dir string) {
	rw := dir + "/" + manifestRewriteFilename
	mn := dir + "/" + ManifestFilename
	w := vpMIndex(ev, "write:"+rw, 0)
	lastW := w
	for i := w; i >= 0; i = vpMIndex(ev, "write:"+rw, i+1) {
		lastW = i
	}
	s := vpMIndex(ev, "sync:"+rw, lastW+1)
	c := vpMIndex(ev, "close:"+rw, s+1)
	r := vpMIndex(ev, "rename:"+rw+">"+mn, c+1)
	d := vpMIndex(ev, "syncdir:"+dir, r+1)
	ok := w >= 0 && s > lastW && c > s && r > c && d > r
	vpAssert(ok, "C17:manifest.rewrite-order")
}

// ---------- harness ----------

func VpHManifest() {
	vpConfig("maporder", 1)
	fs := vpNewMFS()
	vpInstallCodec()
	if vpParam("man.crcstub", 0) == 1 {
		vpStub("hash/crc32.Checksum", vpMCrc) // fallback; default is the engine's crc32 model
	}

	if bs := vpParam("man.bufio", 16); bs > 0 {
		// the real bufio.Reader with a small buffer (default 4096 costs ~10x per replay)
		vpStub("bufio.NewReader", func(rd io.Reader) *bufio.Reader { return bufio.NewReaderSize(rd, bs) })
	}
	nsets := vpParam("man.sets", 2)
	nch := vpParam("man.changes", 2)
	nids := vpParam("man.ids", 2)
	nlev := vpParam("man.levels", 2)
	cutAll := vpParam("man.cutall", 0)
	canon := vpParam("man.canon", 1)
	thrMax := vpParam("man.thrmax", 1)
	if vpParam("man.wide", 0) == 1 && vpChoose("config", 2) == 1 {
		// second configuration of the thorough tier: shorter histories, wider domains,
		// damage analysis of every set in the file
		nsets, nch, nids, nlev, cutAll, thrMax = 2, 2, 3, 3, 1, 2
		vpCover("man.wide")
	}

	const dir = "/db"
	const extMagic = uint16(0x0102)
	path := dir + "/" + ManifestFilename
	opt := Options{}

	thr := vpInt("threshold")
	vpAssume(vpAnd(thr >= 0, thr <= thrMax))

	// creation of a new MANIFEST exactly as helpOpenOrCreateManifestFile does it
	m0 := createManifest()
	fp0, net0, err := helpRewrite(dir, &m0, extMagic)
	vpAssert(err == nil && net0 == 0, "C17:manifest.create")
	vpMCheckRewriteOrder(fs.ev, dir)
	mf := &manifestFile{fp: fp0, directory: dir, externalMagic: extMagic, manifest: m0.clone(opt),
		deletionsRewriteThreshold: thr}

	sh := vpMShadow{nids: nids}
	// complete change sets in the current file: end offsets and the model after each
	ends := []int{len(fs.files[path].data)}
	snaps := []vpMShadow{sh}
	failed := false
	used := 0

	for si := 0; si < nsets && !failed; si++ {
		n := 1 + vpChoose("nchanges", nch)
		var changes []*pb.ManifestChange
		next := sh
		accept := true
		for ci := 0; ci < n; ci++ {
			// man.canon=1: table ids are introduced in the order 0,1,2 (the code under test never
			// looks at the value of an id: the codec is opaque and map order is explored separately)
			nc := nids
			if canon == 1 && used < nids {
				nc = used + 1
			}
			id := uint64(vpChoose("id", nc))
			if int(id) == used {
				used++
			}
			var c *pb.ManifestChange
			if vpChoose("op", 2) == 0 {
				lvl := vpChoose("level", nlev)
				c = newCreateChange(id, lvl, vpU64("keyid"), options.CompressionType(vpU32("compression")))
			} else {
				c = newDeleteChange(id)
				if !next.present[id] && accept {
					vpCover("man.delete-unknown")
				}
			}
			changes = append(changes, c)
			if accept && !next.apply(c) {
				accept = false
			}
		}
		ev0 := len(fs.ev)
		ren0 := fs.renames
		err := mf.addChanges(changes, opt)
		if !accept {
			// duplicate create: refused, nothing reaches the file; the store would stop here
			vpAssert(err != nil, "C14,C17:manifest.duplicate-create-rejected")
			vpAssert(fs.renames == ren0 && len(fs.files[path].data) == ends[len(ends)-1], "C17:manifest.rejected-set-not-written")
			vpCover("man.rejected")
			failed = true
			break
		}
		vpAssert(err == nil, "C17:manifest.valid-set-accepted")
		sh = next
		data := fs.files[path].data
		if fs.renames != ren0 {
			vpCover("man.rewrite")
			if sh.count() >= 2 {
				vpCover("man.rewrite-nonempty")
			}
			vpMCheckRewriteOrder(fs.ev[ev0:], dir)
			sh.creations, sh.deletions = sh.count(), 0
			ends = []int{len(data)}
			snaps = []vpMShadow{sh}
		} else {
			vpCover("man.append")
			ends = append(ends, len(data))
			snaps = append(snaps, sh)
		}
		// the running database's manifest
		sh.check(&mf.manifest, "C17:manifest.memory-equals-model", "C14,C17:manifest.levels-consistent")
		vpAssert(mf.manifest.Creations == sh.creations && mf.manifest.Deletions == sh.deletions, "C17:manifest.counters-consistent")
	}
	vpAssert(fs.bad == "", "C17:manifest.file-handle-discipline")

	replay := func() (Manifest, int64, error) {
		fp, err := os.OpenFile(path, os.O_RDWR, 0)
		vpAssume(err == nil)
		m, off, err := ReplayManifestFile(fp, extMagic, opt)
		_ = fp.Close()
		return m, off, err
	}

	// 0: damage analysis of the file; 1: forced rewrite + clone; 2: re-open of a file with a torn
	// tail through the real helpOpenOrCreateManifestFile, one more change set, replay
	mode := 0
	if !failed {
		mode = vpChoose("mode", 3)
	}
	if mode == 2 {
		vpMReopenTorn(fs, mf, dir, path, extMagic, thr, opt, nids, ends, snaps, replay)
		return
	}
	if !failed && sh.count() >= 1 && mode == 1 {
		// an explicit rewrite of whatever state was reached, then clone
		mf.appendLock.Lock()
		ev0 := len(fs.ev)
		err := mf.rewrite()
		mf.appendLock.Unlock()
		vpAssert(err == nil, "C17:manifest.rewrite-ok")
		vpMCheckRewriteOrder(fs.ev[ev0:], dir)
		sh.creations, sh.deletions = sh.count(), 0
		m, off, err := replay()
		vpAssert(err == nil && int(off) == len(fs.files[path].data), "C17:manifest.rewrite-replays")
		sh.check(&m, "C17:manifest.rewrite-replays", "C14,C17:manifest.levels-consistent")
		vpAssert(m.Creations == sh.creations && m.Deletions == 0, "C17:manifest.counters-after-rewrite")
		vpAssert(mf.manifest.Creations == sh.creations && mf.manifest.Deletions == 0, "C17:manifest.counters-after-rewrite")
		vpConfig("maporder", 0) // same asChanges loop as in the rewrite above
		cl := mf.manifest.clone(opt)
		sh.check(&cl, "C17:manifest.clone-equals-model", "C14,C17:manifest.levels-consistent")
		if sh.count() >= 2 {
			vpCover("man.forced-rewrite-nonempty")
		}
		return
	}

	// ---- replay of the bytes that reached the file ----
	full := fs.files[path].data
	last := len(snaps) - 1
	m, off, err := replay()
	vpAssert(err == nil, "C17:manifest.replay-equals-memory")
	snaps[last].check(&m, "C17:manifest.replay-equals-memory", "C14,C17:manifest.levels-consistent")
	vpAssert(int(off) == len(full), "C17:manifest.trunc-offset")
	vpAssert(m.Creations == snaps[last].creations && m.Deletions == snaps[last].deletions, "C17:manifest.counters-consistent")
	if !failed {
		// direct comparison with the live in-memory manifest
		vpAssert(len(m.Tables) == len(mf.manifest.Tables), "C17:manifest.replay-equals-memory")
		for id := 0; id < nids; id++ {
			a, oka := m.Tables[uint64(id)]
			b, okb := mf.manifest.Tables[uint64(id)]
			vpAssert(oka == okb, "C17:manifest.replay-equals-memory")
			vpAssert(vpAnd(a.Level == b.Level, vpAnd(a.KeyID == b.KeyID, a.Compression == b.Compression)), "C17:manifest.replay-equals-memory")
		}
	}

	// ---- torn tail: cut at byte c, rest absent ----
	lo := 8
	if cutAll == 0 && last > 0 {
		lo = ends[last-1]
	}
	prefix := func(c int) int { // index of the last complete set in full[:c], -1 if none
		k := -1
		for i, e := range ends {
			if e <= c {
				k = i
			}
		}
		return k
	}
	expect := func(k int) (vpMShadow, int) {
		if k < 0 {
			return vpMShadow{nids: nids}, 8
		}
		return snaps[k], ends[k]
	}
	f := fs.files[path]
	for c := lo; c < len(full); c++ {
		f.data = full[:c]
		m, off, err := replay()
		want, wantOff := expect(prefix(c))
		vpAssert(err == nil, "C09,C17:manifest.cut-recovers-prefix")
		want.check(&m, "C09,C17:manifest.cut-recovers-prefix", "C09,C14,C17:manifest.cut-levels-consistent")
		vpAssert(int(off) == wantOff, "C09,C17:manifest.cut-trunc-offset")
		vpCover("man.cut")
	}

	// ---- torn tail: cut at byte c, rest zero-filled (known defect class for cuts inside a set) ----
	var okZ, inK []bool
	for c := lo; c < len(full); c++ {
		z := make([]byte, len(full))
		copy(z, full[:c])
		f.data = z
		m, off, err := replay()
		k := prefix(c)
		want, wantOff := expect(k)
		ok := err == nil && int(off) >= wantOff && vpMSame(&want, &m)
		okZ = append(okZ, ok)
		inK = append(inK, k < 0 || ends[k] != c)
		if !ok {
			vpCover("man.zero-tail-fails")
		}
	}
	if len(okZ) > 0 {
		// one symbolic selector over the (concrete) outcomes: every cut offset is judged on this
		// path, and the model names the offending one (cut = zero.cut.base + zero.cut)
		sel := vpInt("zero.cut")
		c, k := true, false
		for i := range okZ {
			c = vpIteBool(sel == i, okZ[i], c)
			k = vpIteBool(sel == i, inK[i], k)
		}
		vpObserveU64("zero.cut.base", uint64(lo))
		vpAssertKnown(c, "C09:manifest.zero-tail-recovers-prefix", k, "C09-manifest-zero-tail")
	}

	// ---- checksum mismatch: arbitrary stored checksum and arbitrary payload bytes (same length)
	// in one set, constrained only by "the checksum of the payload differs from the stored one" ----
	for ri := range ends {
		if cutAll == 0 && ri != last {
			continue
		}
		start := 8
		if ri > 0 {
			start = ends[ri-1]
		}
		z := make([]byte, len(full))
		copy(z, full)
		stored := vpU32("corrupt.crc")
		binary.BigEndian.PutUint32(z[start+4:start+8], stored)
		for p := start + 8; p < ends[ri]; p++ {
			z[p] = vpU8("corrupt.payload")
		}
		vpAssume(crc32.Checksum(z[start+8:ends[ri]], y.CastagnoliCrcTable) != stored)
		f.data = z
		m, off, err := replay()
		vpAssert(err == errBadChecksum, "C17:manifest.bad-checksum-rejected")
		vpAssert(len(m.Tables) == 0 && len(m.Levels) == 0 && off == 0, "C17:manifest.bad-checksum-nothing-applied")
		vpCover("man.corrupt")
	}
	f.data = full
}

// vpMSame: concrete comparison (no assertions) of a replayed manifest with the model.
func vpMSame(s *vpMShadow, m *Manifest) bool {
	n := 0
	for id := 0; id < s.nids; id++ {
		tm, ok := m.Tables[uint64(id)]
		if ok != s.present[id] {
			return false
		}
		if ok {
			n++
			if int(tm.Level) != s.level[id] {
				return false
			}
		}
	}
	return len(m.Tables) == n
}

// vpMReopenTorn: the MANIFEST ends at an arbitrary byte inside (or at the end of) its last change
// set (crash during addChanges); the database is re-opened through the real
// helpOpenOrCreateManifestFile, which must recover the sets before the damage and, when not
// read-only, cut the torn tail off so that the next change set is appended right after the last
// complete one; the file is then replayed again.
func vpMReopenTorn(fs *vpMFS, mf *manifestFile, dir, path string, extMagic uint16, thr int, opt Options, nids int,
	ends []int, snaps []vpMShadow, replay func() (Manifest, int64, error)) {
	full := append([]byte(nil), fs.files[path].data...)
	last := len(snaps) - 1
	lo := 8
	if last > 0 {
		lo = ends[last-1]
	}
	c := lo + vpChoose("reopen.cut", len(full)-lo+1)
	k := -1
	for i, e := range ends {
		if e <= c {
			k = i
		}
	}
	want, wantOff := vpMShadow{nids: nids}, 8
	if k >= 0 {
		want, wantOff = snaps[k], ends[k]
	}
	vpAssert(mf.close() == nil, "C17:manifest.reopen.close")
	f := fs.files[path]
	f.data = append([]byte(nil), full[:c]...)
	if f.synced > c {
		f.synced = c
	}
	if c > wantOff {
		vpCover("man.reopen-torn")
	}
	readOnly := vpChoose("reopen.readonly", 2) == 1
	ev0 := len(fs.ev)
	mf2, m2, err := helpOpenOrCreateManifestFile(dir, readOnly, extMagic, thr, opt)
	vpAssert(err == nil, "C09,C17,C07:manifest.reopen.recovers-prefix")
	if err != nil {
		return
	}
	want.check(&m2, "C09,C17,C07:manifest.reopen.recovers-prefix", "C09,C14,C17:manifest.reopen.levels-consistent")
	want.check(&mf2.manifest, "C09,C17,C07:manifest.reopen.recovers-prefix", "C09,C14,C17:manifest.reopen.levels-consistent")
	if readOnly {
		vpCover("man.reopen-readonly")
		unchanged := len(f.data) == c
		for _, e := range fs.ev[ev0:] {
			if len(e) > 6 && e[:6] == "write:" {
				unchanged = false
			}
		}
		vpAssert(unchanged, "C07,C17:manifest.reopen.readonly-leaves-file-untouched")
		vpAssert(fs.bad == "", "C17:manifest.file-handle-discipline")
		return
	}
	vpAssert(len(f.data) == wantOff, "C09,C17:manifest.reopen.torn-tail-cut-off")
	// one more valid change set: create the first absent table, or delete table 0
	var ch *pb.ManifestChange
	for id := 0; id < nids && ch == nil; id++ {
		if !want.present[id] {
			ch = newCreateChange(uint64(id), 0, vpU64("reopen.keyid"), options.CompressionType(vpU32("reopen.compression")))
		}
	}
	if ch == nil {
		ch = newDeleteChange(0)
	}
	vpAssert(want.apply(ch), "C17:manifest.reopen.model")
	ren0 := fs.renames
	err = mf2.addChanges([]*pb.ManifestChange{ch}, opt)
	vpAssert(err == nil, "C17:manifest.reopen.append-accepted")
	vpAssert(fs.bad == "", "C17:manifest.file-handle-discipline")
	if fs.renames == ren0 {
		// appended right behind the last complete set: no gap, earlier bytes untouched
		ok := len(f.data) > wantOff
		for i := 0; i < wantOff && i < len(f.data); i++ {
			ok = ok && f.data[i] == full[i]
		}
		vpAssert(ok, "C17:manifest.reopen.appended-behind-last-complete-set")
	} else {
		want.creations, want.deletions = want.count(), 0
	}
	m3, off3, err := replay()
	vpAssert(err == nil && int(off3) == len(fs.files[path].data), "C17,C09:manifest.reopen.replays-after-append")
	want.check(&m3, "C17,C09:manifest.reopen.replays-after-append", "C14,C17:manifest.levels-consistent")
	want.check(&mf2.manifest, "C17:manifest.memory-equals-model", "C14,C17:manifest.levels-consistent")
}

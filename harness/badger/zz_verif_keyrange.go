package badger

import (
	"bytes"
	"time"

	"github.com/dgraph-io/badger/v4/table"
	"github.com/dgraph-io/badger/v4/y"
)

// H-KEYRANGE: the real getKeyRange / keyRange.extend / overlapsWith / isEmpty / equals over 1..3
// tables in ARBITRARY order (level 0 is ordered by age, not by key: a later table may be wider
// than the union of the earlier ones on both sides). The range a compaction locks and uses to
// pick the overlapping tables of the next level must cover every input table; a range that is too
// narrow leaves overlapping tables out and the level stops being disjoint (C14) or keeps an older
// version reachable (C12).
func VpHKeyRange() {
	n := 1 + vpChoose("tables", vpParam("kr.tables", 3))
	var tabs []*table.Table
	type rng struct {
		su, bu   []byte
		sts, bts uint64
	}
	var rs []rng
	for i := 0; i < n; i++ {
		r := rng{su: vpBytes("smallest", 1), sts: vpU64("smallest.ts"), bu: vpBytes("biggest", 1), bts: vpU64("biggest.ts")}
		s, b := y.KeyWithTs(r.su, r.sts), y.KeyWithTs(r.bu, r.bts)
		// a table's smallest key is not above its biggest (internal-key order: user key, then
		// version descending)
		vpAssume(vpOr(r.su[0] < r.bu[0], vpAnd(r.su[0] == r.bu[0], r.sts >= r.bts)))
		tabs = append(tabs, table.VpLvNewTable(uint64(i+1), s, b, 100, time.Time{}, 0))
		rs = append(rs, r)
	}
	kr := getKeyRange(tabs...)
	vpAssert(len(kr.left) == 9 && len(kr.right) == 9 && !kr.isEmpty(), "C12,C14:kr.shape")
	if len(kr.left) != 9 || len(kr.right) != 9 {
		return
	}
	// left = smallest user key @ MaxUint64 (all versions), right = biggest user key @ 0
	minU, maxU := rs[0].su[0], rs[0].bu[0]
	for _, r := range rs[1:] {
		minU = vpIteU8(r.su[0] < minU, r.su[0], minU)
		maxU = vpIteU8(r.bu[0] > maxU, r.bu[0], maxU)
	}
	vpAssert(vpAnd(kr.left[0] == minU, y.ParseTs(kr.left) == ^uint64(0)), "C12,C14:kr.left-is-smallest-user-key-all-versions")
	vpAssert(vpAnd(kr.right[0] == maxU, y.ParseTs(kr.right) == 0), "C12,C14:kr.right-is-biggest-user-key-all-versions")
	// every input table lies inside the range and overlaps it
	for i, t := range tabs {
		in := vpAnd(bytes.Compare(kr.left[:1], rs[i].su) <= 0, bytes.Compare(rs[i].bu, kr.right[:1]) <= 0)
		vpAssert(in, "C12,C14:kr.covers-every-input-table")
		vpAssert(kr.overlapsWith(getKeyRange(t)), "C12,C14:kr.overlaps-every-input-table")
	}
	// extend by one more table = range of all of them
	if n >= 2 {
		var acc keyRange
		for _, t := range tabs {
			acc.extend(getKeyRange(t))
		}
		vpAssert(acc.equals(kr), "C12,C14:kr.extend-equals-range-of-all")
		vpCover("kr.several-tables")
	}
}

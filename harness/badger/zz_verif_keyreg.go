package badger

import (
	"bytes"
	"crypto/rand"
	"errors"
	"time"

	"google.golang.org/protobuf/proto"

	"github.com/dgraph-io/badger/v4/pb"
	"github.com/dgraph-io/badger/v4/y"
)

// H-KEYREG (C23, key-registry kernel): the REAL OpenKeyRegistry, newKeyRegistry, readKeyRegistry,
// newKeyRegistryIterator, validRegistry, keyRegistryIterator.next, WriteKeyRegistry, storeDataKey,
// KeyRegistry.LatestDataKey (this tree has no separate CreateDataKey: key creation is the tail of
// LatestDataKey), KeyRegistry.DataKey, KeyRegistry.Close, y.GenerateIV, y.OpenExistingFile,
// y.OpenTruncFile, syncDir - over the abstract file system of zz_verif_fsorder.go (no injected
// faults here), a symbolic master key, a symbolic wall clock and a symbolic rotation interval.
//
// Modelled / stubbed (= assumptions of every claim below):
//   * AES-CTR (y.XORBlockAllocate) is the engine's uninterpreted keystream
//     dst[i] = src[i] xor KS(key, iv, i) (engine/intr_ctr.go). Equal (key, iv, position) give equal
//     keystream; NOTHING is assumed for different keys, so the solver may pick KS(K') = KS(K) on
//     the 12 positions of the sanity text. "A different key is refused" is therefore stated as:
//     ErrEncryptionKeyMismatch OR the two keystreams agree on the whole sanity text (for real AES
//     that is a 2^-96 event per key pair; AES itself is outside the claim).
//   * crypto/rand.Read: fresh symbolic bytes per call (engine intrinsic, never fails); the harness
//     wrapper only records every call, so that "separate generator calls" can be stated.
//   * protobuf of *pb.DataKey: opaque round-trip codec (2-byte token <-> a copy of the four fields
//     KeyId, Data, Iv, CreatedAt); anything else does not decode. That the real wire format round
//     trips is protobuf's business.
//   * crc32: engine model (uninterpreted step function; real table on concrete bytes).
//   * time.Now / time.Since: one harness clock, whole seconds, non-decreasing, in [2^31, 2^32)
//     (the engine's default time.Since is unrelated to time.Now, which would leave rotation
//     unconstrained). time.Since(t) is an over-approximation of (reading - t) x 10^9 ns: any value
//     between (reading-t) x 2^29 and (reading-t) x 2^30, monotone in the reading and antitone in t
//     (no 64-bit multiplication reaches the solver). Every assertion about rotation is stated on the
//     duration time.Since returned and on the instant it was asked about, so it holds for the exact
//     product as well. Rotation interval: any duration in [1 ns, 2^60 ns].
//   * file system: abstract FS (see zz_verif_fsorder.go), directory /db exists.
//
// Shape: master key none / 16 / 32 bytes (thorough: also 24). Creation of the registry by
// OpenKeyRegistry on an empty directory, then `keyreg.calls` calls of LatestDataKey at arbitrary
// later times (each either inside or beyond the rotation interval), then Close and
//   re-open 0: same key, read-write      re-open 1: same key, read-only
//   re-open 2: a different key of the same length (all bytes symbolic, assumed != K)
//   re-open 3: no key for an encrypted registry / some 16-byte key for a plain one
// and one more LatestDataKey after a successful re-open.
//
// quick: keyreg.calls=2, keyreg.k24=0      thorough: keyreg.calls=3, keyreg.k24=1

type vpKCodec struct{ tab []*pb.DataKey }

func vpKCopyKey(k *pb.DataKey) *pb.DataKey {
	return &pb.DataKey{KeyId: k.KeyId, Data: append([]byte{}, k.Data...), Iv: append([]byte{}, k.Iv...), CreatedAt: k.CreatedAt}
}

func vpKInstallCodec() *vpKCodec {
	c := &vpKCodec{}
	vpStub("google.golang.org/protobuf/proto.Marshal", func(m proto.Message) ([]byte, error) {
		k := m.(*pb.DataKey)
		c.tab = append(c.tab, vpKCopyKey(k))
		return []byte{0xA6, byte(len(c.tab))}, nil
	})
	vpStub("google.golang.org/protobuf/proto.Unmarshal", func(b []byte, m proto.Message) error {
		k := m.(*pb.DataKey)
		if len(b) != 2 || b[0] != 0xA6 || b[1] == 0 || int(b[1]) > len(c.tab) {
			return errors.New("vp: opaque codec: cannot decode")
		}
		s := vpKCopyKey(c.tab[int(b[1])-1])
		k.KeyId, k.Data, k.Iv, k.CreatedAt = s.KeyId, s.Data, s.Iv, s.CreatedAt
		return nil
	})
	return c
}

type vpKRand struct{ out [][]byte }

// usedBy: index of the generator call that produced exactly these bytes (-1: none)
func (r *vpKRand) usedBy(b []byte) int {
	for i, o := range r.out {
		if len(o) == len(b) && len(b) > 0 && vpIsConcrete(bytes.Equal(o, b)) && bytes.Equal(o, b) {
			return i
		}
	}
	return -1
}

type vpKRef struct {
	id      uint64
	data    []byte
	iv      []byte
	created int64
}

func VpHKeyRegistry() {
	fs := vpFNewFS(0)
	const dir = "/db"
	fs.seedDir(dir)
	codec := vpKInstallCodec()
	rnd := &vpKRand{}
	vpStub("crypto/rand.Read", func(b []byte) (int, error) {
		n, err := rand.Read(b) // the engine's model: fresh symbolic bytes
		rnd.out = append(rnd.out, append([]byte{}, b...))
		return n, err
	})

	// clock
	now := int64(1) << 31
	var sinceReads []int64       // clock readings taken by time.Since
	var sinceArg []int64         // the instants (Unix seconds) they were compared with
	var sinceDur []time.Duration // the durations returned
	tick := func() int64 {
		t := int64(vpU64("clock"))
		vpAssume(vpAnd(t >= now, t < 1<<32))
		now = t
		return t
	}
	vpStub("time.Now", func() time.Time { return time.Unix(tick(), 0) })
	vpStub("time.Since", func(t time.Time) time.Duration {
		n := tick()
		from := t.Unix()
		// dur stands for (n-from) x 10^9 ns. The product itself is kept away from the solver (64-bit
		// multiplications made most queries time out); what is kept is a SUPERSET of its behaviours:
		// 2^29 <= 10^9 <= 2^30 per second, and monotone in the reading, antitone in the origin.
		age := n - from
		dur := time.Duration(vpU64("since-ns"))
		vpAssume(vpAnd(age >= 0, vpAnd(dur >= time.Duration(age<<29), dur <= time.Duration(age<<30))))
		for k := range sinceDur {
			vpAssume(vpImplies(vpAnd(sinceArg[k] >= from, sinceReads[k] <= n), sinceDur[k] <= dur))
			vpAssume(vpImplies(vpAnd(sinceArg[k] <= from, sinceReads[k] >= n), sinceDur[k] >= dur))
		}
		sinceReads, sinceArg, sinceDur = append(sinceReads, n), append(sinceArg, from), append(sinceDur, dur)
		return dur
	})

	// master key
	klen := 0
	nk := 3
	if vpParam("keyreg.k24", 0) == 1 {
		nk = 4
	}
	switch vpChoose("master-key", nk) {
	case 1:
		klen = 16
	case 2:
		klen = 32
	case 3:
		klen = 24
	}
	var K []byte
	if klen > 0 {
		K = vpBytes("K", klen)
		vpCover("keyreg.encrypted")
	} else {
		vpCover("keyreg.plain")
	}
	// any rotation interval from 1 ns to 2^60 ns (36 years); symbolic in nanoseconds, so that the only
	// multiplication the solver sees is "seconds x 10^9" inside time.Since
	rot := time.Duration(vpU64("rotation-ns"))
	vpAssume(vpAnd(rot >= 1, rot <= 1<<60))
	opt := KeyRegistryOptions{Dir: dir, EncryptionKey: K, EncryptionKeyRotationDuration: rot}
	path := dir + "/" + KeyRegistryFileName

	// ---- creation ----
	kr, err := OpenKeyRegistry(opt)
	vpAssert(err == nil && kr != nil, "C23:keyreg.create-succeeds")
	if err != nil {
		return
	}
	f := fs.lookup(path)
	vpAssert(f != nil && f.exists && len(f.data) == 16+len(sanityText), "C23:keyreg.new-file-is-iv-plus-sanity-text")
	vpAssert(len(rnd.out) == 1 && len(kr.dataKeys) == 0 && kr.fp != nil, "C23:keyreg.create-draws-one-iv-and-no-key")

	// ---- LatestDataKey, `calls` times ----
	calls := vpParam("keyreg.calls", 2)
	var ref []vpKRef // every data key ever created, plaintext
	var last *pb.DataKey
	var lastCreated int64
	for c := 0; c < calls; c++ {
		fs.armed, fs.muts = true, nil
		size0 := len(f.data)
		nr0, ns0, ntab0 := len(rnd.out), len(sinceReads), len(codec.tab)
		dk, err := kr.LatestDataKey()
		vpAssert(err == nil, "C23:keyreg.latest-succeeds")
		if klen == 0 {
			vpAssert(dk == nil && len(fs.muts) == 0 && len(rnd.out) == nr0, "C23:keyreg.no-master-key-no-data-key")
			continue
		}
		vpAssert(len(sinceReads) > ns0, "C23:keyreg.latest-consults-the-clock")
		s1 := sinceReads[ns0]
		// the age is measured from the creation time of the newest key (no key yet: from 0) ...
		vpAssert(sinceArg[ns0] == lastCreated, "C23:keyreg.age-measured-from-the-newest-key")
		// ... and the key is due for rotation when that age has reached the rotation interval
		due := sinceDur[ns0] >= rot
		if len(rnd.out) == nr0 {
			// no new key
			vpCover("keyreg.within-interval")
			vpAssert(vpNot(due), "C23:keyreg.key-reused-only-within-the-rotation-interval")
			vpAssert(dk != nil && dk == last, "C23:keyreg.latest-returns-the-newest-key")
			vpAssert(len(fs.muts) == 0 && len(f.data) == size0, "C23:keyreg.reuse-writes-nothing")
			continue
		}
		vpCover("keyreg.new-key")
		if last != nil {
			vpCover("keyreg.rotated")
		}
		vpAssert(due, "C23:keyreg.new-key-only-after-the-rotation-interval")
		vpAssert(dk != nil && dk != last, "C23:keyreg.rotation-gives-a-new-key-object")
		if dk == nil {
			return
		}
		vpAssert(dk.KeyId == uint64(len(ref))+1 && kr.nextKeyID == dk.KeyId, "C23:keyreg.new-key-id-is-old-plus-one")
		// two separate generator calls, made for this key only: one 16-byte IV, one key of the master key's length
		vpAssert(len(rnd.out) == nr0+2, "C23:keyreg.new-key-draws-exactly-two-random-values")
		if len(rnd.out) == nr0+2 {
			iIv, iKey := rnd.usedBy(dk.Iv), rnd.usedBy(dk.Data)
			vpAssert(iIv >= nr0 && iKey >= nr0 && iIv != iKey && len(dk.Iv) == 16 && len(dk.Data) == klen,
				"C23:keyreg.key-and-iv-come-from-separate-fresh-generator-calls")
		}
		vpAssert(vpAnd(dk.CreatedAt >= s1, dk.CreatedAt <= now), "C23:keyreg.created-at-is-the-clock")
		// persisted before use: exactly one record appended to the registry file before the call returned
		vpAssert(len(fs.muts) == 1 && fs.muts[0] == "write "+path && len(f.data) == size0+8+2 && len(codec.tab) == ntab0+1,
			"C23:keyreg.new-key-appended-to-the-file-before-use")
		if len(codec.tab) == ntab0+1 {
			st := codec.tab[ntab0]
			plain, xerr := y.XORBlockAllocate(st.Data, K, st.Iv)
			vpAssert(vpAnd(vpAnd(xerr == nil, st.KeyId == dk.KeyId), vpAnd(bytes.Equal(st.Iv, dk.Iv), st.CreatedAt == dk.CreatedAt)),
				"C23:keyreg.stored-record-is-the-new-key")
			vpAssert(bytes.Equal(plain, dk.Data), "C23:keyreg.stored-key-decrypts-to-the-key-in-use")
		}
		ref = append(ref, vpKRef{id: dk.KeyId, data: append([]byte{}, dk.Data...), iv: append([]byte{}, dk.Iv...), created: dk.CreatedAt})
		last, lastCreated = dk, dk.CreatedAt
		// old keys stay retrievable by id, unchanged
		for _, r := range ref {
			got, gerr := kr.DataKey(r.id)
			vpAssert(gerr == nil && got != nil, "C23:keyreg.old-keys-retrievable-by-id")
			if got != nil {
				vpAssert(vpAnd(vpAnd(bytes.Equal(got.Data, r.data), bytes.Equal(got.Iv, r.iv)), vpAnd(got.CreatedAt == r.created, got.KeyId == r.id)),
					"C23:keyreg.old-keys-unchanged")
			}
		}
	}
	if klen > 0 {
		vpObserveU64("keys", uint64(len(ref)))
	}
	_, gerr := kr.DataKey(uint64(len(ref)) + 1)
	vpAssert(gerr != nil, "C23:keyreg.unknown-id-rejected") // (y.Wrapf flattens ErrInvalidDataKeyID into text: no errors.Is)
	nilKey, nerr := kr.DataKey(0)
	vpAssert(nilKey == nil && nerr == nil, "C23:keyreg.id-zero-is-plaintext")
	vpAssert(kr.Close() == nil, "C23:keyreg.close")
	open := 0
	for _, h := range fs.hs {
		if !h.closed {
			open++
		}
	}
	vpAssert(open == 0 && fs.bad == "", "C23:keyreg.no-descriptor-left-open")

	// ---- optional rewrite of the whole registry, as master-key rotation (`badger rotate`) does:
	// the real WriteKeyRegistry dumps reg.dataKeys in MAP order, so after it the newest key need
	// not be the last record of the file ----
	if len(ref) >= 2 && vpChoose("rewrite", 2) == 1 {
		vpConfig("maporder", 1)
		werr := WriteKeyRegistry(kr, opt)
		vpConfig("maporder", 0)
		vpAssert(werr == nil, "C23:keyreg.rewrite-succeeds")
		f = fs.lookup(path)
		vpAssert(f != nil && f.exists, "C23:keyreg.rewrite-succeeds")
		vpCover("keyreg.rewritten")
	}

	// ---- re-open ----
	image := append([]byte{}, f.data...)
	mode := vpChoose("reopen", 4)
	opt2 := opt
	switch mode {
	case 1:
		opt2.ReadOnly = true
	case 2:
		if klen == 0 {
			return // covered by mode 3
		}
		K2 := vpBytes("K2", klen)
		vpAssume(vpNot(bytes.Equal(K, K2)))
		opt2.EncryptionKey = K2
	case 3:
		if klen == 0 {
			opt2.EncryptionKey = vpBytes("K2", 16)
		} else {
			opt2.EncryptionKey = nil
		}
	}
	fs.armed, fs.muts, fs.attempts = true, nil, nil
	nr0 := len(rnd.out)
	kr2, err := OpenKeyRegistry(opt2)
	open = 0
	for _, h := range fs.hs {
		if !h.closed {
			open++
		}
	}
	if mode >= 2 {
		// what validRegistry compares, recomputed through the same keystream model
		iv := image[:16]
		stored := image[16 : 16+len(sanityText)]
		var seen []byte = stored
		if len(opt2.EncryptionKey) > 0 {
			seen, _ = y.XORBlockAllocate(stored, opt2.EncryptionKey, iv)
		}
		collide := bytes.Equal(seen, sanityText)
		mismatch := errors.Is(err, ErrEncryptionKeyMismatch)
		vpCover("keyreg.reopen-with-different-key")
		vpAssert(vpOr(mismatch, collide), "C23:keyreg.different-key-refused-unless-keystreams-collide-on-sanity-text")
		vpAssert(vpImplies(vpNot(collide), vpAnd(mismatch, kr2 == nil)), "C23:keyreg.mismatch-returns-no-registry")
		vpAssert(vpAnd(len(fs.muts) == 0 && len(fs.attempts) == 0 && len(rnd.out) == nr0, bytes.Equal(f.data, image)),
			"C23:keyreg.different-key-changes-nothing")
		if err != nil {
			vpCover("keyreg.mismatch")
			vpAssert(open == 0 && fs.bad == "", "C23:keyreg.mismatch-leaves-no-descriptor-open")
		}
		return
	}
	vpCover("keyreg.reopen-with-same-key")
	vpAssert(err == nil && kr2 != nil, "C23:keyreg.same-key-reopens")
	if err != nil || kr2 == nil {
		return
	}
	vpAssert(vpAnd(len(fs.muts) == 0 && len(fs.attempts) == 0 && len(rnd.out) == nr0, bytes.Equal(f.data, image)),
		"C23:keyreg.reopen-changes-nothing")
	if mode == 1 {
		vpCover("keyreg.reopen-read-only")
		vpAssert(open == 0 && kr2.fp == nil, "C23:keyreg.read-only-reopen-keeps-no-descriptor")
	} else {
		vpAssert(open == 1 && kr2.fp != nil, "C23:keyreg.reopen-keeps-the-registry-file-open")
	}
	// the same data keys: ids, key bytes, IVs, creation times; and the rotation state
	vpAssert(len(kr2.dataKeys) == len(ref), "C23:keyreg.reread-has-the-same-number-of-keys")
	maxCreated := int64(0)
	for _, r := range ref {
		got, gerr := kr2.DataKey(r.id)
		vpAssert(gerr == nil && got != nil, "C23:keyreg.reread-has-every-key-id")
		if got != nil {
			vpAssert(vpAnd(vpAnd(bytes.Equal(got.Data, r.data), bytes.Equal(got.Iv, r.iv)), vpAnd(got.CreatedAt == r.created, got.KeyId == r.id)),
				"C23:keyreg.reread-key-equals-written-key")
		}
		maxCreated = r.created // creation times are non-decreasing in id order
	}
	vpAssert(vpAnd(kr2.nextKeyID == uint64(len(ref)), kr2.lastCreated == maxCreated), "C23:keyreg.reread-rotation-state")

	// one more LatestDataKey on the re-read registry
	if klen == 0 || mode == 1 {
		return
	}
	fs.muts = nil
	nr0, ns0 := len(rnd.out), len(sinceReads)
	dk, err := kr2.LatestDataKey()
	vpAssert(err == nil && dk != nil && len(sinceReads) > ns0, "C23:keyreg.latest-after-reopen-succeeds")
	if err != nil || dk == nil || len(sinceReads) == ns0 {
		return
	}
	vpAssert(sinceArg[ns0] == maxCreated, "C23:keyreg.age-measured-from-the-newest-key")
	due := sinceDur[ns0] >= rot
	if len(rnd.out) == nr0 {
		vpCover("keyreg.after-reopen-within-interval")
		vpAssert(vpNot(due), "C23:keyreg.key-reused-only-within-the-rotation-interval")
		vpAssert(len(ref) > 0 && dk.KeyId == uint64(len(ref)) && len(fs.muts) == 0, "C23:keyreg.latest-after-reopen-is-the-newest-stored-key")
		if len(ref) > 0 {
			vpAssert(bytes.Equal(dk.Data, ref[len(ref)-1].data), "C23:keyreg.latest-after-reopen-is-the-newest-stored-key")
		}
	} else {
		vpCover("keyreg.after-reopen-new-key")
		vpAssert(due, "C23:keyreg.new-key-only-after-the-rotation-interval")
		vpAssert(dk.KeyId == uint64(len(ref))+1 && len(fs.muts) == 1 && fs.muts[0] == "write "+path,
			"C23:keyreg.new-key-id-is-old-plus-one")
		for _, r := range ref {
			got, gerr := kr2.DataKey(r.id)
			vpAssert(vpAnd(gerr == nil && got != nil, bytes.Equal(got.Data, r.data)), "C23:keyreg.old-keys-retrievable-by-id")
		}
	}
}

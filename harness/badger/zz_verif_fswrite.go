package badger

import (
	"bytes"
	"strings"

	"github.com/dgraph-io/badger/v4/y"
	"github.com/dgraph-io/ristretto/v2/z"
)

// H-FSORDER / write path of one request (= one committed transaction: two entries with bitTxn and
// the end-of-transaction marker): the REAL DB.writeRequests -> REAL valueLog.write (validateWrites,
// encodeEntry, stores through the mapping, growth by logFile.Truncate, the deferred Sync, toDisk:
// doneWriting + createVlogFile on rotation) -> REAL ensureRoomForWrite (memtable rotation:
// newMemTable -> openMemTable -> logFile.open -> bootstrap) -> REAL writeToLSM -> REAL memTable.Put
// -> logFile.writeEntry (encodeEntry, store through the mapping, zeroNextEntry) -> REAL SyncWAL ->
// z.Msync, REAL publisher.sendUpdates (no subscriber), the REAL acknowledgement (req.Err, Wg.Done),
// over the abstract file system. The first memtable and the first value-log file are created by
// the real newMemTable / createVlogFile in the order Open uses (memtable, directory fsync of
// newLevelsController, value log) before the fault schedule is armed.
// Stubbed besides the file system and vpFSetup's stubs: vlogThreshold.update (drops the sizes).
//
// I2 at the acknowledgement (writeRequests returned and req.Err == nil):
//   crash model  - the WAL bytes in the file (page cache) replay, through the REAL logFile.iterate,
//                  to exactly the request's entries, and every value pointer among them decodes
//                  (REAL decodeEntry on the value-log file bytes) to the value;
//   power loss   - (SyncWrites only) the same on the contents captured at the last successful
//                  msync of each file, and the files' directory entries are durable.

type vpFLogged struct {
	key  []byte
	val  []byte
	meta byte
}

// vpFReplay: REAL logFile.iterate over an image of a log file
func vpFReplay(img []byte, fid uint32) ([]vpFLogged, error) {
	if len(img) < vlogHeaderSize {
		return nil, nil
	}
	lf := &logFile{MmapFile: &z.MmapFile{Data: img}, fid: fid, path: "vp.image"}
	lf.size.Store(uint32(len(img)))
	lf.baseIV = img[8:vlogHeaderSize]
	var out []vpFLogged
	_, err := lf.iterate(true, 0, func(e Entry, vp valuePointer) error {
		out = append(out, vpFLogged{key: y.Copy(e.Key), val: y.Copy(e.Value), meta: e.meta})
		return nil
	})
	return out, err
}

func VpHWriteOrder() {
	e := vpFSetup(vpParam("fs.faults", 1))
	fs, db, dir := e.fs, e.db, e.dir
	db.opt.SyncWrites = vpBool("syncWrites")
	db.opt.ValueLogFileSize = 128
	db.opt.ValueLogMaxEntries = 1000
	big := vpChoose("value", 2) == 1 // second entry's value goes to the value log
	rotateVlog := false
	if big {
		rotateVlog = vpChoose("rotate-vlog", 2) == 1
		if rotateVlog {
			db.opt.ValueLogMaxEntries = 0 // the request's one value-log entry exceeds it: rotation in toDisk
			vpCover("write.vlog-rotation")
		}
	}
	mtFull := vpChoose("memtable-full", 2) == 1
	db.threshold = &vlogThreshold{}
	db.threshold.valueThreshold.Store(4)
	vpStub("(*badger.vlogThreshold).update", func(v *vlogThreshold, sizes []int64) {})
	db.pub = &publisher{subscribers: map[uint64]subscriber{}}
	db.flushChan = make(chan *memTable, 2)

	// as in Open: memtable, newLevelsController's directory fsync, then the value log
	mt, err := db.newMemTable()
	vpAssume(err == nil)
	db.mt = mt
	vpAssume(syncDir(dir) == nil)
	vlog := &db.vlog
	vlog.opt, vlog.db, vlog.dirPath = db.opt, db, dir
	vlog.filesMap = map[uint32]*logFile{}
	_, err = vlog.createVlogFile()
	vpAssume(err == nil)
	if mtFull {
		mt.wal.writeAt = uint32(db.opt.MemTableSize) // isFull: WAL reached MemTableSize
		vpCover("write.memtable-rotation")
	}

	const ts = 7
	bigVal := []byte("BIGVALUE")
	v2 := []byte("v2")
	if big {
		v2 = bigVal
		vpCover("write.value-pointer")
	} else {
		vpCover("write.inline-value")
	}
	ents := []*Entry{
		{Key: y.KeyWithTs([]byte("k1"), ts), Value: []byte("v1"), meta: bitTxn},
		{Key: y.KeyWithTs([]byte("k2"), ts), Value: v2, meta: bitTxn, UserMeta: 3},
		{Key: y.KeyWithTs(txnKey, ts), Value: []byte("7"), meta: bitFinTxn},
	}
	req := &request{Entries: ents}
	req.Wg.Add(1)
	req.IncrRef()

	// crash checkpoints of the crash model: besides every file-system call, the point after each
	// record stored into the WAL mapping (a store through a MAP_SHARED mapping survives a kill).
	// At each of them the WAL replays (REAL iterate) to none or to all entries of the transaction.
	vpStub("(*badger.logFile).writeEntry", func(lf *logFile, buf *bytes.Buffer, en *Entry, opt Options) error {
		err := lf.writeEntry(buf, en, opt) // the real one
		fs.step("store WAL record", false)
		return err
	})
	fs.check = func(ev string) {
		if fs.faults > 0 {
			return
		}
		wf := fs.lookup(db.mt.wal.path)
		if wf == nil || !wf.exists {
			return
		}
		got, err := vpFReplay(wf.data, db.mt.wal.fid)
		n := len(got)
		if n == 0 {
			vpCover("write.crash-before-marker-replays-nothing")
		}
		fs.oblige("C08:write.crash-replays-none-or-all", err == nil && (n == 0 || n == 2))
	}
	fs.arm()
	werr := db.writeRequests([]*request{req})
	req.Wg.Wait() // the acknowledgement is always delivered
	if fs.faults > 0 {
		// C08 / C10 quantify over crash points of runs without I/O errors; after an injected error
		// only observations are recorded (no property speaks about failing system calls here)
		if req.Err != nil {
			vpCover("write.io-error-not-acknowledged")
			return
		}
		vpCover("write.io-error-acknowledged")
		for _, op := range fs.faultOps {
			if db.opt.SyncWrites && big && strings.HasPrefix(op, "msync ") && strings.HasSuffix(op, ".vlog") {
				// valueLog.write only logs the error of its deferred curlf.Sync(): the request is
				// acknowledged although its value-log bytes were not synced (reported, not asserted)
				vpCover("write.acked-despite-vlog-msync-error")
			}
		}
		return
	}
	vpFDischarge(fs)
	vpAssert(werr == nil && req.Err == nil, "C08:write.succeeds-without-io-error")
	vpAssert(fs.bad == "", "C08:write.file-handle-discipline")
	vpCover("write.acknowledged")
	if db.opt.SyncWrites {
		vpCover("write.acknowledged-syncwrites")
	}
	if mtFull {
		vpAssert(db.mt != mt && len(db.imm) == 1, "C08:write.rotated-memtable")
	}

	// ---- I2 ----
	wal := db.mt.wal
	wf := fs.lookup(wal.path)
	// expected log content of the request: keys, metas, and values (inline or pointer)
	check := func(img []byte, vimg func(fid uint32) []byte) bool {
		got, err := vpFReplay(img, wal.fid)
		if err != nil || len(got) != 2 {
			return false
		}
		ok := true
		for i := 0; i < 2; i++ {
			ok = ok && bytes.Equal(got[i].key, ents[i].Key)
			if i == 1 && big {
				ok = ok && got[i].meta == bitTxn|bitValuePointer
				if len(got[i].val) != int(vptrSize) {
					return false
				}
				var vp valuePointer
				vp.Decode(got[i].val)
				vi := vimg(vp.Fid)
				if vi == nil || int(vp.Offset)+int(vp.Len) > len(vi) {
					return false
				}
				vlf := &logFile{MmapFile: &z.MmapFile{Data: vi}, fid: vp.Fid}
				ve, err := vlf.decodeEntry(vi[vp.Offset:vp.Offset+vp.Len], vp.Offset)
				ok = ok && err == nil && ve != nil && bytes.Equal(ve.Value, bigVal) && bytes.Equal(ve.Key, ents[i].Key)
			} else {
				ok = ok && got[i].meta == bitTxn && bytes.Equal(got[i].val, ents[i].Value)
			}
		}
		return ok
	}
	vfile := func(fid uint32) *vpFFile { return fs.lookup(vlog.fpath(fid)) }
	crash := wf != nil && wf.exists && check(wf.data, func(fid uint32) []byte {
		if f := vfile(fid); f != nil && f.exists {
			return f.data
		}
		return nil
	})
	vpAssert(crash, "C08:write.i2-acked-request-in-wal-and-vlog")
	// the skiplist got the two entries (not the marker) after the WAL
	vpAssert(len(e.puts) == 2 && e.puts[0] == string(ents[0].Key) && e.puts[1] == string(ents[1].Key), "C08:write.memtable-gets-entries")

	if db.opt.SyncWrites {
		// power loss: synced contents, and durable directory entries
		usedV := uint32(0)
		content := wf != nil && wf.exists && wf.synced && check(wf.snap, func(fid uint32) []byte {
			usedV = fid
			if f := vfile(fid); f != nil && f.exists && f.synced {
				return f.snap
			}
			return nil
		})
		dirents := wf != nil && wf.dirDur
		gapOnlyNew := wf != nil && (wf.dirDur || wf.isNew)
		if big && usedV != 0 {
			vf := vfile(usedV)
			dirents = dirents && vf.dirDur
			gapOnlyNew = gapOnlyNew && (vf.dirDur || vf.isNew)
		}
		power := content && dirents
		if power {
			vpCover("write.durable-at-ack")
		}
		if content && mtFull {
			vpCover("write.synced-after-memtable-rotation")
		}
		if content && rotateVlog {
			vpCover("write.synced-after-vlog-rotation")
		}
		// known class: contents are synced; the only thing missing is the directory entry of a file
		// this process created (.vlog at Open / rotation, .mem at rotation) and no directory fsync
		// followed
		known := content && !dirents && gapOnlyNew
		vpAssertKnown(vpFSym(power), "C10:write.i2-acked-request-durable", vpFSym(known), vpFKeyDirsync)
	}
}

// vpFSym turns a concrete verdict into a symbolic one (vpAssertKnown ends the path on a
// concretely false condition before the outside-class query is made)
func vpFSym(b bool) bool {
	x := vpBool("verdict")
	vpAssume(x == b)
	return x
}

// VpHWriteBatchOrder: one write batch of TWO requests (what doWrites hands to writeRequests when
// commits arrive concurrently), where the memtable may become full on the first request so that
// ensureRoomForWrite rotates to a new memtable (a new .mem file) between the two. With SyncWrites
// each acknowledged request's WAL bytes must be covered by an msync of the file that holds them —
// also the request that went into the OLD memtable's WAL. Same environment as VpHWriteOrder,
// fault-free runs only.
func VpHWriteBatchOrder() {
	e := vpFSetup(0)
	fs, db, dir := e.fs, e.db, e.dir
	db.opt.SyncWrites = vpBool("syncWrites")
	db.opt.ValueLogFileSize = 128
	db.opt.ValueLogMaxEntries = 1000
	db.threshold = &vlogThreshold{}
	db.threshold.valueThreshold.Store(64) // both values stay inline
	vpStub("(*badger.vlogThreshold).update", func(v *vlogThreshold, sizes []int64) {})
	db.pub = &publisher{subscribers: map[uint64]subscriber{}}
	db.flushChan = make(chan *memTable, 2)
	mt, err := db.newMemTable()
	vpAssume(err == nil)
	db.mt = mt
	vpAssume(syncDir(dir) == nil)
	vlog := &db.vlog
	vlog.opt, vlog.db, vlog.dirPath = db.opt, db, dir
	vlog.filesMap = map[uint32]*logFile{}
	_, err = vlog.createVlogFile()
	vpAssume(err == nil)

	// when does the memtable count as full: never, already before the batch, or as soon as the
	// first request's record is in the WAL (rotation between the two requests)
	switch vpChoose("memtable-full", 3) {
	case 1:
		mt.wal.writeAt = uint32(db.opt.MemTableSize)
		vpCover("wbatch.rotation-before-batch")
	case 2:
		// the first record stored into the WAL brings it to MemTableSize (modelled by moving the
		// write position there right after the real writeEntry: nothing else is written to this
		// WAL afterwards, and its image still replays to the record)
		first := true
		vpStub("(*badger.logFile).writeEntry", func(lf *logFile, buf *bytes.Buffer, en *Entry, opt Options) error {
			err := lf.writeEntry(buf, en, opt) // the real one
			if first && lf == mt.wal {
				first = false
				lf.writeAt = uint32(db.opt.MemTableSize)
			}
			return err
		})
		vpCover("wbatch.rotation-between-requests")
	}
	mk := func(k string, ts uint64) *request {
		r := &request{Entries: []*Entry{{Key: y.KeyWithTs([]byte(k), ts), Value: []byte("v-" + k)}}}
		r.Wg.Add(1)
		r.IncrRef()
		return r
	}
	reqs := []*request{mk("k1", 7), mk("k2", 8)}
	fs.arm()
	werr := db.writeRequests(reqs)
	for _, r := range reqs {
		r.Wg.Wait()
	}
	vpAssert(werr == nil && reqs[0].Err == nil && reqs[1].Err == nil, "C08:wbatch.succeeds-without-io-error")
	vpAssert(fs.bad == "", "C08:wbatch.file-handle-discipline")

	// every WAL that exists: the active memtable's and those of the immutable ones
	wals := []*logFile{db.mt.wal}
	for _, im := range db.imm {
		wals = append(wals, im.wal)
	}
	holds := func(img []byte, fid uint32, key []byte) bool {
		got, err := vpFReplay(img, fid)
		if err != nil {
			return false
		}
		for _, g := range got {
			if bytes.Equal(g.key, key) {
				return true
			}
		}
		return false
	}
	for i, r := range reqs {
		key := r.Entries[0].Key
		inCache, durable, gapOnlyNew := false, false, true
		for _, w := range wals {
			wf := fs.lookup(w.path)
			if wf == nil || !wf.exists {
				continue
			}
			if holds(wf.data, w.fid, key) {
				inCache = true
				if wf.synced && holds(wf.snap, w.fid, key) {
					durable = wf.dirDur
					gapOnlyNew = wf.dirDur || wf.isNew
					if !wf.dirDur && wf.isNew {
						durable = false
					}
				} else {
					gapOnlyNew = false // the CONTENT is not synced: not the known directory-entry class
				}
			}
		}
		vpAssert(inCache, "C08:wbatch.i2-acked-request-in-wal")
		if db.opt.SyncWrites {
			if i == 0 {
				vpCover("wbatch.syncwrites")
			}
			known := !durable && gapOnlyNew
			vpAssertKnown(vpFSym(durable), "C10:wbatch.i2-every-acked-request-durable", vpFSym(known), vpFKeyDirsync)
		}
	}
}

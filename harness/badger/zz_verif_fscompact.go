package badger

import (
	"os"
	"time"

	"github.com/dgraph-io/badger/v4/options"
	"github.com/dgraph-io/badger/v4/pb"
	"github.com/dgraph-io/badger/v4/table"
	"github.com/dgraph-io/badger/v4/y"
	"github.com/dgraph-io/ristretto/v2/z"
)

// H-FSORDER / compaction: the REAL levelsController.runCompactDef -> REAL addSplits, REAL
// compactBuildTables (its goroutines run as coroutines: one sub-compaction per split, the table
// writers, the collector; REAL y.Throttle), REAL subcompact (key loop over a concrete merged
// stream of 2 entries), REAL table.CreateTable per output table, REAL DB.syncDir, REAL
// buildChangeSet, REAL manifestFile.addChanges, REAL levelHandler.replaceTables / deleteTables /
// decrRefs -> REAL Table.DecrRef -> MmapFile.Delete (munmap, ftruncate, close, unlink), REAL deferred
// decr() of the new tables, over the abstract file system of zz_verif_fsorder.go.
// Stubbed besides the file system and the stubs of vpFSetup: table.NewMergeIterator (a list
// iterator that keeps and closes the real child iterators, so the table references taken by
// NewIterator / NewConcatIterator are real), table.NewTableBuilder, Builder.Add / AddStaleKey
// (counters), Builder.ReachedCapacity (decides 1 or 2 output tables), valueLog.updateDiscardStats,
// time.Now / time.Since (fixed).

type vpFMergeIter struct {
	children []y.Iterator
	keys     [][]byte
	vals     []y.ValueStruct
	pos      int
}

func (l *vpFMergeIter) Next()   { l.pos++ }
func (l *vpFMergeIter) Rewind() { l.pos = 0 }
func (l *vpFMergeIter) Seek(key []byte) {
	l.pos = len(l.keys)
	for i := range l.keys {
		if y.CompareKeys(l.keys[i], key) >= 0 {
			l.pos = i
			break
		}
	}
}
func (l *vpFMergeIter) Key() []byte          { return l.keys[l.pos] }
func (l *vpFMergeIter) Value() y.ValueStruct { return l.vals[l.pos] }
func (l *vpFMergeIter) Valid() bool          { return l.pos >= 0 && l.pos < len(l.keys) }
func (l *vpFMergeIter) Close() error {
	var err error
	for _, c := range l.children {
		if e := c.Close(); e != nil && err == nil {
			err = e
		}
	}
	return err
}

// existing table of an earlier run: durable file, opened with the real z.OpenMmapFile
func (e *vpFEnv) oldTable(id uint64, lo, hi string) *table.Table {
	name := vpFSst(e.dir, id)
	e.fs.seed(name, append([]byte{}, e.img...))
	mf, err := z.OpenMmapFile(name, os.O_RDWR, 0)
	vpAssume(err == nil)
	return table.VpFSTable(mf, id, y.KeyWithTs([]byte(lo), 5), y.KeyWithTs([]byte(hi), 5), false)
}

func VpHCompactOrder() {
	e := vpFSetup(vpParam("fs.faults", 1))
	fs, db, dir := e.fs, e.db, e.dir
	s := db.lc
	db.orc = &oracle{isManaged: true, discardTs: 0}
	db.opt.NumVersionsToKeep = 1
	db.opt.NamespaceOffset = -1
	db.opt.LevelSizeMultiplier = 10
	db.vlog.db = db
	vpStub("time.Now", func() time.Time { return time.Unix(1000, 0) })
	vpStub("time.Since", func(t time.Time) time.Duration { return 0 })
	vpStub("(*badger.valueLog).updateDiscardStats", func(v *valueLog, stats map[uint32]int64) {})

	// merged input stream: a@5, b@5; output: one table, or two when the first builder reports
	// "capacity reached" after one key
	twoOut := vpChoose("outputs", 2) == 1
	adds := 0
	vpStub("badger/table.NewTableBuilder", func(opts table.Options) *table.Builder { adds = 0; return table.VpFSBuilder() })
	vpStub("(*badger/table.Builder).Add", func(b *table.Builder, key []byte, v y.ValueStruct, vl uint32) { adds++ })
	vpStub("(*badger/table.Builder).AddStaleKey", func(b *table.Builder, key []byte, v y.ValueStruct, vl uint32) { adds++ })
	vpStub("(*badger/table.Builder).ReachedCapacity", func(b *table.Builder) bool { return twoOut && adds >= 1 })
	vpStub("(*badger/table.Builder).Empty", func(b *table.Builder) bool { return adds == 0 })
	vpStub("badger/table.NewMergeIterator", func(iters []y.Iterator, reverse bool) y.Iterator {
		return &vpFMergeIter{children: iters,
			keys: [][]byte{y.KeyWithTs([]byte("a"), 5), y.KeyWithTs([]byte("b"), 5)},
			vals: []y.ValueStruct{{Value: []byte("1"), Version: 5}, {Value: []byte("2"), Version: 5}}}
	})

	// tables of the earlier run: 1 (level 0, top), 2 (level 1, bottom; absent in shape 1), 3 (level 1,
	// not part of the compaction)
	shape := vpChoose("shape", 2)
	t1 := e.oldTable(1, "a", "b")
	t3 := e.oldTable(3, "x", "z")
	var bot []*table.Table
	initial := []uint64{1, 3}
	if shape == 0 {
		bot = []*table.Table{e.oldTable(2, "a", "c")}
		initial = []uint64{1, 2, 3}
		vpCover("compact.with-bottom-table")
	} else {
		vpCover("compact.no-bottom-table")
	}
	err := db.manifest.addChanges(vpFCreates(initial), db.opt)
	vpAssume(err == nil)
	s.levels[0].initTables([]*table.Table{t1})
	s.levels[1].initTables(append([]*table.Table{t3}, bot...))
	s.nextFileID.Store(4)
	firstNew := uint64(4)
	e.rng = func(id uint64) ([]byte, []byte) {
		if !twoOut {
			return y.KeyWithTs([]byte("a"), 5), y.KeyWithTs([]byte("b"), 5)
		}
		if id == firstNew || id == firstNew+2 { // ids alternate per attempt; ranges only have to be disjoint
			return y.KeyWithTs([]byte("a"), 5), y.KeyWithTs([]byte("a"), 5)
		}
		return y.KeyWithTs([]byte("b"), 5), y.KeyWithTs([]byte("b"), 5)
	}

	e.mm = vpFTrackManifest(fs, dir+"/"+ManifestFilename, e.codec, initial)
	mm := e.mm
	inputs := []uint64{1}
	if shape == 0 {
		inputs = []uint64{1, 2}
	}

	nOut := 1
	if twoOut {
		nOut = 2
	}
	fs.check = func(ev string) {
		e.obligeI1("compact", false)
		// I4: an input table's file is gone (or cut to zero by MmapFile.Delete) only if a change
		// set that deletes it and creates ALL output tables (one per builder the sub-compaction
		// finished), each complete, is in the MANIFEST.
		i4c, i4p := true, true
		for _, in := range inputs {
			if e.crashOK(in) {
				continue
			}
			vpCover("compact.input-removed")
			okc, okp := false, false
			for _, r := range mm.recs {
				del := false
				for _, d := range r.deletes {
					del = del || d == in
				}
				if !del {
					continue
				}
				allc, allp := true, true
				for _, c := range r.creates {
					allc = allc && e.crashOK(c)
					allp = allp && e.powerOK(c)
				}
				full := len(r.creates) == nOut
				okc = okc || (allc && full)
				okp = okp || (allp && full && r.synced)
			}
			i4c, i4p = i4c && okc, i4p && okp
		}
		if fs.faults == 0 {
			fs.oblige("C08:compact.i4-inputs-removed-after-manifest", i4c)
			fs.oblige("C10:compact.i4-inputs-removed-after-durable-manifest", i4p)
			fs.oblige("C08:compact.uninvolved-table-untouched", e.crashOK(3) && e.powerOK(3))
		} else {
			// after an injected I/O error: a compaction that could not write all its outputs must
			// keep its inputs (regression check for the `defer inflightBuilders.Done(err)` defect)
			fs.oblige("C12:compact.failed-output-keeps-inputs", i4c)
			fs.oblige("C14:compact.uninvolved-table-untouched-after-io-error", e.crashOK(3))
		}
	}

	cd := compactDef{compactorId: 0, thisLevel: s.levels[0], nextLevel: s.levels[1], top: []*table.Table{t1}, bot: bot,
		thisRange: getKeyRange(t1), nextRange: getKeyRange(bot...),
		t: targets{baseLevel: 1, targetSz: []int64{1 << 20, 1 << 20, 1 << 20}, fileSz: []int64{1 << 20, 1 << 20, 1 << 20}}}

	fs.arm()
	err = s.runCompactDef(0, 0, cd)

	vpFDischarge(fs)
	if twoOut {
		vpCover("compact.two-outputs")
	}
	l0, l1 := s.levels[0].tables, s.levels[1].tables
	if fs.faults == 0 {
		vpCover("compact.no-fault")
		vpAssert(fs.bad == "", "C08:compact.file-handle-discipline")
		vpAssert(mm.bad == "", "C08:compact.manifest-records-wellformed")
		vpAssert(err == nil, "C08:compact.succeeds-without-io-error")
		// outputs listed and present with one reference, inputs unlisted and removed
		vpAssert(len(l0) == 0 && len(l1) == nOut+1, "C08,C14:compact.done-levels")
		for _, t := range l1 {
			vpAssert(mm.written[t.ID()] && e.crashOK(t.ID()) && table.VpFSRefs(t) == 1, "C08,C14:compact.done-tables-listed-present-one-ref")
		}
		for _, in := range inputs {
			f := fs.lookup(vpFSst(dir, in))
			vpAssert(!mm.written[in] && !f.exists, "C08,C14:compact.done-inputs-unlisted-and-removed")
		}
	} else {
		vpAssert(fs.bad == "" && mm.bad == "", "C14:compact.io-error-file-handle-discipline")
		if err != nil {
			vpCover("compact.failed")
			// a failed compaction leaves the levels as they were: reads are unchanged
			same := len(l0) == 1 && l0[0] == t1 && len(l1) == 1+len(bot) && table.VpFSRefs(t1) >= 1 && e.crashOK(1)
			for _, t := range bot {
				same = same && table.VpFSRefs(t) >= 1 && e.crashOK(t.ID())
			}
			if !mm.written[1] {
				// the change set reached the MANIFEST although addChanges reported an error
				vpCover("compact.failed-after-manifest-write")
			} else {
				vpAssert(same, "C12:compact.failed-compaction-keeps-levels")
			}
		} else {
			vpCover("compact.succeeded-despite-io-error")
			// success: every output of the sub-compaction is in the level (none silently dropped)
			vpAssert(len(l1) == nOut+1, "C12:compact.failed-output-keeps-inputs")
		}
	}
}

// create records of the earlier run: table 1 on level 0, the others on level 1
func vpFCreates(ids []uint64) []*pb.ManifestChange {
	var out []*pb.ManifestChange
	for _, id := range ids {
		lvl := 1
		if id == 1 {
			lvl = 0
		}
		out = append(out, newCreateChange(id, lvl, 0, options.None))
	}
	return out
}

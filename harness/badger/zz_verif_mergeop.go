package badger

import (
	"bytes"

	"github.com/dgraph-io/badger/v4/y"
)

// H-MERGEOP: the real MergeOperator (Add, Get, iterateAndMerge, compact) over the real
// badger.Iterator (NewKeyIterator, Rewind/Valid/Next/Item, prefetch, Item.Value/ValueCopy,
// IsDeletedOrExpired, DiscardEarlierVersions), the real DB.View / DB.Update / Txn.SetEntry /
// Txn.Discard / DB.batchSetAsync / DB.sendToWriteCh. The merge function is the UNINTERPRETED
// function f(existing, new) on 1-byte values, so operand order, bracketing, double counting
// and dropped operands are all observable.
//
// Seams (everything below them is the harness):
//   DB.NewTransaction      -> a Txn that reads at the newest committed version
//   Txn.NewIterator        -> the real Iterator over a harness y.Iterator holding a snapshot of
//                             the versions written so far (+ a decoy user key on either side)
//   Txn.Commit             -> the pending write becomes the next version (meta | bitTxn)
//   db.writeCh             -> the harness is the write pipeline: it takes compact()'s request
//                             off the channel at a chosen later time (possibly after further
//                             Adds and compacts) and stores its entry; an entry with the
//                             internal key of an existing one replaces it (the later write of
//                             one internal key wins: decided by H-GET / H-SKL)
//   runCompactions         -> the harness calls compact() after any Add
//   LSM compaction         -> harness model of the contract decided by H-SUBCOMPACT with
//                             NumVersionsToKeep = 1: below a discard timestamp every version
//                             older than the newest non-merge entry of the key is dropped,
//                             merge entries are never a boundary.
//
// Reading of C31 (mergeop.assoc=1): iterateAndMerge folds from the newest version down,
// newVal = f(older, newVal), so without a write-back Get is f(v1, f(v2, v3)) and after a
// write-back of W = f(v1,v2) it is f(W, v3): the operand ORDER is the Add order, the
// bracketing depends on when the background merge ran. The harness therefore assumes f
// associative on the values that occur (ground instances over all contiguous runs) and
// asserts equality with the left fold. mergeop.assoc=0 drops the assumption (strict reading:
// exact left fold for every f) and fails on the code as it is.

type vpMoVer struct {
	ver  uint64
	meta byte
	val  []byte
}

type vpMoIter struct {
	keys [][]byte
	vals []y.ValueStruct
	pos  int
}

func (l *vpMoIter) Next()   { l.pos++ }
func (l *vpMoIter) Rewind() { l.pos = 0 }
func (l *vpMoIter) Seek(key []byte) {
	l.pos = len(l.keys)
	for i := range l.keys {
		if y.CompareKeys(l.keys[i], key) >= 0 {
			l.pos = i
			break
		}
	}
}
func (l *vpMoIter) Key() []byte          { return l.keys[l.pos] }
func (l *vpMoIter) Value() y.ValueStruct { return l.vals[l.pos] }
func (l *vpMoIter) Valid() bool          { return l.pos >= 0 && l.pos < len(l.keys) }
func (l *vpMoIter) Close() error         { return nil }

func vpMoF(a, b uint64) uint64 { return vpUF("f", 8, a, b) & 0xff }

func VpHMergeOp() {
	maxAdds := vpParam("mergeop.adds", 3)
	assoc := vpParam("mergeop.assoc", 1)
	anyDiscardTs := vpParam("mergeop.discardts", 0)

	nAdds := vpChoose("adds", maxAdds+1)
	vals := make([]byte, nAdds)
	for i := range vals {
		vals[i] = vpU8("val")
	}
	// fold[i][j] = left fold of vals[i..j]
	fold := make([][]uint64, nAdds)
	for i := 0; i < nAdds; i++ {
		fold[i] = make([]uint64, nAdds)
		fold[i][i] = uint64(vals[i])
		for j := i + 1; j < nAdds; j++ {
			fold[i][j] = vpMoF(fold[i][j-1], uint64(vals[j]))
		}
	}
	if assoc == 1 {
		for i := 0; i < nAdds; i++ {
			for j := i + 1; j < nAdds; j++ {
				for k := i; k < j; k++ {
					vpAssume(vpMoF(fold[i][k], fold[k+1][j]) == fold[i][j])
				}
			}
		}
	}

	key := vpBytes("key", 2)
	decoyLo := []byte{key[0]}                              // proper prefix: sorts before every version of key
	decoyHi := []byte{key[0], key[1], vpU8("decoy.suffix")} // key + one byte: sorts after
	decoyLoV := y.ValueStruct{Meta: bitMergeEntry, Value: []byte{vpU8("decoy.lo.val")}}
	decoyHiV := y.ValueStruct{Meta: bitMergeEntry, Value: []byte{vpU8("decoy.hi.val")}}

	var store []vpMoVer // newest first
	lastTs := uint64(0)
	put := func(v vpMoVer) {
		for i := range store {
			if store[i].ver == v.ver {
				store[i] = v
				return
			}
			if store[i].ver < v.ver {
				store = append(store[:i], append([]vpMoVer{v}, store[i:]...)...)
				return
			}
		}
		store = append(store, v)
	}
	snapshot := func() *vpMoIter {
		li := &vpMoIter{}
		li.keys = append(li.keys, y.KeyWithTs(decoyLo, 1))
		li.vals = append(li.vals, decoyLoV)
		for _, v := range store {
			li.keys = append(li.keys, y.KeyWithTs(key, v.ver))
			li.vals = append(li.vals, y.ValueStruct{Meta: v.meta, Value: v.val, Version: v.ver})
		}
		li.keys = append(li.keys, y.KeyWithTs(decoyHi, 1))
		li.vals = append(li.vals, decoyHiV)
		return li
	}

	db := &DB{}
	db.opt.NamespaceOffset = -1
	db.opt.ValueLogFileSize = 1 << 20
	db.opt.maxBatchCount = 1000
	db.opt.maxBatchSize = 1 << 20
	db.opt.DetectConflicts = false
	db.orc = &oracle{isManaged: true} // Txn.Discard: no read mark to release (no real oracle here)
	db.threshold = &vlogThreshold{}
	db.threshold.valueThreshold.Store(1 << 10)
	db.writeCh = make(chan *request, 16)

	vpStub("(*badger.DB).NewTransaction", func(db *DB, update bool) *Txn {
		t := &Txn{update: update, db: db, readTs: lastTs}
		if update {
			t.pendingWrites = make(map[string]*Entry)
		}
		return t
	})
	vpStub("(*badger.Txn).NewIterator", func(txn *Txn, opt IteratorOptions) *Iterator {
		txn.numIterators.Add(1)
		txn.db.vlog.incrIteratorCount()
		return &Iterator{txn: txn, iitr: snapshot(), opt: opt, readTs: txn.readTs}
	})
	vpStub("(*badger.Txn).Commit", func(txn *Txn) error {
		vpAssert(len(txn.pendingWrites) == 1, "C31:mergeop.add-writes-one-merge-entry")
		for _, e := range txn.pendingWrites {
			vpAssert(vpAnd(bytes.Equal(e.Key, key), e.meta == bitMergeEntry && len(e.Value) == 1 && e.ExpiresAt == 0),
				"C31:mergeop.add-writes-one-merge-entry")
			lastTs++
			put(vpMoVer{ver: lastTs, meta: e.meta | bitTxn, val: e.Value})
		}
		return nil
	})

	op := &MergeOperator{
		db:  db,
		key: key,
		f: func(existing, val []byte) []byte {
			vpAssert(len(existing) == 1 && len(val) == 1, "C31:mergeop.f-gets-whole-values")
			return []byte{byte(vpMoF(uint64(vpMoByte(existing)), uint64(vpMoByte(val))))}
		},
	}

	added := 0
	checkGet := func() {
		got, err := op.Get()
		if added == 0 {
			vpAssert(err == ErrKeyNotFound, "C31:mergeop.notfound-before-first-add")
			vpCover("mergeop.notfound")
			return
		}
		vpAssert(err == nil, "C31:mergeop.get-succeeds")
		vpAssert(vpAnd(len(got) == 1, uint64(vpMoByte(got)) == fold[0][added-1]), "C31:mergeop.get-is-fold-in-add-order")
	}
	// the write pipeline: store what compact() sent
	pending := 0
	applyWrites := func() {
		for pending > 0 {
			req := <-db.writeCh
			pending--
			vpAssert(len(req.Entries) == 1, "C31:mergeop.writeback-is-one-entry")
			for _, e := range req.Entries {
				ts := y.ParseTs(e.Key)
				vpAssert(bytes.Equal(y.ParseKey(e.Key), key), "C31:mergeop.writeback-is-one-entry")
				// version of the newest operand it merged: some Add's version
				vpAssert(ts >= 2 && ts <= lastTs, "C31:mergeop.writeback-at-version-of-newest-operand")
				vpAssert(e.meta&bitDiscardEarlierVersions != 0 && e.meta&bitMergeEntry == 0 && e.meta&bitDelete == 0 && e.ExpiresAt == 0,
					"C31:mergeop.writeback-makes-older-versions-droppable")
				if ts >= 1 && ts <= lastTs {
					vpAssert(vpAnd(len(e.Value) == 1, uint64(vpMoByte(e.Value)) == fold[0][ts-1]), "C31:mergeop.writeback-carries-fold-so-far")
				}
				put(vpMoVer{ver: ts, meta: e.meta, val: e.Value})
				vpCover("mergeop.writeback-stored")
			}
			req.Err = nil
			req.Wg.Done()
		}
		vpYield() // batchSetAsync's goroutine runs its callback
	}
	// LSM compaction of the key (contract, see above)
	lsmCompact := func(discardTs uint64) {
		var out []vpMoVer
		for i, v := range store {
			out = append(out, v)
			if v.ver <= discardTs && v.meta&bitMergeEntry == 0 {
				if i < len(store)-1 {
					vpCover("mergeop.lsm-dropped-older-versions")
				}
				break
			}
		}
		store = out
	}

	checkGet() // ErrKeyNotFound before the first Add (decoy keys present)
	for added < nAdds {
		err := op.Add([]byte{vals[added]})
		vpAssert(err == nil, "C31:mergeop.add-accepted")
		added++
		checkGet()
		after := vpChoose("after", 8)
		if after&1 != 0 {
			before := len(db.writeCh)
			err := op.compact()
			vpAssert(err == nil, "C31:mergeop.compact-succeeds")
			pending += len(db.writeCh) - before
			vpCover("mergeop.compact")
			checkGet()
		}
		if after&2 != 0 {
			if pending > 0 && added < nAdds {
				vpCover("mergeop.writeback-lands-now")
			}
			applyWrites()
			checkGet()
		} else if pending > 0 && added < nAdds {
			vpCover("mergeop.writeback-delayed-past-an-add")
		}
		if after&4 != 0 {
			d := lastTs
			if anyDiscardTs == 1 {
				d = uint64(vpChoose("discardTs", int(lastTs)+1))
			}
			lsmCompact(d)
			checkGet()
		}
	}
	applyWrites()
	checkGet()
	lsmCompact(lastTs)
	checkGet()
	vpAssert(len(store) >= 1 || nAdds == 0, "C31:mergeop.get-is-fold-in-add-order")
}

func vpMoByte(b []byte) byte {
	if len(b) == 0 {
		return 0
	}
	return b[0]
}

package badger

import (
	"bytes"
	"errors"
	"strconv"

	"github.com/dgraph-io/badger/v4/y"
)

// H-BATCH: the REAL WriteBatch (NewWriteBatch / NewWriteBatchAt / NewManagedWriteBatch, Set,
// SetEntry, SetEntryAt, Delete, DeleteAt, handleEntry, commit, callback, Flush, Error) over the
// REAL Txn.modify / checkSize, Txn.CommitWith -> commitAndSend -> sendToWriteCh, y.Throttle, the
// REAL oracle and watermarks (H-COMMIT's world: db.writeCh unbuffered, the harness goroutine is
// doWrites and acknowledges the requests in channel order, optionally failing one).
//
// db.opt.maxBatchCount / maxBatchSize are symbolic, so Txn.checkSize returns ErrTxnTooBig at
// every position the greedy filling of the internal transactions allows, including "not even one
// entry fits" (the permanent error).
//
// Reference model of the write path below the channel: the requests are applied in channel
// order, the entries of a request in slice order, each entry overwriting the cell of its internal
// key (user key + version) - what writeToLSM / the memtable do. The resulting cell map must equal
// the ops applied in ISSUE order, later call wins per (user key, effective version); an op
// without its own version has the commit ts of the internal transaction that took it.
//
// Bounds via vpParam: batch.ops (3) ops in modes 0/1, batch.ops2 (3) in mode 2; batch.limits (2) /
// batch.mlimits (1): which limit is symbolic in normal / managed mode (0 count, 1 size, 2 both);
// batch.fullmenu (0: mode 1 offers Set/SetEntry, Delete, SetEntryAt; 1: also DeleteAt);
// batch.failures (1) requests the harness may fail, batch.failany (0: only while every op so far
// is a plain Set of the first key); batch.mode (-1: all three modes).

type vpWbOp struct {
	key   []byte
	ver   uint64 // explicit version (SetEntryAt / DeleteAt), 0 = none
	own   bool   // carries an explicit version
	val   []byte
	meta  byte // bitDelete or 0
	umeta byte
	err   error
	txn   *Txn // the internal transaction that took the op
}

func VpHBatch() {
	vpConfig("maporder", 1)
	vpPanicID("C27:batch.no-panic")
	keys := [][]byte{[]byte("a"), []byte("b2345678")}
	// 0: NewWriteBatch (normal mode); 1: NewWriteBatchAt(commitTs), ops with and without their own
	// version; 2: NewManagedWriteBatch, every op carries its own version
	mode := vpParam("batch.mode", -1)
	if mode < 0 {
		mode = vpChoose("mode", 3)
	}
	managed := mode != 0
	w := vpTcSetup(managed, false)
	db := w.db

	// symbolic limits
	// which limit is symbolic: 0 = maxBatchCount, 1 = maxBatchSize, 2 = both
	limit := vpParam("batch.limits", 2)
	if managed {
		limit = vpParam("batch.mlimits", 1)
	}
	full := vpParam("batch.fullmenu", 0) == 1
	failAny := vpParam("batch.failany", 0) == 1
	w.failBudget = vpParam("batch.failures", 1)
	if limit != 1 {
		C := vpInt("maxBatchCount")
		vpAssume(vpAnd(C >= 0, C < 1<<20))
		db.opt.maxBatchCount = int64(C)
	}
	if limit != 0 {
		M := vpInt("maxBatchSize")
		vpAssume(vpAnd(M >= 0, M < 1<<30))
		db.opt.maxBatchSize = int64(M)
	}

	var wb *WriteBatch
	var batchTs uint64
	switch mode {
	case 0:
		wb = db.NewWriteBatch()
	case 1:
		batchTs = vpU64("commitTs")
		vpAssume(vpAnd(batchTs >= 1000, batchTs < 10000)) // one decimal digit count for the marker value
		wb = db.NewWriteBatchAt(batchTs)
	case 2:
		wb = db.NewManagedWriteBatch()
	}

	// no request is sent once an error is recorded ("No commits would be run once an error is detected")
	vpStub("(*badger.DB).sendToWriteCh", func(d *DB, entries []*Entry) (*request, error) {
		vpAssert(wb.Error() == nil, "C27:batch.no-commit-after-an-error")
		return d.sendToWriteCh(entries)
	})

	maxOps := vpParam("batch.ops", 3)
	if mode == 2 {
		maxOps = vpParam("batch.ops2", 3)
	}
	nOps := 1 + vpChoose("ops", maxOps)
	ops := make([]*vpWbOp, nOps)
	var firstOpErr error
	issued := 0
	for i := 0; i < nOps; i++ {
		if firstOpErr != nil {
			// after the first failed op one more write is issued (it must not reach the channel), then Flush
			vpCover("batch.op-after-error")
			_ = wb.Set(y.Copy(keys[0]), []byte{7})
			break
		}
		op := &vpWbOp{key: keys[vpChoose("key", 2)]}
		var del, explicit bool
		switch {
		case mode == 0:
			del = vpChoose("delete", 2) == 1
		case mode == 2:
			del = vpChoose("delete", 2) == 1
			explicit = true
		case full:
			del = vpChoose("delete", 2) == 1
			explicit = vpChoose("own-version", 2) == 1
		default: // Set/SetEntry, Delete, SetEntryAt (DeleteAt: mode 2)
			kind := vpChoose("kind", 3)
			del, explicit = kind == 1, kind == 2
		}
		op.own = explicit
		if explicit {
			op.ver = vpU64("version")
			vpAssume(op.ver >= 1)
		}
		// a request may be failed only while the ops so far are plain Sets of the first key (the error
		// path does not depend on what the entries are), unless batch.failany=1
		if !failAny && (del || explicit || !bytes.Equal(op.key, keys[0])) {
			w.failBudget = 0
		}
		k := y.Copy(op.key)
		switch {
		case del && explicit:
			op.meta = bitDelete
			op.err = wb.DeleteAt(k, op.ver)
		case del:
			op.meta = bitDelete
			op.err = wb.Delete(k)
		default:
			op.val = vpBytes("val", 1)
			v := y.Copy(op.val)
			switch {
			case explicit:
				op.umeta = vpU8("usermeta")
				op.err = wb.SetEntryAt(NewEntry(k, v).WithMeta(op.umeta), op.ver)
			case i%2 == 0:
				op.err = wb.Set(k, v)
			default:
				op.umeta = vpU8("usermeta")
				op.err = wb.SetEntry(NewEntry(k, v).WithMeta(op.umeta))
			}
		}
		op.txn = wb.txn
		if op.err != nil {
			vpCover("batch.op-error")
			if firstOpErr == nil {
				firstOpErr = op.err
			}
		}
		ops[i] = op
		issued++
	}
	ops = ops[:issued]
	nOps = issued
	ferr := wb.Flush()
	vpTcSettle()

	// ---- errors
	failed := false
	for _, r := range w.reqs {
		vpAssert(r.acked, "C27:batch.flush-returns-after-every-request-is-acknowledged")
		if r.failed {
			failed = true
			vpCover("batch.request-failed")
		}
	}
	if firstOpErr != nil || failed {
		vpCover("batch.flush-error")
		vpAssert(ferr != nil, "C27:batch.flush-returns-the-error")
		// the first error recorded: a failed request precedes every later op error (which then
		// is that same error); a permanent ErrTxnTooBig precedes later failures
		if firstOpErr != nil {
			vpAssert(errors.Is(ferr, firstOpErr), "C27:batch.flush-returns-the-first-error")
		}
		if failed && firstOpErr == nil {
			vpAssert(errors.Is(ferr, vpTcErrWrite), "C27:batch.flush-returns-the-first-error")
		}
		if firstOpErr == ErrTxnTooBig {
			vpCover("batch.permanent-toobig")
		}
		return
	}
	vpAssert(ferr == nil, "C27:batch.flush-succeeds-without-errors")
	vpCover("batch.flush-ok")
	if len(w.reqs) > 1 {
		vpCover("batch.split")
	}
	if len(w.reqs) > 2 {
		vpCover("batch.split-twice")
	}

	// ---- the requests: framing, and the commit ts of each internal transaction
	vpAssert(len(w.ncts) >= len(w.reqs), "C27:batch.one-commit-ts-per-request")
	reqOf := func(t *Txn) int {
		n := 0
		for _, nc := range w.ncts {
			if nc.txn == t {
				return n
			}
			n++
		}
		return -1
	}
	type cell struct {
		ikey  []byte
		val   []byte
		meta  byte
		umeta byte
	}
	var stream []cell
	var prevTs uint64
	for ri, r := range w.reqs {
		cts := w.ncts[ri].ts
		if managed {
			vpAssert(cts == batchTs, "C27,C36:batch.internal-txn-commits-at-the-batch-ts")
		} else if ri > 0 {
			vpAssert(cts > prevTs, "C27,C03:batch.internal-commit-ts-increase-in-channel-order")
		}
		prevTs = cts
		n := len(r.entries)
		vpAssert(n > 0, "C27:batch.no-empty-request")
		last := r.entries[n-1]
		marker := last.meta&bitFinTxn != 0
		if !managed {
			vpAssert(marker, "C27,C03:batch.request-framing")
		}
		if marker {
			vpAssert(last.meta == bitFinTxn && bytes.Equal(last.Key, y.KeyWithTs(txnKey, cts)) &&
				bytes.Equal(last.Value, []byte(strconv.FormatUint(cts, 10))), "C27,C03:batch.request-framing")
			n--
		}
		for _, e := range r.entries[:n] {
			if marker {
				vpAssert(e.meta&(bitTxn|bitFinTxn) == bitTxn, "C27,C03:batch.request-framing")
				vpAssert(y.ParseTs(e.Key) == cts, "C27,C03:batch.request-framing")
			} else {
				vpAssert(e.meta&(bitTxn|bitFinTxn) == 0, "C27,C36:batch.no-txn-bits-with-per-entry-versions")
			}
			stream = append(stream, cell{ikey: e.Key, val: e.Value, meta: e.meta &^ bitTxn, umeta: e.UserMeta})
		}
	}

	// ---- issue-order reference
	effver := make([]uint64, nOps)
	ikeys := make([][]byte, nOps)
	for i, op := range ops {
		ri := reqOf(op.txn)
		vpAssert(ri >= 0 && ri < len(w.reqs), "C27:batch.every-op-lands-in-a-committed-txn")
		if ri < 0 || ri >= len(w.reqs) {
			return
		}
		effver[i] = op.ver
		if !op.own {
			effver[i] = w.ncts[ri].ts
		}
		ikeys[i] = y.KeyWithTs(op.key, effver[i])
		// no op is lost: unless a later op of the same internal transaction replaced it (same key and
		// version), its entry is in the request of the transaction that took it
		replaced := false
		for _, o2 := range ops[i+1:] {
			if o2.txn == op.txn && bytes.Equal(o2.key, op.key) && o2.ver == op.ver {
				replaced = true
			}
		}
		if !replaced {
			found := false
			for _, e := range w.reqs[ri].entries {
				found = vpOr(found, vpAnd(bytes.Equal(e.Key, ikeys[i]),
					vpAnd(bytes.Equal(e.Value, op.val), vpAnd(e.meta&^bitTxn == op.meta, e.UserMeta == op.umeta))))
			}
			vpAssert(found, "C27:batch.no-op-lost")
		}
	}
	for i, op := range ops {
		if len(op.txn.duplicateWrites) > 0 {
			vpCover("batch.duplicate-writes")
		}
		for _, o2 := range ops[i+1:] {
			if managed && o2.txn != op.txn && bytes.Equal(o2.key, op.key) && !op.own && !o2.own {
				vpCover("batch.later-call-same-version-other-txn")
			}
		}
	}
	// lastOp[i]: no later op on the same key and version; lastCell[p]: no later cell with the same internal key
	lastOp := make([]bool, nOps)
	for i := range ops {
		l := true
		for j := i + 1; j < nOps; j++ {
			if bytes.Equal(ops[j].key, ops[i].key) {
				l = vpAnd(l, effver[j] != effver[i])
			}
		}
		lastOp[i] = l
	}
	lastCell := make([]bool, len(stream))
	for p := range stream {
		l := true
		for q := p + 1; q < len(stream); q++ {
			l = vpAnd(l, vpNot(bytes.Equal(stream[q].ikey, stream[p].ikey)))
		}
		lastCell[p] = l
	}
	same := func(i, p int) bool {
		op, c := ops[i], stream[p]
		return vpAnd(bytes.Equal(c.ikey, ikeys[i]), vpAnd(bytes.Equal(c.val, op.val), vpAnd(c.meta == op.meta, c.umeta == op.umeta)))
	}
	for i := range ops {
		ex := false
		for p := range stream {
			ex = vpOr(ex, vpAnd(lastCell[p], same(i, p)))
		}
		vpAssert(vpImplies(lastOp[i], ex), "C27:batch.final-state-is-issue-order")
	}
	for p := range stream {
		ex := false
		for i := range ops {
			ex = vpOr(ex, vpAnd(lastOp[i], same(i, p)))
		}
		vpAssert(vpImplies(lastCell[p], ex), "C27:batch.final-state-has-only-issued-ops")
	}
	vpAssert(w.marksBalanced(), "C27,C34:batch.every-watermark-begin-has-exactly-one-done")
}

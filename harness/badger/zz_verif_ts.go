package badger

import (
	"bytes"
	"os"
	"time"

	"github.com/dgraph-io/badger/v4/skl"
	"github.com/dgraph-io/badger/v4/table"
	"github.com/dgraph-io/badger/v4/y"
	"github.com/dgraph-io/ristretto/v2/z"
)

// H-TS (C11): after a re-open, a stream-writer load or a drop, the first commit timestamp is above
// every stored version and the first read timestamp is not below any.
//
// One harness, five kernels (vpChoose "kernel"); versions are 64-bit symbolic, assumed < 2^62
// (timestamps come from a counter that starts at 1; at 2^64-1 nextTxnTs would wrap to 0).
//
// kernel 0 "open-tail": the REAL Open with its callees stubbed, so that the directory state is
//   ARBITRARY: openMemTables installs 0..2 immutable memtables, newMemTable a memtable, and
//   newLevelsController 0..3 tables (1 on level 0, the others on level 1), each with a symbolic
//   maxVersion; read-write or read-only. Real: Open (whole body: checkAndSetOptions, createDirs,
//   ..., `orc.nextTxnTs = db.MaxVersion()`, txnMark.Done, readMark.Done, incrementNextTs),
//   DB.MaxVersion, DB.Tables, levelsController.getTableInfo, Table.MaxVersion, newOracle with its two
//   REAL WaterMark.process goroutines, oracle.nextTs / readTs / newCommitTs / doneRead /
//   cleanupCommittedTransactions / doneCommit, newPublisher. Stubbed: openOrCreateManifestFile,
//   OpenKeyRegistry, openMemTables, newMemTable, newLevelsController, valueLog.init/open, os.Stat
//   (directories exist), BypassLockGuard=true (C35 is H-FLOCK's), Table.StaleDataSize, the bodies
//   of the background goroutines Open starts and the plain-object stubs of vpTOpenStubs.
// kernel 1 "open-whole": the WHOLE real Open (as in zz_verif_fsro.go, nothing of the open path
//   stubbed except table.OpenTable / skiplist as there) over the abstract file system, on a
//   directory written by the real creation code: 0..`ts.wmem` .mem files, each with 1..2 records
//   written by the real memTable.Put -> logFile.writeEntry with SYMBOLIC versions in the key, and
//   0..`ts.wtab` tables listed in the MANIFEST whose stubbed OpenTable reports a SYMBOLIC
//   MaxVersion. Read-only (nothing else stubbed) or read-write (additionally valueLog.open and
//   InitDiscardStats stubbed: a 2 MiB value log file / 1 MiB DISCARD file is beyond the file model's
//   size bound). This connects WAL replay
//   (logFile.iterate -> replayFunction -> memTable.maxVersion) to nextTxnTs.
// kernel 2 "memtable": REAL memTable.Put (no WAL: the in-memory path; the WAL path runs in kernel 1)
//   and REAL memTable.replayFunction on 1..3 entries with symbolic versions, finish markers
//   included: maxVersion == max over the entries stored in the skiplist.
// kernel 3 "streamwriter-flush": REAL StreamWriter.Flush (no open writers) on a quiescent oracle
//   (optionally after one commit): oracle.Stop, readTs, newOracle, nextTxnTs = max(...),
//   incrementNextTs; REAL levelsController.validate (no tables), y.Throttle. Stubbed: DB.syncDir.
//   (DB.Load / KVLoader: asserted by hstream's VpHBackupLoad under C11 - not repeated here.)
// kernel 4 "dropall": REAL DB.DropAll / dropAll over the H-FSDROP environment (zz_verif_fsdrop.go,
//   vpDRun(true): same stubs, only the C11 assertions): the oracle object and nextTxnTs (symbolic)
//   are untouched by a drop, so commits after it are still above everything that was ever stored.
//
// quick:    ts.imm=2, ts.tab=3 (kernel 0); ts.wmem=1, ts.wtab=1 (kernel 1); fs.faults=0 (kernel 4)
// thorough: ts.imm=2, ts.tab=3;            ts.wmem=2, ts.wtab=3;            fs.faults=1

const vpTMaxTs = uint64(1) << 62

// vpTOpenStubs: copy of vpFOpenStubs (zz_verif_fsro.go) WITHOUT the stubs of z.NewCloser,
// WaterMark.process and getTableInfo: the oracle's watermark goroutines and DB.Tables are real here.
func vpTOpenStubs() {
	vpStub("github.com/dgraph-io/ristretto/v2/z.NewAllocatorPool", func(sz int) *z.AllocatorPool { return &z.AllocatorPool{} })
	vpStub("math.Min", func(a, b float64) float64 {
		if a < b {
			return a
		}
		return b
	})
	vpStub("badger.initVlogThreshold", func(opt *Options) *vlogThreshold {
		lt := &vlogThreshold{valueCh: make(chan []int64, 1000), clearCh: make(chan bool, 1)}
		lt.valueThreshold.Store(opt.ValueThreshold)
		return lt
	})
	vpStub("time.NewTicker", func(d time.Duration) *time.Ticker { return &time.Ticker{C: make(chan time.Time)} })
	vpStub("(*time.Ticker).Stop", func(t *time.Ticker) {})
	vpStub("time.Now", func() time.Time { return time.Unix(1000, 0) })
	vpStub("time.Since", func(t time.Time) time.Duration { return 0 })
	vpStub("(*badger.DB).monitorCache", func(db *DB, c *z.Closer) {})
	vpStub("(*badger.DB).updateSize", func(db *DB, c *z.Closer) {})
	vpStub("(*badger.DB).doWrites", func(db *DB, c *z.Closer) {})
	vpStub("(*badger.DB).flushMemtable", func(db *DB, c *z.Closer) {})
	vpStub("(*badger.levelsController).startCompact", func(s *levelsController, c *z.Closer) {})
	vpStub("(*badger.valueLog).waitOnGC", func(v *valueLog, c *z.Closer) {})
	vpStub("(*badger.publisher).listenForUpdates", func(p *publisher, c *z.Closer) {})
	vpStub("(*badger.vlogThreshold).listenForValueThresholdUpdate", func(v *vlogThreshold) {})
	vpStub("(*badger.DB).calculateSize", func(db *DB) {})
	vpStub("(*badger.DB).initBannedNamespaces", func(db *DB) error { return nil })
	vpStub("(*badger.DB).cleanup", func(db *DB) {})
}

func vpTVersion(name string) uint64 {
	v := vpU64(name)
	vpAssume(v < vpTMaxTs)
	return v
}

// vpTAfterOpen: the C11 obligations on a freshly opened DB; stored = every version in the directory
func vpTAfterOpen(db *DB, stored []uint64, pfx string) {
	next := db.orc.nextTs()
	for _, v := range stored {
		vpAssert(next > v, "C11:"+pfx+".next-txn-ts-above-every-stored-version")
	}
	vpObserveU64("nextTxnTs", next)
	// a new transaction: its snapshot shows everything stored
	rts := db.orc.readTs()
	for _, v := range stored {
		vpAssert(rts >= v, "C11:"+pfx+".first-read-ts-not-below-any-stored-version")
	}
	txn := &Txn{update: true, db: db, readTs: rts, conflictKeys: map[uint64]struct{}{}}
	cts, conflict := db.orc.newCommitTs(txn)
	vpAssert(!conflict, "C11:"+pfx+".first-commit-has-no-conflict")
	for _, v := range stored {
		vpAssert(cts > v, "C11:"+pfx+".first-commit-ts-above-every-stored-version")
	}
	vpAssert(cts > rts, "C11:"+pfx+".first-commit-ts-above-first-read-ts")
	db.orc.doneCommit(cts)
	// and the next reader sees that commit
	rts2 := db.orc.readTs()
	vpAssert(rts2 == cts, "C11:"+pfx+".second-read-ts-is-the-first-commit")
	cts2, _ := db.orc.newCommitTs(&Txn{update: true, db: db, readTs: rts2, conflictKeys: map[uint64]struct{}{}})
	vpAssert(cts2 > cts, "C11:"+pfx+".commit-timestamps-increase")
}

func vpTRanges(id uint64) ([]byte, []byte) {
	lo := []byte{byte('a' + 2*id)}
	hi := []byte{byte('a' + 2*id + 1)}
	return y.KeyWithTs(lo, 5), y.KeyWithTs(hi, 5)
}

// ---------- kernel 0 ----------

func vpTOpenTail() {
	vpTOpenStubs()
	nImm := vpChoose("imm", 1+vpParam("ts.imm", 2))
	nTab := vpChoose("tables", 1+vpParam("ts.tab", 3))
	ro := vpChoose("read-only", 2) == 1
	var stored []uint64
	var immV, tabV []uint64
	for i := 0; i < nImm; i++ {
		immV = append(immV, vpTVersion("imm.maxVersion"))
	}
	for i := 0; i < nTab; i++ {
		tabV = append(tabV, vpTVersion("table.maxVersion"))
	}
	stored = append(append(stored, immV...), tabV...)
	mtV := uint64(0)
	if !ro {
		mtV = vpTVersion("mt.maxVersion")
		stored = append(stored, mtV)
	}

	vpStub("os.Stat", func(name string) (os.FileInfo, error) { return vpFInfo{name, 0, true}, nil })
	vpStub("badger.openOrCreateManifestFile", func(opt Options) (*manifestFile, Manifest, error) {
		return &manifestFile{}, Manifest{}, nil
	})
	vpStub("(*badger.manifestFile).close", func(mf *manifestFile) error { return nil })
	vpStub("badger.OpenKeyRegistry", func(opt KeyRegistryOptions) (*KeyRegistry, error) { return &KeyRegistry{}, nil })
	vpStub("(*badger.DB).openMemTables", func(db *DB, opt Options) error {
		for _, v := range immV {
			db.imm = append(db.imm, &memTable{sl: &skl.Skiplist{}, maxVersion: v})
		}
		return nil
	})
	vpStub("(*badger.DB).newMemTable", func(db *DB) (*memTable, error) {
		return &memTable{sl: &skl.Skiplist{}, maxVersion: mtV}, nil
	})
	vpStub("(*badger/table.Table).StaleDataSize", func(t *table.Table) uint32 { return 0 })
	vpStub("badger.newLevelsController", func(db *DB, mf *Manifest) (*levelsController, error) {
		s := &levelsController{kv: db}
		s.levels = []*levelHandler{newLevelHandler(db, 0), newLevelHandler(db, 1), newLevelHandler(db, 2)}
		for i, v := range tabV {
			id := uint64(i + 1)
			lo, hi := vpTRanges(id)
			t := table.VpTSTable(&z.MmapFile{}, id, lo, hi, v, false)
			lvl := 1
			if i == 0 {
				lvl = 0
			}
			s.levels[lvl].tables = append(s.levels[lvl].tables, t)
		}
		return s, nil
	})
	vpStub("(*badger.valueLog).init", func(v *valueLog, db *DB) {})
	vpStub("(*badger.valueLog).open", func(v *valueLog, db *DB) error { return nil })

	opt := vpFOpenOptions("/db")
	opt.BypassLockGuard = true
	opt.ReadOnly = ro
	db, err := Open(opt)
	vpAssert(err == nil && db != nil, "C11:open-tail.open-succeeds")
	if err != nil || db == nil {
		return
	}
	vpCover("ts.open-tail")
	if ro {
		vpCover("ts.open-tail.read-only")
		vpAssert(db.mt == nil, "C11:open-tail.read-only-has-no-memtable")
	}
	if nImm == vpParam("ts.imm", 2) && nTab == vpParam("ts.tab", 3) {
		vpCover("ts.open-tail.full-shape")
	}
	vpAssert(len(db.imm) == nImm && len(db.Tables()) == nTab, "C11:open-tail.shape")
	vpTAfterOpen(db, stored, "open-tail")
}

// ---------- kernel 1 ----------

// vpTMakeDisk: a database directory as an earlier read-write run left it (cf. vpFMakeDisk), with
// the given table ids in the MANIFEST and one .mem file per element of mem holding one record per
// version, written by the real memTable.Put.
func vpTMakeDisk(e *vpFEnv, tabIDs []uint64, mem [][]uint64) {
	fs, db, dir := e.fs, e.db, e.dir
	if len(tabIDs) > 0 {
		vpAssume(db.manifest.addChanges(vpFCreates(tabIDs), db.opt) == nil)
	}
	vpAssume(db.manifest.close() == nil)
	for _, id := range tabIDs {
		fs.seed(vpFSst(dir, id), append([]byte{}, e.img...))
	}
	for _, vers := range mem {
		mt, err := db.newMemTable()
		vpAssume(err == nil)
		for j, v := range vers {
			vpAssume(mt.Put(y.KeyWithTs([]byte{'m', byte('0' + j)}, v), y.ValueStruct{Value: []byte("w")}) == nil)
		}
		// cut at the end of the last record: a read-only open can replay it too
		vpAssume(mt.wal.MmapFile.Truncate(int64(mt.wal.writeAt)) == nil)
		f := fs.lookup(mt.wal.path)
		f.snap, f.synced, f.dirDur = append([]byte{}, f.data...), true, true
	}
	for _, h := range fs.hs {
		h.closed = true
	}
	for _, n := range fs.names {
		f := fs.files[n]
		if f.exists {
			f.dirDur, f.isNew = true, false
		}
	}
	e.puts = nil
}

func vpTOpenWhole() {
	e := vpFSetup(0)
	fs, dir := e.fs, e.dir
	vpTOpenStubs()
	nMem := vpChoose("mem-files", 1+vpParam("ts.wmem", 1))
	nTab := vpChoose("tables", 1+vpParam("ts.wtab", 1))
	ro := vpChoose("read-only", 2) == 1
	var stored []uint64
	var mem [][]uint64
	for i := 0; i < nMem; i++ {
		n := 1 + vpChoose("records", 2)
		var vers []uint64
		for j := 0; j < n; j++ {
			vers = append(vers, vpTVersion("wal.version"))
		}
		mem = append(mem, vers)
		stored = append(stored, vers...)
	}
	var ids []uint64
	tabV := map[uint64]uint64{}
	for i := 0; i < nTab; i++ {
		id := uint64(i + 1)
		ids = append(ids, id)
		tabV[id] = vpTVersion("table.maxVersion")
		stored = append(stored, tabV[id])
	}
	vpTMakeDisk(e, ids, mem)
	vpStub("badger/table.OpenTable", table.VpTSOpenTable(vpTRanges, func(id uint64) uint64 { return tabV[id] }))

	opt := vpFOpenOptions(dir)
	opt.MemTableSize = 4096 // WAL files of 8 KiB: inside the file model's size bound
	opt.ValueThreshold = 512
	opt.ReadOnly = ro
	if !ro {
		// a new value log file is 2 MiB: beyond the file model; the value log holds no versions
		// the LSM does not (C11 is about what MaxVersion counts)
		vpStub("(*badger.valueLog).open", func(v *valueLog, db *DB) error { return nil })
		// likewise the 1 MiB DISCARD file of value-log GC that valueLog.init creates (y.Check on failure)
		vpStub("badger.InitDiscardStats", func(opt Options) (*discardStats, error) { return &discardStats{}, nil })
	}
	fs.arm()
	db, err := Open(opt)
	vpAssert(err == nil && db != nil && fs.bad == "", "C11:open-whole.open-succeeds")
	if err != nil || db == nil {
		return
	}
	vpCover("ts.open-whole")
	if ro {
		vpCover("ts.open-whole.read-only")
	} else {
		vpCover("ts.open-whole.read-write")
		vpAssert(db.mt != nil && db.mt.maxVersion == 0, "C11:open-whole.new-memtable-is-empty")
	}
	if nMem > 0 {
		vpCover("ts.open-whole.wal-replayed")
	}
	if nTab > 0 {
		vpCover("ts.open-whole.tables-opened")
	}
	// every record of every .mem file went through replayFunction into an immutable memtable
	nrec := 0
	for _, m := range mem {
		nrec += len(m)
	}
	vpAssert(len(db.imm) == nMem && len(e.puts) == nrec && len(db.Tables()) == nTab, "C11:open-whole.everything-loaded")
	for i, mt := range db.imm {
		mx := uint64(0)
		for _, v := range mem[i] {
			mx = vpIteU64(v > mx, v, mx)
		}
		vpAssert(mt.maxVersion == mx, "C11:open-whole.replayed-memtable-max-version")
	}
	vpTAfterOpen(db, stored, "open-whole")
}

// ---------- kernel 2 ----------

func vpTMemtable() {
	var puts []string
	vpStub("(*badger/skl.Skiplist).Put", func(s *skl.Skiplist, key []byte, v y.ValueStruct) { puts = append(puts, string(key)) })
	n := 1 + vpChoose("entries", 3)
	vers := make([]uint64, n)
	fin := make([]bool, n)
	for i := range vers {
		vers[i] = vpU64("version") // any 64-bit value
		fin[i] = vpChoose("finish-marker", 2) == 1
	}
	// Put
	mt := &memTable{sl: &skl.Skiplist{}, buf: &bytes.Buffer{}}
	mx, nstored := uint64(0), 0
	for i, v := range vers {
		vs := y.ValueStruct{Value: []byte("v")}
		if fin[i] {
			vs.Meta = bitFinTxn // written to the WAL only, not an entry of the memtable
		} else {
			mx = vpIteU64(v > mx, v, mx)
			nstored++
		}
		vpAssert(mt.Put(y.KeyWithTs([]byte("k"), v), vs) == nil, "C11:memtable.put-succeeds")
	}
	vpAssert(len(puts) == nstored, "C11:memtable.finish-markers-not-stored")
	vpAssert(mt.maxVersion == mx, "C11:memtable.put-keeps-max-version")
	for i, v := range vers {
		if !fin[i] {
			vpAssert(mt.maxVersion >= v, "C11:memtable.max-version-covers-every-entry")
		}
	}
	vpCover("ts.memtable.put")
	// replay (logFile.iterate hands over the entries of complete transactions, never the marker)
	puts = nil
	mt2 := &memTable{sl: &skl.Skiplist{}, buf: &bytes.Buffer{}}
	fn := mt2.replayFunction(Options{})
	mx = 0
	for _, v := range vers {
		mx = vpIteU64(v > mx, v, mx)
		vpAssert(fn(Entry{Key: y.KeyWithTs([]byte("k"), v), Value: []byte("v")}, valuePointer{}) == nil, "C11:memtable.replay-succeeds")
	}
	vpAssert(mt2.maxVersion == mx && len(puts) == n, "C11:memtable.replay-keeps-max-version")
	vpCover("ts.memtable.replay")
}

// ---------- kernel 3 ----------

func vpTStreamWriterFlush() {
	db := &DB{}
	db.opt = vpFOpenOptions("/db")
	db.orc = newOracle(db.opt)
	old := db.orc
	x := vpTVersion("old.maxVersion")
	db.orc.nextTxnTs = x
	db.orc.txnMark.Done(x)
	db.orc.readMark.Done(x)
	db.orc.incrementNextTs()
	vpYield()
	if vpChoose("commit-before", 2) == 1 {
		rts := db.orc.readTs()
		txn := &Txn{update: true, db: db, readTs: rts, conflictKeys: map[uint64]struct{}{}}
		cts, _ := db.orc.newCommitTs(txn)
		db.orc.doneCommit(cts)
		vpYield()
		vpCover("ts.flush.after-a-commit")
	}
	nextBefore := db.orc.nextTs()
	db.lc = &levelsController{kv: db}
	db.lc.levels = []*levelHandler{newLevelHandler(db, 0), newLevelHandler(db, 1)}
	vpStub("(*badger.DB).syncDir", func(db *DB, dir string) error { return nil })
	m := vpTVersion("streamed.maxVersion")
	done := 0
	sw := &StreamWriter{db: db, throttle: y.NewThrottle(16), writers: map[uint32]*sortedWriter{}, maxVersion: m}
	sw.done = func() { done++ }
	err := sw.Flush()
	vpAssert(err == nil && done == 1, "C11:flush.returns-normally")
	vpAssert(db.orc != old, "C11:flush.new-oracle")
	next := db.orc.nextTs()
	vpAssert(next > m, "C11:flush.next-txn-ts-above-every-streamed-version")
	vpAssert(next >= nextBefore, "C11:flush.next-txn-ts-never-lowered")
	if m >= nextBefore {
		vpCover("ts.flush.raised-by-stream")
	} else {
		vpCover("ts.flush.kept-by-oracle")
	}
	vpTAfterOpen(db, []uint64{m, x}, "flush")
	vpCover("ts.flush")
}

func VpHNextTs() {
	switch vpChoose("kernel", 5) {
	case 0:
		vpTOpenTail()
	case 1:
		vpTOpenWhole()
	case 2:
		vpTMemtable()
	case 3:
		vpTStreamWriterFlush()
	case 4:
		vpTDropAll()
	}
}

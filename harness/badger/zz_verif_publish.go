package badger

import (
	"bytes"
	"time"

	"github.com/dgraph-io/badger/v4/pb"
	"github.com/dgraph-io/badger/v4/y"
	"github.com/dgraph-io/ristretto/v2/z"
)

// H-PUBLISH: the real publisher (newPublisher, newSubscriber, sendUpdates, listenForUpdates
// incl. its slurp loop, publishUpdates, deleteSubscriber, cleanSubscribers) over the real
// trie, fed with write requests as db.writeRequests hands them over: internal keys
// (user key + 8 timestamp bytes) and, as last entry of every request, the end-of-transaction
// marker that Txn.commitAndSend appends. Nothing is stubbed (this version of the publisher
// builds pb.KV structs directly; no z.Buffer / marshalling is involved). The subscriber side
// (DB.Subscribe's loop) is replaced by the harness: it reads the subscriber's channel at the
// end and concatenates the lists, as Subscribe's slurp does.
//
// Reference (C32): subscriber s receives, in request order and entry order, exactly one KV
// for every entry that is published while s is registered and whose USER key matches one of
// s's patterns (pattern = prefix with ignored positions; a pattern longer than the user key
// does not match); nothing else, in particular nothing for badger's internal marker entries.
// (Both were violated before the fixes 5001d32 / 19c69b6: the trie was asked with the internal
// key, so a pattern longer than the user key was compared with timestamp bytes, and the marker
// entry was published like a write. Other internal !badger! keys are ordinary writes; nothing
// is asserted about them.)
// C32 does not mention user meta; the harness asks only that it is carried in the KV
// (the code puts it into KV.Meta, Stream/Backup put it into KV.UserMeta).

type vpPubPat struct {
	m    pb.Match
	plen int
	ign0 bool // position 0 ignored (IgnoreBytes "0")
}

type vpPubSub struct {
	s      subscriber
	c      *z.Closer
	pats   []vpPubPat
	from   int // registered before publish call #from ...
	until  int // ... and deleted before publish call #until
	got    []*pb.KV
	nlists int
}

type vpPubEnt struct {
	ikey   []byte // internal key
	ukey   []byte // user key (txnKey for the marker)
	ts     uint64
	val    byte
	umeta  byte
	exp    uint64
	marker bool
	call   int
}

// vpPubMatch: reference "pattern matches key" (key is the user key or, for the code's actual
// behaviour, the internal key).
func vpPubMatch(p *vpPubPat, key []byte) bool {
	if len(key) < p.plen {
		return false
	}
	ok := true
	for i := 0; i < p.plen; i++ {
		if i == 0 && p.ign0 {
			continue
		}
		ok = vpAnd(ok, key[i] == p.m.Prefix[i])
	}
	return ok
}

func VpHPublish() {
	if vpParam("pub.maporder", 1) == 1 {
		vpConfig("maporder", 1)
	}
	subShapes := [][]int{{1}, {2}, {1, 1}, {1, 2}, {2, 1}, {2, 2}}  // patterns per subscriber
	reqShapes := [][]int{{1}, {2}, {1, 1}, {1, 2}, {2, 1}, {2, 2}}  // user entries per request
	ss := subShapes[vpChoose("subscribers", vpParam("pub.subshapes", 3))]
	rs := reqShapes[vpChoose("requests", vpParam("pub.reqshapes", 3))]
	maxPlen := vpParam("pub.plen", 2)
	withIgnore := vpParam("pub.ignore", 0)
	withMarker := vpParam("pub.marker", 1)

	// ---- publish calls: how the requests are grouped ----
	split := false
	if len(rs) == 2 {
		split = vpChoose("split", 2) == 1
	}
	ncalls := 1
	if split {
		ncalls = 2
	}
	listener := vpChoose("listener", 2) == 1 // 1: through sendUpdates + the listenForUpdates goroutine

	// ---- subscribers ----
	subs := make([]*vpPubSub, len(ss))
	for si, np := range ss {
		sb := &vpPubSub{from: 0, until: ncalls}
		for j := 0; j < np; j++ {
			plen := 1
			if maxPlen > 1 {
				plen = 1 + vpChoose("plen", maxPlen)
			}
			pat := vpPubPat{plen: plen, m: pb.Match{Prefix: vpBytes("prefix", plen)}}
			if withIgnore == 1 && vpChoose("ignore0", 2) == 1 {
				pat.ign0 = true
				pat.m.IgnoreBytes = "0"
			}
			sb.pats = append(sb.pats, pat)
		}
		subs[si] = sb
	}
	// one event on the time line: a subscriber is deleted (before everything / between the two
	// calls) or the last subscriber registers late (between the two calls)
	type event struct{ kind, sub, at int } // kind 0 none, 1 delete, 2 late registration
	events := []event{{0, 0, 0}}
	for si := range subs {
		events = append(events, event{1, si, 0})
		if ncalls == 2 {
			events = append(events, event{1, si, 1})
		}
	}
	if ncalls == 2 && len(subs) == 2 {
		events = append(events, event{2, 1, 1})
	}
	ev := events[vpChoose("event", len(events))]
	if ev.kind == 1 {
		subs[ev.sub].until = ev.at
	} else if ev.kind == 2 {
		subs[ev.sub].from = ev.at
	}

	// ---- requests ----
	var ents []*vpPubEnt
	var reqs []*request
	firstLen := vpChoose("keylen", 2)
	n := 0
	for ri, ne := range rs {
		req := &request{}
		call := 0
		if split {
			call = ri
		}
		for k := 0; k < ne; k++ {
			// user keys of 1 and 2 bytes alternate (which comes first is chosen)
			uk := vpBytes("ukey", 1+(firstLen+n)%2)
			n++
			e := &vpPubEnt{ukey: uk, ts: vpU64("ts"), val: vpU8("val"), umeta: vpU8("umeta"), exp: vpU64("exp"), call: call}
			e.ikey = y.KeyWithTs(uk, e.ts)
			// any internal meta bits (delete, value pointer, merge, txn ...) except bitFinTxn, which
			// only the marker entry carries
			meta := vpU8("meta")
			vpAssume(meta&bitFinTxn == 0)
			req.Entries = append(req.Entries, &Entry{Key: e.ikey, Value: []byte{e.val}, UserMeta: e.umeta, ExpiresAt: e.exp, meta: meta})
			ents = append(ents, e)
		}
		if withMarker == 1 {
			// what Txn.commitAndSend appends (its value, the decimal commit ts, is irrelevant here)
			e := &vpPubEnt{ukey: txnKey, ts: vpU64("commitTs"), val: vpU8("markerval"), marker: true, call: call}
			e.ikey = y.KeyWithTs(txnKey, e.ts)
			req.Entries = append(req.Entries, &Entry{Key: e.ikey, Value: []byte{e.val}, meta: bitFinTxn})
			ents = append(ents, e)
		}
		reqs = append(reqs, req)
	}

	// ---- run ----
	p := newPublisher()
	register := func(sb *vpPubSub) {
		ms := make([]pb.Match, len(sb.pats))
		for j := range sb.pats {
			ms[j] = sb.pats[j].m
		}
		sb.c = z.NewCloser(1)
		s, err := p.newSubscriber(sb.c, ms)
		vpAssert(err == nil, "C32:pub.subscription-accepted")
		sb.s = s
		// the part of DB.Subscribe that answers the closer (cleanSubscribers waits for it)
		go func(c *z.Closer) {
			<-c.HasBeenClosed()
			c.Done()
		}(sb.c)
		// the subscriber goroutine reaches its select before anything else happens (also needed by
		// the engine: context's package-level closedchan is not closed by its lenient package
		// initialisation, so Done() must have created its channel before the closer is signalled)
		vpYield()
	}
	for _, sb := range subs {
		if sb.from == 0 {
			register(sb)
		}
	}
	unsubscribe := func(sb *vpPubSub) {
		// as DB.Subscribe does when its context ends or the callback fails
		sb.s.active.Store(0)
		p.deleteSubscriber(sb.s.id)
		sb.c.Signal() // lets the helper goroutine above finish (Subscribe calls c.Done() itself)
	}
	timeline := func(at int) {
		if ev.kind == 1 && ev.at == at {
			unsubscribe(subs[ev.sub])
			vpCover("pub.unsubscribed")
		}
		if ev.kind == 2 && ev.at == at {
			register(subs[ev.sub])
			vpCover("pub.late-subscriber")
		}
	}
	var lc *z.Closer
	if listener {
		lc = z.NewCloser(1)
		go p.listenForUpdates(lc)
	}
	timeline(0)
	if !listener {
		if split {
			a := requests{reqs[0]}
			a.IncrRef()
			p.publishUpdates(a)
			timeline(1)
			b := requests{reqs[1]}
			b.IncrRef()
			p.publishUpdates(b)
		} else {
			a := requests(reqs)
			a.IncrRef()
			p.publishUpdates(a)
		}
		p.cleanSubscribers()
	} else {
		p.sendUpdates(requests{reqs[0]})
		if len(reqs) == 2 {
			if split {
				vpYield() // the listener publishes the first request
				vpPubSettle(p)
				timeline(1)
			} else {
				vpCover("pub.listener-batches-two-sends")
			}
			p.sendUpdates(requests{reqs[1]})
		}
		vpYield()
		vpPubSettle(p)
		lc.SignalAndWait() // listenForUpdates returns through cleanSubscribers
	}
	// the subscriber side: take everything off the channel, lists concatenated in order
	for _, sb := range subs {
		if sb.s.sendCh == nil {
			continue
		}
	drain:
		for {
			select {
			case l := <-sb.s.sendCh:
				sb.got = append(sb.got, l.Kv...)
				sb.nlists++
				vpAssert(len(l.Kv) > 0, "C32:pub.no-empty-list")
			default:
				break drain
			}
		}
	}

	// ---- reference and assertions, per subscriber ----
	for si, sb := range subs {
		// pick[i]: entry i is owed to this subscriber (published while it is registered, a write
		// and not the marker, USER key matches one of its patterns)
		pick := make([]bool, len(ents))
		rank := make([]int, len(ents))
		act := make([]bool, len(ents))
		total := 0
		for i, e := range ents {
			act[i] = sb.from <= e.call && e.call < sb.until
			if act[i] && !e.marker {
				for j := range sb.pats {
					pick[i] = vpOr(pick[i], vpPubMatch(&sb.pats[j], e.ukey))
				}
			}
			rank[i] = total
			total = vpIteInt(pick[i], total+1, total)
		}
		same := func(kv *pb.KV, e *vpPubEnt) bool {
			return vpAnd(vpAnd(bytes.Equal(kv.Key, e.ukey), kv.Version == e.ts),
				vpAnd(vpAnd(len(kv.Value) == 1, vpPubByte(kv.Value) == e.val), vpAnd(kv.ExpiresAt == e.exp, vpAnd(kv.StreamId == 0, !kv.StreamDone))))
		}
		// exactly one KV per owed entry, nothing else, in request order and entry order
		vpAssert(len(sb.got) == total, "C32:pub.one-kv-per-matching-write-and-nothing-else")
		for k, kv := range sb.got {
			hit := false
			for i, e := range ents {
				hit = vpOr(hit, vpAnd(vpAnd(pick[i], rank[i] == k), same(kv, e)))
			}
			vpAssert(hit, "C32:pub.kth-kv-is-kth-matching-write")
			// user meta is carried (the code puts it into KV.Meta; Stream/Backup use KV.UserMeta)
			okm := false
			for i, e := range ents {
				carried := vpOr(vpAnd(len(kv.Meta) == 1, vpPubByte(kv.Meta) == e.umeta), vpAnd(len(kv.UserMeta) == 1, vpPubByte(kv.UserMeta) == e.umeta))
				okm = vpOr(okm, vpAnd(vpAnd(vpAnd(pick[i], rank[i] == k), same(kv, e)), carried))
			}
			vpAssert(okm, "C32:pub.user-meta-carried")
			// never an internal marker, never a key the subscriber did not ask for
			asked := false
			for j := range sb.pats {
				asked = vpOr(asked, vpPubMatch(&sb.pats[j], kv.Key))
			}
			vpAssert(asked, "C32:pub.nothing-for-nonmatching-user-key")
			vpAssert(vpNot(bytes.Equal(kv.Key, txnKey)), "C32:pub.txn-marker-not-published")
		}
		if len(sb.got) > 0 {
			vpCover("pub.delivered")
		}
		if len(sb.got) >= 2 {
			vpCover("pub.delivered-two-in-order")
		}
		if si == 1 && len(sb.got) > 0 && len(subs[0].got) > 0 {
			vpCover("pub.both-subscribers-served")
		}
		nact := 0
		for i, e := range ents {
			if act[i] && !e.marker {
				nact++
			}
		}
		if nact > len(sb.got) {
			vpCover("pub.filtered-nonmatching")
		}
		if sb.until == 0 {
			vpAssert(len(sb.got) == 0, "C32:pub.nothing-after-unsubscribe")
		}
		if si == 0 {
			vpObserveU64("sub0.kvs", uint64(len(sb.got)))
			vpObserveU64("sub0.lists", uint64(sb.nlists))
			if len(sb.got) > 0 {
				vpObserveBytes("sub0.first.key", sb.got[0].Key)
				vpObserveU64("sub0.first.version", sb.got[0].Version)
			}
		}
	}
	if len(subs) == 2 {
		vpAssert(subs[0].s.id != subs[1].s.id, "C32:pub.subscriber-ids-distinct")
	}
	// after cleanSubscribers: no subscriber, empty index
	vpAssert(len(p.subscribers) == 0, "C32:pub.clean-subscribers-empties-index")
	for _, e := range ents {
		vpAssert(len(p.indexer.Get(e.ikey)) == 0, "C32:pub.clean-subscribers-empties-index")
	}
}

// vpPubSettle: native replay only (vpYield is a no-op there): wait until the listener
// goroutine has taken everything off pubCh and has left publishUpdates.
func vpPubSettle(p *publisher) {
	if vpSymbolic() {
		return
	}
	for i := 0; i < 3; i++ {
		for len(p.pubCh) > 0 {
			time.Sleep(time.Millisecond)
		}
		time.Sleep(20 * time.Millisecond)
		p.Lock()
		p.Unlock() //nolint:staticcheck
	}
}

func vpPubByte(b []byte) byte {
	if len(b) == 0 {
		return 0
	}
	return b[0]
}

package badger

import (
	"encoding/binary"
	"errors"
)

var vpErrCommit = errors.New("vp: commit failed (conflict / blocked writes / closed)")

// H-SEQ: Sequence.Next/Release/GetSequence over a single stored lease cell whose
// transaction may fail at commit with an arbitrary error. Two Sequence objects on one
// key, atomic steps in arbitrary order (each step is one critical section of seq.lock).
func VpHSeq() {
	var stored uint64
	exists := false
	// staged write of the transaction in flight
	var staged uint64
	hasStaged := false

	vpStub("(*badger.DB).Update", func(db *DB, fn func(txn *Txn) error) error {
		hasStaged = false
		if err := fn(&Txn{}); err != nil {
			return err
		}
		// the transaction has read and staged its write but not committed: another goroutine may
		// run here (it blocks on seq.lock if the caller holds it, as Next/Release must)
		vpYield()
		if vpBool("commitFails") {
			vpCover("seq.commit-failed")
			return vpErrCommit
		}
		if hasStaged {
			stored, exists = staged, true
		}
		return nil
	})
	vpStub("(*badger.Txn).Get", func(txn *Txn, key []byte) (*Item, error) {
		if !exists {
			return nil, ErrKeyNotFound
		}
		return &Item{}, nil
	})
	vpStub("(*badger.Item).Value", func(item *Item, fn func(val []byte) error) error {
		var buf [8]byte
		binary.BigEndian.PutUint64(buf[:], stored)
		return fn(buf[:])
	})
	vpStub("(*badger.Txn).SetEntry", func(txn *Txn, e *Entry) error {
		staged, hasStaged = binary.BigEndian.Uint64(e.Value), true
		return nil
	})

	db := &DB{}
	// bandwidths are arbitrary (per Sequence object), and the key may already hold an arbitrary
	// lease written by earlier processes: the lease arithmetic is decided by the solver, not
	// enumerated. (< 2^62 keeps next+bandwidth from wrapping, which no real deployment reaches.)
	var bws [2]uint64
	for i := range bws {
		bws[i] = vpU64("bandwidth")
		vpAssume(vpAnd(bws[i] >= 1, bws[i] <= uint64(vpParam("seq.maxbw", 4))))
	}
	if vpChoose("preexisting", 2) == 1 {
		stored, exists = vpU64("stored0"), true
		vpAssume(stored < 1<<62)
		vpCover("seq.preexisting-lease")
	}
	key := []byte("k")
	var seqs [2]*Sequence
	// either object may hold the most recent lease (Release only writes back when its own lease
	// is the stored one)
	first := vpChoose("created-first", 2)
	for _, i := range []int{first, 1 - first} {
		s, err := db.GetSequence(key, bws[i])
		if err != nil {
			// a failed GetSequence hands out an unusable object; the caller would retry
			s, err = db.GetSequence(key, bws[i])
			vpAssume(err == nil)
		}
		seqs[i] = s
	}
	var got []uint64
	var last [2]uint64
	var hasLast [2]bool
	steps := vpParam("seq.steps", 4)
	nops := 4 + vpParam("seq.conc", 1) // 1: + Release(a)||Next(a); 2: + Next(a)||Next(a)
	next := func(op int) {
		n, err := seqs[op].Next()
		if err != nil {
			return
		}
		vpCover("seq.next-ok")
		for _, g := range got {
			vpAssert(g != n, "C30:seq.unique")
		}
		if hasLast[op] {
			vpAssert(n > last[op], "C30:seq.increasing")
		}
		// every number handed out lies below the durable lease: a crash cannot cause reuse
		vpAssert(exists && n < stored, "C30:seq.below-stored-lease")
		got = append(got, n)
		last[op], hasLast[op] = n, true
	}
	for st := 0; st < steps; st++ {
		op := vpChoose("op", nops)
		switch op {
		case 0, 1:
			next(op)
		case 2:
			_ = seqs[0].Release()
			vpCover("seq.release")
		case 3:
			// crash / restart of the process holding sequence 1: in-memory state is dropped
			s, err := db.GetSequence(key, bws[1])
			if err != nil {
				continue
			}
			vpCover("seq.reopen")
			seqs[1] = s
			hasLast[1] = false
		case 4, 5:
			// a second goroutine calls Next on the SAME Sequence object while Release (4) or
			// Next (5) is in flight on it; it gets to run when the first one is inside its lease
			// transaction (vpYield in the Update stub) and must then find seq.lock held
			done := make(chan struct{}, 1)
			go func() {
				next(0)
				done <- struct{}{}
			}()
			if op == 4 {
				_ = seqs[0].Release()
			} else {
				next(0)
			}
			<-done
			vpCover("seq.concurrent-next")
		}
	}
}

package badger

import (
	"bytes"
	"time"

	"github.com/dgraph-io/badger/v4/table"
	"github.com/dgraph-io/badger/v4/y"
)

// H-SUBCOMPACT: the real levelsController.subcompact (whole function incl. the addKeys
// closure) over an arbitrary merged stream; the table builder is replaced by a recorder.
func VpHSubcompact() {
	vpConfig("defer-asserts", 1)
	nk := 1 + vpChoose("nkeys", vpParam("sc.keys", 2))
	ents := vpMakeEntries(nk, vpParam("sc.versions", 3))
	// sc.metamask: meta bits that may be set (default all); sc.noexpiry=1: no entry expires.
	// The restricted variants trade meta generality for longer version chains within one tier.
	metaMask := byte(vpParam("sc.metamask", 0xff))
	noExpiry := vpParam("sc.noexpiry", 0) == 1
	for _, e := range ents {
		vpAssume(e.meta&bitValuePointer == 0) // value pointers only feed discard statistics
		if metaMask != 0xff {
			vpAssume(e.meta&^metaMask == 0)
		}
		if noExpiry {
			vpAssume(e.exp == 0)
		}
	}
	now := vpU64("now")
	vpAssume(now < 1<<40)
	later := vpU64("later") // time of a later read
	vpAssume(vpAnd(later >= now, later < 1<<40))
	vpStub("time.Now", func() time.Time { return time.Unix(int64(now), 0) })
	vpStub("time.Since", func(t time.Time) time.Duration { return 0 })

	discardTs := vpU64("discardTs")
	hasOverlap := vpBool("hasOverlap")
	keep := vpInt("numVersionsToKeep")
	vpAssume(vpAnd(keep >= 1, keep <= 3))

	db := &DB{}
	db.opt.NumVersionsToKeep = keep
	db.opt.NamespaceOffset = -1
	db.orc = &oracle{isManaged: true, discardTs: discardTs}
	effDiscard := discardTs
	if vpChoose("gc", 2) == 1 {
		gcTs := vpU64("gcDiscardTs")
		db.gcActive.Store(true)
		db.gcDiscardTs.Store(gcTs)
		effDiscard = vpIteU64(vpAnd(gcTs > 0, gcTs < discardTs), gcTs, discardTs)
		vpCover("sc.gc-active")
	}
	var dropPrefixes [][]byte
	if vpChoose("drop", 2) == 1 {
		dropPrefixes = [][]byte{vpBytes("dropPrefix", 1)}
	}

	s := &levelsController{kv: db}
	next := &levelHandler{level: 1}
	cd := compactDef{thisLevel: &levelHandler{level: 0}, nextLevel: next, dropPrefixes: dropPrefixes,
		t: targets{fileSz: []int64{1 << 20, 1 << 20, 1 << 20, 1 << 20, 1 << 20, 1 << 20, 1 << 20}}}

	// ---- recorder in place of the table builder ----
	type outRec struct {
		idx   int // index into ents
		table int
		stale bool
	}
	var out []outRec
	curTable := -1
	adds := 0
	var li *vpListIter
	capacityOff := vpParam("sc.capacity", 1) == 0
	vpConfig("go", 1) // the goroutine that writes the finished table to disk is skipped
	vpStub("(*badger.levelsController).checkOverlap", func(s *levelsController, tables []*table.Table, lev int) bool { return hasOverlap })
	vpStub("badger.buildTableOptions", func(db *DB) table.Options { return table.Options{} })
	vpStub("badger/table.NewTableBuilder", func(opts table.Options) *table.Builder { curTable++; adds = 0; return &table.Builder{} })
	vpStub("(*badger/table.Builder).Add", func(b *table.Builder, key []byte, v y.ValueStruct, vl uint32) {
		vpAssert(bytes.Equal(key, li.keys[li.pos]), "C12:sc.add-key-is-cursor")
		out = append(out, outRec{idx: li.pos, table: curTable})
		adds++
	})
	vpStub("(*badger/table.Builder).AddStaleKey", func(b *table.Builder, key []byte, v y.ValueStruct, vl uint32) {
		out = append(out, outRec{idx: li.pos, table: curTable, stale: true})
		adds++
	})
	vpStub("(*badger/table.Builder).ReachedCapacity", func(b *table.Builder) bool {
		if adds == 0 || capacityOff {
			return false // a fresh builder is never full
		}
		return vpBool("capacity")
	})
	vpStub("(*badger/table.Builder).Empty", func(b *table.Builder) bool { return adds == 0 })
	vpStub("(*badger/table.Builder).Finish", func(b *table.Builder) []byte { return nil })
	vpStub("(*badger/table.Builder).Close", func(b *table.Builder) {})
	vpStub("(*badger.valueLog).updateDiscardStats", func(v *valueLog, stats map[uint32]int64) {})

	// one sub-compaction over everything, or two split at the first user key (key@0 boundary)
	res := make(chan *table.Table, 8)
	thr := y.NewThrottle(8)
	if nk > 1 && vpChoose("split", 2) == 1 {
		mid := y.KeyWithTs(ents[0].ukey, 0)
		li = vpListIterOf(ents, false)
		s.subcompact(li, keyRange{right: mid}, cd, thr, res)
		li = vpListIterOf(ents, false)
		s.subcompact(li, keyRange{left: mid}, cd, thr, res)
		vpCover("sc.split")
	} else {
		li = vpListIterOf(ents, false)
		s.subcompact(li, keyRange{}, cd, thr, res)
	}

	// ---- oracle ----
	n := len(ents)
	kept := make([]bool, n)
	last := -1
	for _, o := range out {
		vpAssert(o.idx > last, "C12,C14:sc.emitted-in-input-order-once")
		last = o.idx
		kept[o.idx] = true
	}
	for a := 1; a < len(out); a++ {
		if ents[out[a].idx].keyIdx == ents[out[a-1].idx].keyIdx {
			vpAssert(out[a].table == out[a-1].table, "C14,C12:sc.versions-of-a-key-share-a-table")
		}
	}
	dropped := func(e vpEnt) bool {
		d := false
		for _, p := range dropPrefixes {
			d = vpOr(d, bytes.HasPrefix(e.ukey, p))
		}
		return d
	}
	dead := func(e vpEnt, at uint64) bool {
		return vpOr(e.meta&bitDelete > 0, vpAnd(e.exp != 0, e.exp <= at))
	}
	for i, e := range ents {
		isDropped := dropped(e)
		if !kept[i] {
			// (B)/(E): nothing above the (gc-clamped) discard timestamp is removed
			vpAssert(vpOr(isDropped, e.ver <= effDiscard), "C12,C13,C15:sc.nothing-above-discardts-dropped")
			vpCover("sc.dropped")
		} else {
			// (F) drop-prefix keys never survive
			vpAssert(vpNot(isDropped), "C29:sc.dropped-prefix-gone")
		}
		// (C) retention below the watermark
		below := vpAnd(e.ver <= effDiscard, e.meta&bitMergeEntry == 0)
		rank := 0
		stopBefore := false
		for j := 0; j <= i; j++ {
			f := ents[j]
			if f.keyIdx != e.keyIdx {
				continue
			}
			fb := vpAnd(f.ver <= effDiscard, f.meta&bitMergeEntry == 0)
			rank = vpIteInt(fb, rank+1, rank)
			if j < i {
				stop := vpAnd(fb, vpOr(vpOr(dead(f, now), f.meta&bitDiscardEarlierVersions > 0), rank == keep))
				stopBefore = vpOr(stopBefore, stop)
			}
		}
		if !kept[i] {
			vpAssert(vpOr(isDropped, vpOr(stopBefore, vpAnd(below, dead(e, now)))), "C13,C31:sc.retention-keeps-promised-versions")
		}
		if kept[i] && e.meta&bitDelete > 0 {
			vpCover("sc.tombstone-kept")
		}
	}
	// (A) every read at readTs >= discard watermark sees the same thing, per user key, with an
	// arbitrary older version of the key in the levels below when the range overlaps them.
	readTs := vpU64("readTs")
	vpAssume(readTs >= discardTs)
	for k := 0; k < nk; k++ {
		var uk []byte
		minVer := uint64(1<<63 - 1)
		for _, e := range ents {
			if e.keyIdx == k {
				uk = e.ukey
				minVer = e.ver // versions descend
			}
		}
		lowVer := vpU64("lowerVer")
		lowMeta := vpU8("lowerMeta")
		lowExp := vpU64("lowerExp")
		vpAssume(vpAnd(lowVer >= 1, lowVer < minVer))
		lowPresent := hasOverlap // without overlap no lower level holds the key
		low := vpEnt{ukey: uk, ver: lowVer, meta: lowMeta, exp: lowExp}
		isDropped := dropped(low)
		vis := func(useKept bool) (bool, uint64) {
			found := false
			present := false
			ver := uint64(0)
			for i, e := range ents {
				if e.keyIdx != k || (useKept && !kept[i]) {
					continue
				}
				hit := vpAnd(vpNot(found), e.ver <= readTs)
				present = vpIteBool(hit, vpNot(dead(e, later)), present)
				ver = vpIteU64(hit, e.ver, ver)
				found = vpOr(found, hit)
			}
			hit := vpAnd(vpAnd(vpNot(found), lowPresent), low.ver <= readTs)
			present = vpIteBool(hit, vpNot(dead(low, later)), present)
			ver = vpIteU64(hit, low.ver, ver)
			return present, vpIteU64(present, ver, 0)
		}
		p0, v0 := vis(false)
		p1, v1 := vis(true)
		// with a drop prefix the lower levels are dropped too; the key must simply be absent
		vpAssert(vpOr(isDropped, vpAnd(p0 == p1, v0 == v1)), "C12,C33,C36:sc.reads-at-or-above-discardts-unchanged")
		// after the compaction no dropped-prefix key is visible in the output
		vpAssert(vpImplies(isDropped, vpNot(vpAnd(p1, vpNot(lowPresent)))), "C29:sc.dropped-prefix-invisible")
	}
}

package badger

import (
	"bytes"

	"github.com/dgraph-io/badger/v4/pb"
	"github.com/dgraph-io/badger/v4/table"
	"github.com/dgraph-io/badger/v4/y"
	"github.com/dgraph-io/ristretto/v2/z"
	"google.golang.org/protobuf/proto"
)

// one streamed entry
type vpwEnt struct {
	ukey   []byte
	ver    uint64
	meta   byte
	umeta  byte
	exp    uint64
	val    []byte
	keyIdx int // index of the user key inside its stream
}

// what reached a table builder
type vpwAdd struct {
	stream  uint32
	builder int
	key     []byte
	vs      y.ValueStruct
	vlen    uint32
}

// H-SORTEDWRITER: the real StreamWriter.Write (demux by stream id, KV -> Entry, done markers,
// closed-stream panics), StreamWriter.newWriter, sortedWriter.handleRequests (its goroutine),
// sortedWriter.Add / send / Done, StreamWriter.Flush (oracle reset, throttle, sortTables,
// levelsController.validate). Environment: z.Buffer + protobuf framing = list of KVs (SliceIterate,
// proto.Unmarshal stubbed); valueLog.write assigns one distinct pointer per entry; the table
// builder is a recorder; sortedWriter.createTable records the finished builder as a table of the
// writer's level (file, MANIFEST: H-FSORDER) and adds it with the real levelHandler.addTable.
func VpHStreamWriter() {
	// ---- configuration (quick: six configurations; sw.full=1: the product) ----
	layout, marker, managed, variant, prevLevel := 0, false, false, 0, 0
	// layout 0: one buffer, stream A's KVs then stream B's; 1: one buffer, alternating;
	//        2: two buffers (two Write calls), each stream cut in the middle
	// variant 0: sorted; 1: one key of stream A not greater than its predecessor;
	//         2: a KV of stream A after A's done marker in the same buffer; 3: ... in a later buffer
	if vpParam("sw.full", 0) == 1 {
		variant = vpChoose("variant", 4)
		layout = vpChoose("layout", 3)
		managed = vpChoose("managed", 2) == 1
		marker = variant >= 2 || vpChoose("marker", 2) == 1
		if variant == 0 {
			prevLevel = vpChoose("prevlevel", 3)
		}
	} else {
		switch vpChoose("config", 6) {
		case 0:
		case 1:
			layout, marker, managed, prevLevel = 1, true, true, 1
		case 2:
			layout, marker, prevLevel = 2, true, 2
		case 3:
			variant = 1
		case 4:
			variant, marker, layout = 2, true, 1
		case 5:
			variant, marker, layout, managed = 3, true, 2, true
		}
	}
	if only := vpParam("sw.variant", -1); only >= 0 {
		vpAssume(variant == only)
	}
	maxEnt := vpParam("sw.entries", 3)
	// ---- the streams: internal keys strictly increasing inside a stream (user key ascending,
	// versions of one user key descending); stream B's user keys above stream A's ----
	nStreams := 1
	if variant == 0 {
		nStreams = 1 + vpChoose("nstreams", 2) // the refusals are exercised with one stream
	}
	idA := vpU32("streamIdA")
	ids := []uint32{idA}
	if nStreams == 2 {
		idB := vpU32("streamIdB")
		vpAssume(idA != idB)
		ids = append(ids, idB)
	}
	streams := make([][]vpwEnt, nStreams)
	badPos := -1
	var lastKey []byte
	for s := 0; s < nStreams; s++ {
		n := 1 + vpChoose("nentries", maxEnt)
		if s == 0 && variant == 1 {
			if n < 2 {
				n = 2
			}
			badPos = n - 1 // the offending key is the last one streamed
		}
		k := -1
		for i := 0; i < n; i++ {
			e := vpwEnt{ver: vpU64("ver"), meta: vpU8("meta"), umeta: vpU8("umeta"), exp: vpU64("exp")}
			vpAssume(vpAnd(e.ver >= 1, e.ver < 1<<63))
			vpAssume(e.meta&bitValuePointer == 0) // a streamed KV carries the value itself
			e.val = vpBytes("val", 1+2*(i%2))     // lengths 1,3,1: both sides of a threshold in 2..3
			bad := s == 0 && i == badPos
			if i == 0 || vpChoose("newkey", 2) == 1 {
				e.ukey = vpBytes("ukey", 1)
				k++
				switch {
				case bad:
					vpAssume(bytes.Compare(e.ukey, lastKey) <= 0) // smaller, or same key (then version not smaller)
					vpAssume(vpOr(bytes.Compare(e.ukey, lastKey) < 0, e.ver >= streams[s][i-1].ver))
				case lastKey != nil:
					vpAssume(bytes.Compare(lastKey, e.ukey) < 0)
				}
			} else {
				e.ukey = streams[s][i-1].ukey
				if bad {
					vpAssume(e.ver >= streams[s][i-1].ver)
				} else {
					vpAssume(e.ver < streams[s][i-1].ver)
				}
			}
			e.keyIdx = k
			if !bad {
				lastKey = e.ukey
			}
			streams[s] = append(streams[s], e)
		}
	}

	// ---- environment ----
	db := &DB{}
	db.opt.NamespaceOffset = -1
	db.opt.MaxLevels = 3
	db.opt.TableSizeMultiplier = 2
	db.opt.managedTxns = managed
	db.opt.Dir, db.opt.ValueDir = "d", "d"
	thr := vpU64("valueThreshold")
	vpAssume(vpAnd(thr >= 1, thr <= 1<<20))
	db.threshold = &vlogThreshold{}
	db.threshold.valueThreshold.Store(int64(thr))
	db.lc = &levelsController{kv: db}
	for i := 0; i < db.opt.MaxLevels; i++ {
		db.lc.levels = append(db.lc.levels, &levelHandler{level: i, db: db})
	}
	oldNext := vpU64("old.nextTxnTs")
	vpAssume(vpAnd(oldNext >= 1, oldNext < 1<<63))
	oldOrc := &oracle{isManaged: managed, nextTxnTs: oldNext}
	db.orc = oldOrc
	stopped := 0
	vpStub("(*badger.oracle).Stop", func(o *oracle) { stopped++ })
	vpStub("(*badger.oracle).readTs", func(o *oracle) uint64 { return o.nextTxnTs - 1 }) // no transaction in flight
	vpStub("(*badger.DB).syncDir", func(d *DB, dir string) error { return nil })
	vpStub("badger.buildTableOptions", func(d *DB) table.Options { return table.Options{TableSize: 1 << 20} })

	// z.Buffer / protobuf framing: a buffer is a list of KVs
	var curBuf []*pb.KV
	vpStub("(*github.com/dgraph-io/ristretto/v2/z.Buffer).LenNoPadding", func(b *z.Buffer) int { return len(curBuf) })
	vpStub("(*github.com/dgraph-io/ristretto/v2/z.Buffer).SliceIterate", func(b *z.Buffer, f func(s []byte) error) error {
		for i := range curBuf {
			if err := f([]byte{byte(i)}); err != nil {
				return err
			}
		}
		return nil
	})
	vpStub("google.golang.org/protobuf/proto.Unmarshal", func(b []byte, m proto.Message) error {
		src, kv := curBuf[int(b[0])], m.(*pb.KV)
		kv.Key, kv.Value, kv.UserMeta, kv.Meta = src.Key, src.Value, src.UserMeta, src.Meta
		kv.Version, kv.ExpiresAt, kv.StreamId, kv.StreamDone = src.Version, src.ExpiresAt, src.StreamId, src.StreamDone
		return nil
	})
	// value log: every entry gets a pointer that is an injective function of its internal key
	// (also entries that stay in the LSM tree; the real vlog.write appends a zero pointer for
	// those, which nobody reads), so that a pointer attached to the wrong entry is visible
	ptrOf := func(ikey []byte) valuePointer {
		ver := y.ParseTs(ikey)
		return valuePointer{Fid: uint32(ver >> 32), Len: 100 + uint32(ikey[0]), Offset: uint32(ver)}
	}
	vlogWrites := 0
	// The value threshold is dynamic (VLogPercentile): every call of DB.valueThreshold may return
	// another value. valueLog.write decides inline-vs-pointer with the threshold it pins on the
	// entry (the real skipVlogAndSetThreshold) and hands out a zero pointer for an inline value;
	// whoever places the entry into the table later has to come to the same decision.
	dynThr := vpParam("sw.dynthr", 1) == 1
	if dynThr {
		vpStub("(*badger.DB).valueThreshold", func(db *DB) int64 {
			t := vpU64("env.thr")
			vpAssume(vpAnd(t >= 1, t <= 1<<20))
			return int64(t)
		})
	}
	type vpwPlaced struct {
		key    []byte
		inline bool
	}
	var placed []vpwPlaced
	vpStub("(*badger.valueLog).write", func(v *valueLog, reqs []*request) error {
		vlogWrites++
		for _, r := range reqs {
			for _, e := range r.Entries {
				skip := e.skipVlogAndSetThreshold(db.valueThreshold())
				placed = append(placed, vpwPlaced{key: append([]byte(nil), e.Key...), inline: skip})
				if skip {
					r.Ptrs = append(r.Ptrs, valuePointer{})
				} else {
					r.Ptrs = append(r.Ptrs, ptrOf(e.Key))
				}
			}
		}
		return nil
	})
	// table builder = recorder
	var builders []*table.Builder
	var adds []vpwAdd
	nAdds := func(b *table.Builder) int {
		n := 0
		for _, a := range adds {
			if builders[a.builder] == b {
				n++
			}
		}
		return n
	}
	bIdx := func(b *table.Builder) int {
		for i := range builders {
			if builders[i] == b {
				return i
			}
		}
		return -1
	}
	curStream := uint32(0)
	vpStub("badger/table.NewTableBuilder", func(opts table.Options) *table.Builder {
		b := &table.Builder{}
		builders = append(builders, b)
		return b
	})
	vpStub("(*badger/table.Builder).Add", func(b *table.Builder, key []byte, vs y.ValueStruct, vl uint32) {
		vs.Value = append([]byte{}, vs.Value...)
		adds = append(adds, vpwAdd{stream: curStream, builder: bIdx(b), key: append([]byte{}, key...), vs: vs, vlen: vl})
	})
	vpStub("(*badger/table.Builder).ReachedCapacity", func(b *table.Builder) bool {
		if nAdds(b) == 0 {
			return false
		}
		return vpBool("capacity")
	})
	vpStub("(*badger/table.Builder).Empty", func(b *table.Builder) bool { return nAdds(b) == 0 })
	vpStub("(*badger/table.Builder).Finish", func(b *table.Builder) []byte { return nil })
	vpStub("(*badger/table.Builder).Close", func(b *table.Builder) {})
	// sortedWriter.Add: the real one, observed (which stream is adding; accepted or rejected)
	addCount := make([]int, nStreams)
	streamOf := func(id uint32) int {
		for s := range ids {
			if ids[s] == id { // decided: the writer's id is one of the harness ids
				return s
			}
		}
		return -1
	}
	vpStub("(*badger.sortedWriter).Add", func(w *sortedWriter, key []byte, vs y.ValueStruct) error {
		curStream = w.streamID
		s := streamOf(w.streamID)
		i := addCount[s]
		addCount[s]++
		err := w.Add(key, vs)
		if s == 0 && i == badPos {
			vpAssert(err != nil, "C26:sw.key-not-above-predecessor-rejected")
			vpCover("sw.unsorted-rejected")
		} else {
			vpAssert(err == nil, "C26:sw.sorted-key-accepted")
		}
		return err
	})
	// createTable: the finished builder becomes a table of the writer's level
	type tbl struct {
		t       *table.Table
		builder int
		level   int
		lo, hi  []byte
	}
	var tables []tbl
	tOf := func(t *table.Table) *tbl {
		for i := range tables {
			if tables[i].t == t {
				return &tables[i]
			}
		}
		return nil
	}
	vpStub("(*badger.sortedWriter).createTable", func(w *sortedWriter, b *table.Builder) error {
		if nAdds(b) == 0 {
			return nil
		}
		bi := bIdx(b)
		for _, t := range tables {
			vpAssert(t.builder != bi, "C26:sw.builder-becomes-one-table")
		}
		nt := tbl{t: &table.Table{}, builder: bi, level: w.level}
		for _, a := range adds {
			if a.builder == bi {
				if nt.lo == nil {
					nt.lo = a.key
				}
				nt.hi = a.key
			}
		}
		tables = append(tables, nt)
		vpAssert(w.level >= 0 && w.level < len(w.db.lc.levels), "C26:sw.level-exists")
		w.db.lc.levels[w.level].addTable(nt.t)
		return nil
	})
	vpStub("(*badger/table.Table).Size", func(t *table.Table) int64 { return 1 })
	vpStub("(*badger/table.Table).StaleDataSize", func(t *table.Table) uint32 { return 0 })
	vpStub("(*badger/table.Table).Smallest", func(t *table.Table) []byte { return tOf(t).lo })
	vpStub("(*badger/table.Table).Biggest", func(t *table.Table) []byte { return tOf(t).hi })
	vpStub("(*badger/table.Table).ID", func(t *table.Table) uint64 { return uint64(tOf(t).builder) })

	// ---- the stream writer (Prepare / PrepareIncremental: dropAll / prepareToDrop belong to C29;
	// what they leave behind is the level to write above) ----
	sw := db.NewStreamWriter()
	doneCalls := 0
	sw.done = func() { doneCalls++ }
	// prevLevel 0: after Prepare (or PrepareIncremental on an empty DB); 1..MaxLevels-1: what
	// PrepareIncremental leaves, the lowest non-empty level (never 0: it flattens first)
	incremental := prevLevel > 0
	if incremental {
		sw.prevLevel = prevLevel
		vpCover("sw.incremental")
	}
	wantLevel := db.opt.MaxLevels - 1
	if incremental {
		wantLevel = sw.prevLevel - 1
	}

	// ---- the buffers ----
	mkKV := func(s int, e vpwEnt) *pb.KV {
		return &pb.KV{Key: e.ukey, Value: e.val, UserMeta: []byte{e.umeta}, Meta: []byte{e.meta}, Version: e.ver, ExpiresAt: e.exp, StreamId: ids[s]}
	}
	var bufsKV [][]*pb.KV
	cut := func(s int) int { return (len(streams[s]) + 1) / 2 }
	part := func(s, from, to int, final bool) []*pb.KV {
		var out []*pb.KV
		for i := from; i < to && i < len(streams[s]); i++ {
			out = append(out, mkKV(s, streams[s][i]))
		}
		if s == 0 && final && marker {
			// the done marker follows the stream's last KV (KVs of other streams may come after it)
			out = append(out, &pb.KV{StreamId: ids[0], StreamDone: true})
		}
		return out
	}
	weave := func(a, b []*pb.KV, alternate bool) []*pb.KV {
		if !alternate {
			return append(append([]*pb.KV{}, a...), b...)
		}
		var out []*pb.KV
		for i := 0; i < len(a) || i < len(b); i++ {
			if i < len(b) {
				out = append(out, b[i])
			}
			if i < len(a) {
				out = append(out, a[i])
			}
		}
		return out
	}
	none := []*pb.KV{}
	second := func(from, to int) []*pb.KV {
		if nStreams == 2 {
			return part(1, from, to, false)
		}
		return none
	}
	switch layout {
	case 0, 1:
		bufsKV = [][]*pb.KV{weave(part(0, 0, 99, true), second(0, 99), layout == 1)}
	case 2:
		cb := 0
		if nStreams == 2 {
			cb = cut(1)
		}
		bufsKV = [][]*pb.KV{weave(part(0, 0, cut(0), false), second(0, cb), true), weave(part(0, cut(0), 99, true), second(cb, 99), false)}
	}
	last := len(bufsKV) - 1
	extra := vpwEnt{ukey: []byte{0xfe}, ver: 1, val: []byte{1}}
	switch {
	case variant == 2:
		bufsKV[last] = append(bufsKV[last], mkKV(0, extra))
	case variant == 3:
		bufsKV = append(bufsKV, []*pb.KV{mkKV(0, extra)})
	case marker:
		vpCover("sw.done-marker")
	}
	if vpParam("sw.maporder", 0) == 1 {
		vpConfig("maporder", 1) // Write ranges over its per-stream map in any order
	}

	// ---- run ----
	if variant == 1 {
		vpExpectPanic("C26:sw.refused-by-panic") // handleRequests panics with Add's error whenever it gets to run
	}
	for bi, kvs := range bufsKV {
		curBuf = kvs
		if variant >= 2 && bi == len(bufsKV)-1 {
			vpExpectPanic("C26:sw.refused-by-panic")
		}
		err := sw.Write(&z.Buffer{})
		vpAssert(err == nil, "C26:sw.write-returns-normally")
		if variant == 3 && bi == len(bufsKV)-2 {
			vpAssert(sw.writers[ids[0]] == nil, "C26:sw.done-marker-closes-the-writer")
		}
	}
	if variant >= 2 {
		vpAssert(false, "C26:sw.write-after-done-marker-refused")
		return
	}
	ferr := sw.Flush()
	if variant == 1 {
		vpAssert(false, "C26:sw.unsorted-stream-refused")
		return
	}
	vpAssert(ferr == nil, "C26,C14:sw.flush-validates")
	vpAssert(doneCalls == 1, "C26:sw.flush-releases-the-db-once")

	// ---- what reached the builders: per stream exactly the streamed entries, in order ----
	for s := 0; s < nStreams; s++ {
		var mine []vpwAdd
		for _, a := range adds {
			if streamOf(a.stream) == s {
				mine = append(mine, a)
			}
		}
		vpAssert(len(mine) == len(streams[s]), "C26:sw.every-entry-added-once")
		for i := 0; i < len(mine) && i < len(streams[s]); i++ {
			a, e := mine[i], streams[s][i]
			c := vpAnd(bytes.Equal(a.key, y.KeyWithTs(e.ukey, e.ver)), vpAnd(a.vs.UserMeta == e.umeta, a.vs.ExpiresAt == e.exp))
			// the decision valueLog.write took for this entry
			inline := false
			for _, pl := range placed {
				inline = vpOr(inline, vpAnd(bytes.Equal(pl.key, y.KeyWithTs(e.ukey, e.ver)), pl.inline))
			}
			p := ptrOf(y.KeyWithTs(e.ukey, e.ver)) // the pointer valueLog.write handed out for this entry
			asInline := vpAnd(vpAnd(a.vs.Meta == e.meta, bytes.Equal(a.vs.Value, e.val)), vpAnd(len(a.vs.Value) == len(e.val), a.vlen == 0))
			asPtr := vpAnd(vpAnd(a.vs.Meta == e.meta|bitValuePointer, bytes.Equal(a.vs.Value, p.Encode())), vpAnd(len(a.vs.Value) == int(vptrSize), a.vlen == p.Len))
			vpAssert(vpAnd(c, vpOr(vpAnd(inline, asInline), vpAnd(vpNot(inline), asPtr))), "C26:sw.added-entry-is-the-streamed-entry")
			if i > 0 && streams[s][i-1].keyIdx == e.keyIdx {
				vpAssert(mine[i-1].builder == a.builder, "C26,C14:sw.versions-of-a-key-share-a-table")
			}
			if i > 0 && mine[i-1].builder != a.builder {
				vpCover("sw.table-switch")
			}
		}
	}
	// every builder that got entries became exactly one table, at the expected level
	for bi := range builders {
		has := false
		for _, a := range adds {
			has = has || a.builder == bi
		}
		n := 0
		for _, t := range tables {
			if t.builder == bi {
				n++
				vpAssert(t.level == wantLevel, "C26:sw.tables-at-the-level-above-existing-data")
			}
		}
		vpAssert((n == 1) == has && n <= 1, "C26:sw.every-filled-builder-becomes-a-table")
	}
	lv := db.lc.levels[wantLevel]
	vpAssert(len(lv.tables) == len(tables), "C26:sw.level-holds-the-tables")
	for i := 1; i < len(lv.tables); i++ {
		vpAssert(y.CompareKeys(tOf(lv.tables[i-1]).hi, tOf(lv.tables[i]).lo) < 0, "C26,C14:sw.level-sorted-and-disjoint")
	}
	if len(tables) > 1 {
		vpCover("sw.several-tables")
	}
	for _, w := range sw.writers {
		vpAssert(w == nil || w.builder == nil, "C26:sw.no-open-builder-after-flush")
	}
	// ---- timestamps ----
	if managed {
		vpAssert(db.orc == oldOrc && stopped == 0, "C26:sw.managed-oracle-untouched")
		vpCover("sw.managed")
		return
	}
	vpAssert(stopped == 1 && db.orc != oldOrc, "C26:sw.oracle-replaced")
	for s := range streams {
		for _, e := range streams[s] {
			vpAssert(db.orc.nextTxnTs > e.ver, "C11,C26:sw.next-txn-ts-above-every-streamed-version")
		}
	}
	vpAssert(db.orc.nextTxnTs >= oldNext, "C11:sw.next-txn-ts-never-lowered")
	vpObserveU64("nextTxnTs", db.orc.nextTxnTs)
}

package badger

import (
	"bytes"
	"context"
	"io"
	"time"

	"github.com/dgraph-io/badger/v4/pb"
	"github.com/dgraph-io/badger/v4/y"
	"github.com/dgraph-io/ristretto/v2/z"
	"google.golang.org/protobuf/proto"
)

// ---------------------------------------------------------------------------------------------
// Shared pieces of the stream / backup / stream-writer harnesses (H-BACKUP, H-STREAM,
// H-SORTEDWRITER). Copies of H-ITER's list iterator and entry generator under new names.
// ---------------------------------------------------------------------------------------------

// vpsList is a forward y.Iterator over a sorted list of internal keys (ascending by y.CompareKeys).
type vpsList struct {
	keys [][]byte
	vals []y.ValueStruct
	pos  int
}

func (l *vpsList) Next()   { l.pos++ }
func (l *vpsList) Rewind() { l.pos = 0 }
func (l *vpsList) Seek(key []byte) {
	l.pos = len(l.keys)
	for i := range l.keys {
		if y.CompareKeys(l.keys[i], key) >= 0 {
			l.pos = i
			break
		}
	}
}
func (l *vpsList) Key() []byte          { return l.keys[l.pos] }
func (l *vpsList) Value() y.ValueStruct { return l.vals[l.pos] }
func (l *vpsList) Valid() bool          { return l.pos >= 0 && l.pos < len(l.keys) }
func (l *vpsList) Close() error         { return nil }

// one stored version of a user key
type vpsEnt struct {
	ukey   []byte
	ver    uint64
	meta   byte
	umeta  byte
	exp    uint64
	val    byte
	keyIdx int
}

// vpsVersions makes nv versions of user key uk: versions strictly decreasing, 1 <= ver < 2^63
// (timestamps; see H-ITER for the reason of the upper bound), below `below` when below > 0;
// meta byte (delete / discard-earlier / merge / txn bits), user meta, expiry and one value byte
// are symbolic. Values are stored inline (bitValuePointer clear): resolving pointers is C06.
func vpsVersions(uk []byte, keyIdx, nv int) []vpsEnt {
	var out []vpsEnt
	var pv uint64
	for v := 0; v < nv; v++ {
		e := vpsEnt{ukey: uk, ver: vpU64("ver"), meta: vpU8("meta"), umeta: vpU8("umeta"), exp: vpU64("exp"), val: vpU8("val"), keyIdx: keyIdx}
		vpAssume(vpAnd(e.ver >= 1, e.ver < 1<<63))
		vpAssume(e.meta&bitValuePointer == 0)
		if v > 0 {
			vpAssume(e.ver < pv)
		}
		pv = e.ver
		out = append(out, e)
	}
	return out
}

func vpsListOf(ents []vpsEnt) *vpsList {
	li := &vpsList{}
	for _, e := range ents {
		li.keys = append(li.keys, y.KeyWithTs(e.ukey, e.ver))
		li.vals = append(li.vals, y.ValueStruct{Meta: e.meta, UserMeta: e.umeta, ExpiresAt: e.exp, Value: []byte{e.val}, Version: e.ver})
	}
	return li
}

func vpsDead(e vpsEnt, now uint64) bool {
	return vpOr(e.meta&bitDelete > 0, vpAnd(e.exp != 0, e.exp <= now))
}

// vpsBufs stands in for z.Buffer (ristretto, mmap/unsafe) and the protobuf framing of KVs inside
// it: a buffer is the list of the KVs that KVToBuffer put into it, each captured by value at the
// moment of the call (as serialisation does).
type vpsBufs struct {
	bufs []*z.Buffer
	kvs  [][]*pb.KV
}

func (r *vpsBufs) idx(b *z.Buffer) int {
	for i := range r.bufs {
		if r.bufs[i] == b {
			return i
		}
	}
	r.bufs = append(r.bufs, b)
	r.kvs = append(r.kvs, nil)
	return len(r.bufs) - 1
}

func vpsCloneKV(kv *pb.KV) *pb.KV {
	c := &pb.KV{Version: kv.Version, ExpiresAt: kv.ExpiresAt, StreamId: kv.StreamId, StreamDone: kv.StreamDone}
	if kv.Key != nil {
		c.Key = append([]byte{}, kv.Key...)
	}
	if kv.Value != nil {
		c.Value = append([]byte{}, kv.Value...)
	}
	if kv.UserMeta != nil {
		c.UserMeta = append([]byte{}, kv.UserMeta...)
	}
	if kv.Meta != nil {
		c.Meta = append([]byte{}, kv.Meta...)
	}
	return c
}

func (r *vpsBufs) put(b *z.Buffer, kv *pb.KV) {
	i := r.idx(b)
	r.kvs[i] = append(r.kvs[i], vpsCloneKV(kv))
}

func (r *vpsBufs) install() {
	vpStub("github.com/dgraph-io/ristretto/v2/z.NewBuffer", func(capacity int, tag string) *z.Buffer {
		b := &z.Buffer{}
		r.idx(b)
		return b
	})
	vpStub("(*github.com/dgraph-io/ristretto/v2/z.Buffer).LenNoPadding", func(b *z.Buffer) int { return len(r.kvs[r.idx(b)]) })
	vpStub("(*github.com/dgraph-io/ristretto/v2/z.Buffer).Release", func(b *z.Buffer) error { return nil })
	vpStub("badger.KVToBuffer", func(kv *pb.KV, b *z.Buffer) { r.put(b, kv) })
	vpStub("badger.BufferToKVList", func(b *z.Buffer) (*pb.KVList, error) {
		l := &pb.KVList{}
		for _, kv := range r.kvs[r.idx(b)] {
			l.Kv = append(l.Kv, vpsCloneKV(kv))
		}
		return l, nil
	})
}

// vpsAllocStubs replaces z.Allocator (ristretto arena, unsafe) by plain Go allocations.
func vpsAllocStubs() {
	vpStub("github.com/dgraph-io/ristretto/v2/z.NewAllocator", func(sz int, tag string) *z.Allocator { return &z.Allocator{} })
	vpStub("(*github.com/dgraph-io/ristretto/v2/z.Allocator).Copy", func(a *z.Allocator, buf []byte) []byte {
		return append([]byte{}, buf...)
	})
	vpStub("(*github.com/dgraph-io/ristretto/v2/z.Allocator).Reset", func(a *z.Allocator) {})
	vpStub("(*github.com/dgraph-io/ristretto/v2/z.Allocator).Release", func(a *z.Allocator) {})
	vpStub("badger/y.NewKV", func(a *z.Allocator) *pb.KV { return &pb.KV{} })
}

// vpsLeafStubs keeps path counts down (DESIGN 2.7a iv) by giving two pure leaf functions a
// fork-free body that computes the same boolean function:
//   - Item.hasValue: `meta == 0 && vptr == nil` evaluated vptr-first (the harness values are
//     never nil slices, so no fork on the symbolic meta byte);
//   - with spec=true also isDeletedOrExpired(meta, exp) = delete bit || (exp != 0 && exp <= now) as
//     one term instead of three branches (its real body is decided by H-ITER, H-GET and VpHToList).
func vpsLeafStubs(spec bool, now func() uint64) {
	vpStub("(*badger.Item).hasValue", func(item *Item) bool {
		if item.vptr != nil {
			return true
		}
		return item.meta != 0
	})
	if spec {
		vpStub("badger.isDeletedOrExpired", func(meta byte, expiresAt uint64) bool {
			return vpOr(meta&bitDelete > 0, vpAnd(expiresAt != 0, expiresAt <= now()))
		})
	}
}

type vpsNullWriter struct{}

func (vpsNullWriter) Write(p []byte) (int, error) { return len(p), nil }

// vpsKVIsEntry: the KV carries entry e as a backup must (key, version, expiry, user meta, meta
// without the txn bits, and the value unless the entry is deleted/expired).
func vpsKVIsEntry(kv *pb.KV, e vpsEnt, dead bool) bool {
	c := vpAnd(bytes.Equal(kv.Key, e.ukey), vpAnd(kv.Version == e.ver, kv.ExpiresAt == e.exp))
	if len(kv.UserMeta) != 1 || len(kv.Meta) != 1 {
		return false
	}
	c = vpAnd(c, vpAnd(kv.UserMeta[0] == e.umeta, kv.Meta[0] == e.meta&^(bitTxn|bitFinTxn)))
	valOK := false
	if len(kv.Value) == 1 {
		valOK = kv.Value[0] == e.val
	}
	return vpAnd(c, vpOr(dead, valOK))
}

// vpsKVIsMarker: the synthetic delete marker just below a discard-earlier entry e.
func vpsKVIsMarker(kv *pb.KV, e vpsEnt) bool {
	if len(kv.Meta) != 1 || len(kv.Value) != 0 {
		return false
	}
	return vpAnd(vpAnd(bytes.Equal(kv.Key, e.ukey), kv.Version == e.ver-1), vpAnd(kv.Meta[0] == bitDelete, kv.ExpiresAt == 0))
}

// H-BACKUP (1): Stream.ToList (the default KeyToList) and the KeyToList / Send closures that
// Stream.Backup installs, over the real badger Iterator positioned on a key with <= 3 versions.
//
// mode 0: st.ToList(key, itr) called the way produceKVs calls KeyToList
// mode 1: db.Backup(w, since)          (real DB.Backup -> NewStream -> Stream.Backup; SinceTs = since)
// mode 2: st := db.NewStream(); st.SinceTs = s2; st.Backup(w, since)   (since and s2 unrelated)
// In modes 1/2 Stream.Orchestrate is replaced by a harness function that does for the first key
// under the iterator what produceKVs does: list := st.KeyToList(item.KeyCopy(nil), itr), the KVs
// go into a buffer (plus a stream-done marker), st.Send(buf).
func VpHToList() {
	vpConfig("go", 2) // the value-prefetch goroutine of Iterator.fill runs at its go statement
	mode := vpChoose("mode", 3)
	if only := vpParam("tl.mode", -1); only >= 0 {
		vpAssume(mode == only)
	}
	nv := 1 + vpChoose("nversions", vpParam("tl.versions", 3))
	uk := vpBytes("ukey", 1)
	ents := vpsVersions(uk, 0, nv)
	// optionally a following user key with one version: KeyToList must stop at it
	if vpChoose("nextkey", 2) == 1 {
		uk2 := vpBytes("ukey2", 1)
		vpAssume(bytes.Compare(uk, uk2) < 0)
		ents = append(ents, vpsVersions(uk2, 1, 1)...)
		vpCover("tl.next-key-present")
	}
	n := len(ents)
	readTs := vpU64("readTs")
	now := vpU64("now")
	vpAssume(now < 1<<40)
	vpStub("time.Now", func() time.Time { return time.Unix(int64(now), 0) })
	if vpParam("tl.realleaf", 0) == 0 {
		vpsLeafStubs(false, nil) // Item.hasValue without the fork on meta == 0; tl.realleaf=1: untouched
	}
	sinceTs := vpU64("sinceTs") // Stream.SinceTs (iterator filter)
	since := sinceTs            // Backup's argument
	if mode == 2 {
		since = vpU64("since")
	}
	keep := 1 + vpChoose("numVersionsToKeep", 2) // 1, or more than 1

	db := &DB{}
	db.opt.NamespaceOffset = -1
	db.opt.NumVersionsToKeep = keep
	db.opt.NumGoroutines = 1
	db.orc = &oracle{}
	txn := &Txn{readTs: readTs, db: db}

	bufs := &vpsBufs{}
	bufs.install()
	var written []*pb.KV // what reached the backup's writer, in order
	writes := 0
	vpStub("badger.writeTo", func(list *pb.KVList, w io.Writer) error {
		writes++
		for _, kv := range list.Kv {
			written = append(written, vpsCloneKV(kv))
		}
		return nil
	})

	var list *pb.KVList
	var lerr error
	called := false
	usedSinceTs := uint64(0) // the SinceTs the stream really carries (DB.Backup chooses it)
	produce := func(st *Stream) {
		usedSinceTs = st.SinceTs
		itr := &Iterator{txn: txn, iitr: vpsListOf(ents), readTs: readTs,
			opt: IteratorOptions{AllVersions: true, PrefetchValues: true, PrefetchSize: 100, Prefix: st.Prefix, SinceTs: st.SinceTs}}
		itr.Seek(nil)
		if !itr.Valid() {
			return
		}
		item := itr.Item()
		called = true
		list, lerr = st.KeyToList(item.KeyCopy(nil), itr)
	}
	var maxV uint64
	var berr error
	switch mode {
	case 0:
		st := db.NewStream()
		st.SinceTs = sinceTs
		st.KeyToList = st.ToList // as Orchestrate does when KeyToList is nil
		produce(st)
	default:
		vpStub("(*badger.Stream).Orchestrate", func(st *Stream, ctx context.Context) error {
			produce(st)
			if lerr != nil || list == nil || len(list.Kv) == 0 {
				return nil // produceKVs logs the error and goes on with the next key
			}
			buf := z.NewBuffer(1, "vp")
			for _, kv := range list.Kv {
				kv.StreamId = 1
				KVToBuffer(kv, buf)
			}
			KVToBuffer(&pb.KV{StreamId: 1, StreamDone: true}, buf)
			return st.Send(buf)
		})
		if mode == 1 {
			maxV, berr = db.Backup(vpsNullWriter{}, since)
		} else {
			st := db.NewStream()
			st.SinceTs = sinceTs
			maxV, berr = st.Backup(vpsNullWriter{}, since)
		}
		vpAssert(berr == nil, "C24:backup.returns-normally")
	}

	// ---- reference ----
	// the iterator shows versions <= readTs and > SinceTs (SinceTs 0 = no filter); KeyToList gets
	// the key of the first version shown. (Which SinceTs DB.Backup gives its stream is not demanded:
	// the reference uses the one the stream carried; Backup's own lower bound is `since`.)
	if mode != 1 {
		vpAssert(usedSinceTs == sinceTs, "C24,C25:tolist.stream-sincets-reaches-the-iterator")
	}
	vis := make([]bool, n)
	anyVis0 := false
	for i, e := range ents {
		vis[i] = vpAnd(e.ver <= readTs, vpOr(usedSinceTs == 0, e.ver > usedSinceTs))
		if e.keyIdx == 0 {
			anyVis0 = vpOr(anyVis0, vis[i])
		}
	}
	reached := make([]bool, n) // KeyToList looks at entry i
	emitted := make([]bool, n) // ... and puts it into the list
	rank := make([]int, n)
	stopped := false
	anyVis := false
	total := 0
	errExp := false // Backup: a version below `since` came under the cursor
	marker := false
	for i, e := range ents {
		active := vis[i]
		if e.keyIdx == 1 {
			active = vpAnd(active, vpNot(anyVis0)) // another key than the one asked for ends the list
		}
		anyVis = vpOr(anyVis, vis[i])
		dead := vpsDead(e, now)
		reached[i] = vpAnd(active, vpNot(stopped))
		rank[i] = total
		if mode == 0 {
			// ToList: visible versions newest first, none of a deleted/expired head, only the newest
			// one with NumVersionsToKeep == 1, nothing below a discard-earlier version
			emitted[i] = vpAnd(reached[i], vpNot(dead))
			stopped = vpOr(stopped, vpAnd(reached[i], vpOr(dead, vpOr(keep == 1, e.meta&bitDiscardEarlierVersions > 0))))
		} else {
			// Backup: every shown version >= since, newest first, down to and including the first
			// deleted / expired / discard-earlier one; a version below since ends the list
			below := vpAnd(reached[i], e.ver < since)
			emitted[i] = vpAnd(reached[i], vpNot(below))
			errExp = vpOr(errExp, below)
			marker = vpOr(marker, vpAnd(emitted[i], e.meta&bitDiscardEarlierVersions > 0))
			stopped = vpOr(stopped, vpOr(below, vpAnd(reached[i], vpOr(dead, e.meta&bitDiscardEarlierVersions > 0))))
		}
		total = vpIteInt(emitted[i], total+1, total)
	}
	total = vpIteInt(marker, total+1, total)

	vpAssert(called == anyVis, "C24,C25:tolist.called-iff-a-version-is-shown")
	if !called {
		vpCover("tl.nothing-visible")
		if mode != 0 {
			vpAssert(vpAnd(maxV == 0, writes == 0), "C24:backup.nothing-written-for-nothing-shown")
		}
		return
	}
	// A key that has a shown version >= since must be in the backup. (Until /repo 38e0447 the
	// closure returned an error at the first version below since; produceKVs only logs a KeyToList
	// error and skips the key, Backup returned nil: Stream.Backup on a stream with SinceTs < since
	// silently lost every key that also had an older version. Reproduced natively.)
	owed := false
	for i := range ents {
		owed = vpOr(owed, emitted[i])
	}
	if lerr != nil {
		// a failing KeyToList leaves the key out; tolerable only if nothing was owed
		vpAssert(vpAnd(mode != 0, errExp), "C24:backup.error-only-below-since")
		vpAssert(vpAnd(maxV == 0, writes == 0), "C24:backup.failed-key-not-written")
		vpAssert(vpNot(owed), "C24:backup.key-with-version-at-or-above-since-is-backed-up")
		return
	}
	got := 0
	if list != nil {
		got = len(list.Kv)
	}
	if mode != 0 {
		vpAssert(vpImplies(owed, got > 0), "C24:backup.key-with-version-at-or-above-since-is-backed-up")
	}
	vpAssert(got == total, "C24,C25,C33:tolist.count")
	for p := 0; p < got; p++ {
		kv := list.Kv[p]
		match := false
		for i, e := range ents {
			dead := vpsDead(e, now)
			var same bool
			if mode == 0 {
				um := false
				if len(kv.UserMeta) == 1 {
					um = kv.UserMeta[0] == e.umeta
				}
				vv := false
				if len(kv.Value) == 1 {
					vv = kv.Value[0] == e.val
				}
				same = vpAnd(vpAnd(bytes.Equal(kv.Key, e.ukey), vpAnd(kv.Version == e.ver, kv.ExpiresAt == e.exp)), vpAnd(um, vv))
				same = vpAnd(same, vpNot(dead)) // C33: never an expired or deleted version
			} else {
				same = vpsKVIsEntry(kv, e, dead)
				mk := vpAnd(vpAnd(emitted[i], e.meta&bitDiscardEarlierVersions > 0), rank[i]+1 == p)
				match = vpOr(match, vpAnd(mk, vpsKVIsMarker(kv, e)))
			}
			match = vpOr(match, vpAnd(vpAnd(emitted[i], rank[i] == p), same))
		}
		if mode == 0 {
			vpAssert(match, "C25,C33:tolist.kv-is-next-visible-version")
		} else {
			vpAssert(match, "C24,C33:backup.kv-is-next-retained-version-or-marker")
		}
	}
	if got > 0 {
		vpCover("tl.emitted")
		vpObserveU64("first.version", list.Kv[0].Version)
	}
	if got > 1 {
		vpCover("tl.several-versions")
	}
	if mode == 0 {
		if got == 0 {
			vpCover("tl.dead-head-gives-nothing")
		}
		return
	}
	// ---- Backup's Send closure: everything but the done marker is written, in order; the
	// returned version is the largest one written ----
	vpAssert(len(written) == got && (writes == 1) == (got > 0), "C24:backup.list-written-once-without-done-marker")
	expMax := uint64(0)
	for i := n - 1; i >= 0; i-- {
		expMax = vpIteU64(emitted[i], ents[i].ver, expMax) // versions descend: the first emitted wins
	}
	for p := 0; p < len(written) && p < got; p++ {
		w, kv := written[p], list.Kv[p]
		vpAssert(vpAnd(vpAnd(bytes.Equal(w.Key, kv.Key), w.Version == kv.Version), vpNot(w.StreamDone)), "C24:backup.written-kv-is-list-kv")
	}
	vpAssert(maxV == expMax, "C24:backup.returned-version-is-largest-emitted")
	if got > 0 && len(list.Kv[got-1].UserMeta) == 0 {
		vpCover("tl.discard-marker") // only the synthetic marker has no user meta
	}
}

// one entry that reached the destination DB's write path
type vpsLoaded struct {
	key   []byte // internal key
	val   []byte
	umeta byte
	exp   uint64
	meta  byte
}

// H-BACKUP (2): round trip. Source = the memtable-backed DB of vpsNewSource (<= 2 keys). The real
// DB.Backup (Stream.Backup with its KeyToList/Send closures, writeTo) runs with Stream.Orchestrate
// replaced by a harness function that runs the real produceKVs over the single range [nil,nil) and
// hands every buffer to st.Send. The backup bytes go through the real writeTo / DB.Load framing
// (binary.Write, bufio, io.ReadFull) with an opaque protobuf codec, the real KVLoader.Set / send /
// Finish, and end in a recorder in place of DB.batchSetAsync. Then <= bl.new more versions are
// committed at the source, a second backup is taken with since = the version the first returned,
// and loaded into the same destination.
func VpHBackupLoad() {
	vpConfig("go", 2)
	// (NumVersionsToKeep plays no part: Backup's KeyToList never looks at it, only ToList does)
	src := vpsNewSource(false, 1+vpParam("bl.keep", 1))
	nk := 1 + vpChoose("nkeys", vpParam("bl.keys", 2))
	maxVer := vpParam("bl.versions", 2)
	budget := vpParam("bl.total", 3)
	var ukeys [][]byte
	for k := 0; k < nk; k++ {
		uk := vpBytes("ukey", 1)
		if k > 0 {
			vpAssume(bytes.Compare(ukeys[k-1], uk) < 0)
		}
		ukeys = append(ukeys, uk)
		lim := maxVer
		if rest := budget - len(src.ents) - (nk - 1 - k); rest < lim {
			lim = rest
		}
		nv := 1 + vpChoose("nversions", lim)
		src.ents = append(src.ents, vpsVersions(uk, k, nv)...)
	}
	r1 := vpU64("readTs1")
	vpAssume(r1 >= 1)
	clock := vpU64("now1")
	vpAssume(clock < 1<<40)
	vpStub("time.Now", func() time.Time { return time.Unix(int64(clock), 0) })
	if vpParam("bl.realleaf", 0) == 0 {
		vpsLeafStubs(true, func() uint64 { return clock })
	}
	curReadTs := r1
	src.nextReadTs = func() uint64 { return curReadTs }

	// ---- Orchestrate: one producer, one range, every buffer sent ----
	vpStub("(*badger.Stream).Orchestrate", func(st *Stream, ctx context.Context) error {
		if st.KeyToList == nil {
			st.KeyToList = st.ToList
		}
		bs, err := src.runProducer(st, 0, []keyRange{{}})
		if err != nil {
			return err
		}
		for _, b := range bs {
			if b.LenNoPadding() == 0 {
				continue // streamKVs.sendBatch skips empty batches
			}
			if err := st.Send(b); err != nil {
				return err
			}
		}
		return nil
	})
	// ---- opaque protobuf codec for KVList: Marshal gives a 1-byte handle ----
	var lists []*pb.KVList
	vpStub("google.golang.org/protobuf/proto.Size", func(m proto.Message) int { return 1 })
	vpStub("google.golang.org/protobuf/proto.Marshal", func(m proto.Message) ([]byte, error) {
		l := m.(*pb.KVList)
		c := &pb.KVList{}
		for _, kv := range l.Kv {
			c.Kv = append(c.Kv, vpsCloneKV(kv))
		}
		lists = append(lists, c)
		return []byte{byte(len(lists) - 1)}, nil
	})
	vpStub("google.golang.org/protobuf/proto.Unmarshal", func(b []byte, m proto.Message) error {
		l := m.(*pb.KVList)
		l.Kv = nil
		for _, kv := range lists[int(b[0])].Kv {
			l.Kv = append(l.Kv, vpsCloneKV(kv))
		}
		return nil
	})

	// ---- destination ----
	dst := &DB{}
	dst.opt.NamespaceOffset = -1
	dst.opt.maxBatchSize = 1 << 20
	dst.opt.maxBatchCount = 1000
	// batching: KVLoader.Set flushes before every further entry (limit 2), or only Finish sends.
	// Default: the former for sources with an even number of stored versions, the latter for the
	// others; bl.batching=1: both for every source.
	small := len(src.ents)%2 == 0
	if vpParam("bl.batching", 0) == 1 {
		small = vpChoose("small-batches", 2) == 1
	}
	if small {
		dst.opt.maxBatchCount = 2
		vpCover("bl.small-batches")
	}
	dst.threshold = &vlogThreshold{}
	dst.threshold.valueThreshold.Store(1 << 10)
	// an empty database: nextTxnTs = 1 (bl.symnext=1: any value, a database that has seen commits)
	next0 := uint64(1)
	if vpParam("bl.symnext", 0) == 1 {
		next0 = vpU64("dst.nextTxnTs")
		vpAssume(vpAnd(next0 >= 1, next0 < 1<<63))
	}
	dst.orc = &oracle{nextTxnTs: next0, txnMark: &y.WaterMark{}, readMark: &y.WaterMark{}}
	var loaded []vpsLoaded
	batches := 0
	vpStub("(*badger.DB).batchSetAsync", func(d *DB, entries []*Entry, f func(error)) error {
		batches++
		for _, e := range entries {
			loaded = append(loaded, vpsLoaded{key: append([]byte{}, e.Key...), val: append([]byte{}, e.Value...), umeta: e.UserMeta, exp: e.ExpiresAt, meta: e.meta})
		}
		f(nil)
		return nil
	})
	var markDone []uint64
	vpStub("(*badger/y.WaterMark).Done", func(w *y.WaterMark, index uint64) { markDone = append(markDone, index) })

	// the backup's retention rule per entry (decided by VpHToList), as a reference
	retained := func(ents []vpsEnt, readTs, sinceTs, now uint64) []bool {
		out := make([]bool, len(ents))
		stopped := false
		cur := -1
		for i, e := range ents {
			if e.keyIdx != cur {
				cur, stopped = e.keyIdx, false
			}
			vis := vpAnd(e.ver <= readTs, vpOr(sinceTs == 0, e.ver > sinceTs))
			out[i] = vpAnd(vis, vpNot(stopped))
			stopped = vpOr(stopped, vpAnd(out[i], vpOr(vpsDead(e, now), e.meta&bitDiscardEarlierVersions > 0)))
		}
		return out
	}
	// what a read of key k at timestamp t (clock `at`) shows in the source, over versions <= lim
	type seen struct {
		found bool
		val   byte
		umeta byte
		exp   uint64
	}
	srcRead := func(ents []vpsEnt, k int, t, lim, at uint64) seen {
		var s seen
		hitAny := false
		for _, e := range ents {
			if e.keyIdx != k {
				continue
			}
			hit := vpAnd(vpNot(hitAny), vpAnd(e.ver <= t, e.ver <= lim))
			s.found = vpIteBool(hit, vpNot(vpsDead(e, at)), s.found)
			s.val = vpIteU8(hit, e.val, s.val)
			s.umeta = vpIteU8(hit, e.umeta, s.umeta)
			s.exp = vpIteU64(hit, e.exp, s.exp)
			hitAny = vpOr(hitAny, hit)
		}
		return s
	}
	// ... and in the destination: the largest version <= t; of two entries with the same internal
	// key the one loaded later wins (it replaces the earlier one in the memtable)
	dstRead := func(upto, k int, t, at uint64) seen {
		var s seen
		have := false
		best := uint64(0)
		for _, l := range loaded[:upto] {
			ver := y.ParseTs(l.key)
			take := vpAnd(vpAnd(bytes.Equal(y.ParseKey(l.key), ukeys[k]), ver <= t), vpOr(vpNot(have), ver >= best))
			dead := vpOr(l.meta&bitDelete > 0, vpAnd(l.exp != 0, l.exp <= at))
			s.found = vpIteBool(take, vpNot(dead), s.found)
			v := byte(0)
			if len(l.val) == 1 {
				v = l.val[0]
			}
			s.val = vpIteU8(take, v, s.val)
			s.umeta = vpIteU8(take, l.umeta, s.umeta)
			s.exp = vpIteU64(take, l.exp, s.exp)
			best = vpIteU64(take, ver, best)
			have = vpOr(have, take)
		}
		return s
	}
	sameSeen := func(a, b seen) bool {
		return vpAnd(a.found == b.found, vpImplies(a.found, vpAnd(a.val == b.val, vpAnd(a.umeta == b.umeta, a.exp == b.exp))))
	}
	// one Load: lists[l0:l1] went in, loaded[e0:e1] came out, nextTxnTs went from nb to na
	type loadRec struct {
		l0, l1, e0, e1 int
		nb, na         uint64
		mark           uint64
		marked         bool
	}
	checkLoad := func(r loadRec, tag string) {
		// every KV written by the backup reached the write path once, in order, as the same entry
		var kvs []*pb.KV
		for _, l := range lists[r.l0:r.l1] {
			kvs = append(kvs, l.Kv...)
		}
		vpAssert(r.e1-r.e0 == len(kvs), "C24:load.every-kv-written-once")
		if r.e1-r.e0 != len(kvs) {
			return
		}
		above := true
		for i, kv := range kvs {
			l := loaded[r.e0+i]
			um, mt := byte(0), byte(0)
			if len(kv.UserMeta) > 0 {
				um = kv.UserMeta[0]
			}
			if len(kv.Meta) > 0 {
				mt = kv.Meta[0]
			}
			c := vpAnd(bytes.Equal(l.key, y.KeyWithTs(kv.Key, kv.Version)), vpAnd(bytes.Equal(l.val, kv.Value), len(l.val) == len(kv.Value)))
			c = vpAnd(c, vpAnd(l.umeta == um, vpAnd(l.exp == kv.ExpiresAt, l.meta == mt)))
			vpAssert(c, "C24:load.entry-is-the-backup-kv")
			above = vpAnd(above, r.na > kv.Version)
		}
		vpAssert(above, "C11,C24:load.next-txn-ts-above-every-loaded-version")
		vpAssert(r.na >= r.nb, "C11:load.next-txn-ts-never-lowered")
		vpAssert(vpAnd(r.marked, r.mark == r.na-1), "C11:load.txn-mark-done-up-to-next-minus-one")
		if len(kvs) > 0 {
			vpCover("bl.loaded-" + tag)
		}
	}
	doLoad := func(w *bytes.Buffer, l0 int) loadRec {
		r := loadRec{l0: l0, l1: len(lists), e0: len(loaded), nb: dst.orc.nextTxnTs}
		nm := len(markDone)
		err := dst.Load(w, 4)
		vpAssert(err == nil, "C24:load.returns-normally")
		r.e1, r.na = len(loaded), dst.orc.nextTxnTs
		if len(markDone) == nm+1 {
			r.mark, r.marked = markDone[nm], true
		}
		return r
	}
	// All solver-decided assertions come after the last piece of real code has run (an assertion
	// that holds joins the path condition and would weigh on every later branch query).

	// ================= full backup + load =================
	var w1 bytes.Buffer
	m1, err := src.db.Backup(&w1, 0)
	vpAssert(err == nil, "C24:backup.returns-normally")
	load1 := doLoad(&w1, 0)
	if batches > 1 {
		vpCover("bl.several-batches")
	}
	ents1 := append([]vpsEnt{}, src.ents...)
	now1 := clock
	checkFull := func() {
		checkLoad(load1, "full")
		ret1 := retained(ents1, r1, 0, now1)
		// the returned version: the largest version in the snapshot (the newest version of every
		// key is always part of a full backup)
		expM1 := uint64(0)
		for i, e := range ents1 {
			expM1 = vpIteU64(vpAnd(ret1[i], e.ver > expM1), e.ver, expM1)
		}
		vpAssert(m1 == expM1, "C24:backup.returned-version-is-largest-in-snapshot")
		// reads of the loaded store at any timestamp t >= the oldest retained version of the key
		// show what the source's snapshot shows. Both reads are step functions of t whose steps
		// are at stored versions, so "every t" is decided at the representatives: every source
		// version, every loaded version (of any key) and r1. (A free 64-bit t made these queries
		// take minutes.) Later clocks add nothing: a visible entry is compared with its expiry.
		var reps []uint64
		for _, e := range ents1 {
			reps = append(reps, e.ver)
		}
		for _, l := range loaded[:load1.e1] {
			reps = append(reps, y.ParseTs(l.key))
		}
		reps = append(reps, r1)
		for k := 0; k < nk; k++ {
			has := false
			oldest := uint64(0)
			for i, e := range ents1 {
				if e.keyIdx == k {
					oldest = vpIteU64(ret1[i], e.ver, oldest) // versions descend: the last retained
					has = vpOr(has, ret1[i])
				}
			}
			agree := true
			for _, t := range reps {
				d := dstRead(load1.e1, k, t, now1)
				s := srcRead(ents1, k, t, r1, now1)
				agree = vpAnd(agree, vpImplies(vpAnd(has, t >= oldest), sameSeen(s, d)))
			}
			vpAssert(agree, "C24,C33:roundtrip.reads-at-or-above-oldest-retained-version-agree")
			// a key without a version in the snapshot does not appear at all
			anyK := false
			for _, l := range loaded[:load1.e1] {
				anyK = vpOr(anyK, bytes.Equal(y.ParseKey(l.key), ukeys[k]))
			}
			vpAssert(vpImplies(vpNot(has), vpNot(anyK)), "C24:roundtrip.nothing-invented")
		}
		vpObserveU64("m1", m1)
	}

	// ================= more commits, incremental backup, load =================
	maxNew := vpParam("bl.new", 1)
	nNew := vpChoose("nnew", maxNew+1)
	if nNew == 0 {
		checkFull()
		vpCover("bl.full-only")
		return
	}
	// new versions: commit timestamps above every read timestamp handed out before (C03)
	var ents2 []vpsEnt
	{
		newOf := make([][]vpsEnt, nk)
		for j := 0; j < nNew; j++ {
			k := 0
			if nk > 1 {
				k = vpChoose("newkeyidx", nk)
			}
			e := vpsVersions(ukeys[k], k, 1)[0]
			vpAssume(e.ver > r1)
			for _, o := range ents1 { // committed later than everything stored: newer
				if o.keyIdx == k {
					vpAssume(e.ver > o.ver)
					break
				}
			}
			if len(newOf[k]) > 0 {
				vpAssume(e.ver > newOf[k][0].ver)
			}
			newOf[k] = append([]vpsEnt{e}, newOf[k]...)
		}
		for k := 0; k < nk; k++ {
			ents2 = append(ents2, newOf[k]...)
			for _, e := range ents1 {
				if e.keyIdx == k {
					ents2 = append(ents2, e)
				}
			}
		}
	}
	src.ents = ents2
	r2 := vpU64("readTs2")
	vpAssume(r2 >= r1)
	now2 := vpU64("now2")
	vpAssume(vpAnd(now2 >= now1, now2 < 1<<40))
	clock = now2
	curReadTs = r2
	var w2 bytes.Buffer
	m2, err := src.db.Backup(&w2, m1)
	vpAssert(err == nil, "C24:backup.returns-normally")
	load2 := doLoad(&w2, load1.l1)

	// (the assertions about the full backup are made on the paths that stop after it: every
	// execution of the first phase has such a continuation)
	checkLoad(load2, "incremental")
	// the incremental backup holds exactly the retained versions above m1 (with their markers);
	// a version equal to m1 was part of the previous backup and may or may not come again
	ret2 := retained(ents2, r2, m1, now2)
	cnt := 0
	for i := range ents2 {
		cnt = vpIteInt(ret2[i], cnt+1, cnt)
		cnt = vpIteInt(vpAnd(ret2[i], ents2[i].meta&bitDiscardEarlierVersions > 0), cnt+1, cnt)
	}
	n2 := 0
	onlyAbove := true
	for _, l := range lists[load2.l0:load2.l1] {
		for _, kv := range l.Kv {
			isMarker := len(kv.UserMeta) == 0 // only the synthetic delete marker has no user meta
			again := vpAnd(!isMarker, kv.Version == m1)
			againMarker := vpAnd(isMarker, kv.Version+1 == m1)
			n2 = vpIteInt(vpOr(again, againMarker), n2, n2+1)
			onlyAbove = vpAnd(onlyAbove, vpOr(kv.Version >= m1, againMarker))
		}
	}
	vpAssert(onlyAbove, "C24:incremental.only-versions-at-or-above-since")
	vpAssert(n2 == cnt, "C24:incremental.holds-exactly-the-retained-versions-above-since")
	vpAssert(vpOr(m2 == 0, m2 > m1), "C24:incremental.returned-version-advances")
	// final visible state: a read at the second backup's snapshot
	for k := 0; k < nk; k++ {
		d := dstRead(load2.e1, k, r2, now2)
		s := srcRead(ents2, k, r2, r2, now2)
		vpAssert(sameSeen(s, d), "C24,C33:chain.final-visible-state-agrees")
	}
	vpObserveU64("m2", m2)
	vpCover("bl.incremental")
}

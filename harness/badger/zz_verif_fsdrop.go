package badger

import (
	"github.com/dgraph-io/badger/v4/table"
	"github.com/dgraph-io/badger/v4/y"
	"github.com/dgraph-io/ristretto/v2/z"
)

// H-FSORDER / drop (C29, crash clause and "keeps accepting writes"): the REAL DB.DropAll ->
// REAL dropAll -> REAL prepareToDrop (blockWrite, drain of writeCh, stopMemoryFlush) with the REAL
// doWrites goroutine (started before, stopped by blockWrite, restarted by unblockWrite) and the REAL
// flushMemtable goroutine (flushes the queued immutable memtable through the REAL
// handleMemTableFlush / table.CreateTable / addLevel0Table when the flush channel is closed) ->
// REAL stopCompactions -> REAL memTable.DecrRef -> Skiplist.DecrRef -> OnClose -> logFile.Delete
// (munmap, ftruncate(0), close, unlink of the .mem) -> REAL newMemTable -> REAL
// levelsController.dropTree -> REAL manifestFile.addChanges (write, fsync) -> REAL Table.DecrRef ->
// MmapFile.Delete (unlink .sst) -> REAL valueLog.dropAll -> deleteLogFile -> logFile.Delete,
// createVlogFile -> the REAL resume closures (startCompactions, startMemoryFlush, unblockWrite),
// then the REAL sendToWriteCh of a new write, over the abstract file system of zz_verif_fsorder.go
// with its fault schedule (at most `fs.faults` injected I/O errors) and crash checkpoints.
//
// Stubbed besides the file system and vpFSetup's stubs (buildL0Table, table.OpenTable, Builder.*,
// skiplist recorders): DB.writeRequests (records the requests it is given and acknowledges them -
// what it writes is H-FSORDER/write's subject), levelsController.startCompact (no compactor
// goroutines: stopCompactions waits for none), discardStats.Update, vlogThreshold with plain
// channels, z.Closer.SignalAndWait is wrapped (real call, plus the injection point for a writer
// that passed the blockWrites test before the flag was set and sends after doWrites has exited).
//
// Directory before the drop (written by the real creation code):
//   table 1 (level 0) holds a@5;  table 2 (level 1) holds b@4          (drop.tables=0: no tables)
//   active memtable (.mem 1) holds a@9 - the newest version of a
//   optionally an immutable memtable (.mem 2) holding b@7, queued on the flush channel
//   value log file 1 (header only; table 1's value is said to point into it)
// Recovery model at a checkpoint (crash model of C08: the process is killed, everything written
// survives): a key's visible version is the largest one among the .mem files that still hold their
// records and the tables that the MANIFEST bytes written so far list AND whose file is complete.
//
// Checked at every checkpoint of runs without injected error:
//   I1  every table the written MANIFEST lists has its complete file
//   K   every key shows its pre-drop version or nothing      <- expected to FAIL on the unchanged
//       tree, class C29-dropall-memtable-before-tables: dropAll removes the memtables' WALs (the
//       newest versions) BEFORE the MANIFEST forgets the tables, so a kill in between resurrects
//       the older version of a key from a table (vpAssertKnown with that key)
//   V   a value log file disappears only after every table / WAL that can point into it is gone
//   W   while anything is being removed writes are blocked
// At the end: blockWrites is cleared on EVERY exit path (errors included); after a successful drop
// there are no tables, no immutable memtables, a new empty memtable and a new value log file 1,
// nextFileID is 1, the oracle is untouched (C11) and a new write is accepted and applied.
//
// quick: fs.faults=1, drop.imm=1 (with and without immutable memtable), drop.tables=1
// thorough: fs.faults=2

const vpDKeyOrder = "C29-dropall-memtable-before-tables"

type vpDVer struct {
	key string
	ver uint64
}

type vpDEnv struct {
	e              *vpFEnv
	applied        []*request // requests handed to writeRequests, in order
	blockedAtApply []bool
	events         []string
	mems           map[string][]vpDVer // .mem path -> versions, and the length of the file when written
	memLen         map[string]int
	tabs           map[uint64][]vpDVer
	vlogPath       string
	racing         *request
	wcloser        *z.Closer
}

func (d *vpDEnv) memHolds(path string) bool {
	f := d.e.fs.lookup(path)
	return f != nil && f.exists && len(f.data) >= d.memLen[path]
}

// view: the version of key that recovery would show after a kill right now (0: none)
func (d *vpDEnv) view(key string) (ver uint64, fromTable bool) {
	for p, vs := range d.mems {
		if d.memHolds(p) {
			for _, v := range vs {
				if v.key == key && v.ver > ver {
					ver, fromTable = v.ver, false
				}
			}
		}
	}
	for id := uint64(1); id < vpFMaxID; id++ {
		if d.e.mm.written[id] && d.e.crashOK(id) {
			for _, v := range d.tabs[id] {
				if v.key == key && v.ver > ver {
					ver, fromTable = v.ver, true
				}
			}
		}
	}
	return
}

func vpDSetup(withImm, withTables bool) *vpDEnv {
	e := vpFSetup(vpParam("fs.faults", 1))
	fs, db, dir := e.fs, e.db, e.dir
	d := &vpDEnv{e: e, mems: map[string][]vpDVer{}, memLen: map[string]int{}, tabs: map[uint64][]vpDVer{}}
	db.opt.ValueLogFileSize = 128
	db.opt.ValueLogMaxEntries = 1000
	db.opt.NumMemtables = 5
	db.opt.maxBatchCount = 100
	db.threshold = &vlogThreshold{valueCh: make(chan []int64, 10), clearCh: make(chan bool, 1)}
	db.threshold.valueThreshold.Store(1 << 10)
	db.pub = &publisher{subscribers: map[uint64]subscriber{}}
	db.writeCh = make(chan *request, kvWriteChCapacity)
	db.flushChan = make(chan *memTable, db.opt.NumMemtables)
	db.orc = &oracle{}

	vpStub("(*badger.DB).writeRequests", func(db *DB, reqs []*request) error {
		for _, r := range reqs {
			d.applied = append(d.applied, r)
			d.blockedAtApply = append(d.blockedAtApply, db.blockWrites.Load() == 1)
			r.Err = nil
			r.Wg.Done()
		}
		if len(reqs) > 0 {
			d.events = append(d.events, "apply")
			fs.event("writeRequests")
		}
		return nil
	})
	vpStub("(*badger.levelsController).startCompact", func(s *levelsController, c *z.Closer) {})
	vpStub("(*badger.discardStats).Update", func(ds *discardStats, fid uint32, discard int64) int64 { return 0 })
	vpStub("(*badger.DB).stopMemoryFlush", func(db *DB) {
		d.events = append(d.events, "stop-flush")
		fs.event("stopMemoryFlush")
		db.stopMemoryFlush() // the real one
	})
	vpStub("(*github.com/dgraph-io/ristretto/v2/z.Closer).SignalAndWait", func(c *z.Closer) {
		c.SignalAndWait() // the real one
		if c == d.wcloser && d.racing != nil {
			// a writer that read blockWrites == 0 before blockWrite's CAS delivers its request now,
			// after doWrites has drained the channel and exited
			db.writeCh <- d.racing
			d.racing = nil
			fs.event("late request reaches writeCh")
		}
	})

	// tables of the earlier run
	var initial []uint64
	if withTables {
		t1 := e.oldTable(1, "a", "a")
		t2 := e.oldTable(2, "b", "b")
		initial = []uint64{1, 2}
		vpAssume(db.manifest.addChanges(vpFCreates(initial), db.opt) == nil)
		db.lc.levels[0].initTables([]*table.Table{t1})
		db.lc.levels[1].initTables([]*table.Table{t2})
		d.tabs[1] = []vpDVer{{"a", 5}}
		d.tabs[2] = []vpDVer{{"b", 4}}
	}
	db.lc.nextFileID.Store(3)
	e.rng = func(id uint64) ([]byte, []byte) { return y.KeyWithTs([]byte("b"), 7), y.KeyWithTs([]byte("b"), 7) }

	// memtables and value log, in the order Open creates them
	newMem := func(key string, ver uint64) *memTable {
		mt, err := db.newMemTable()
		vpAssume(err == nil)
		vpAssume(mt.Put(y.KeyWithTs([]byte(key), ver), y.ValueStruct{Value: []byte("v")}) == nil)
		d.mems[mt.wal.path] = []vpDVer{{key, ver}}
		d.memLen[mt.wal.path] = int(mt.wal.writeAt)
		return mt
	}
	if withImm {
		imm := newMem("b", 7)
		db.imm = []*memTable{imm}
		db.flushChan <- imm
		// the table its flush will produce (id 3) holds what the memtable holds
		d.tabs[3] = []vpDVer{{"b", 7}}
		d.tabs[4], d.tabs[5] = d.tabs[3], d.tabs[3] // ids of retried flushes after an injected error
	}
	db.mt = newMem("a", 9)
	vpAssume(syncDir(dir) == nil)
	vlog := &db.vlog
	vlog.opt, vlog.db, vlog.dirPath = db.opt, db, dir
	vlog.filesMap = map[uint32]*logFile{}
	lf, err := vlog.createVlogFile()
	vpAssume(err == nil)
	d.vlogPath = lf.path

	// goroutines of a running DB
	d.wcloser = z.NewCloser(1)
	db.closers.writes = d.wcloser
	go db.doWrites(db.closers.writes)
	db.closers.memtable = z.NewCloser(1)
	go db.flushMemtable(db.closers.memtable)
	db.closers.compactors = z.NewCloser(0)

	e.mm = vpFTrackManifest(fs, dir+"/"+ManifestFilename, e.codec, initial)
	return d
}

func vpDNewRequest(key string, ver uint64) *request {
	req := &request{Entries: []*Entry{{Key: y.KeyWithTs([]byte(key), ver), Value: []byte("w")}}}
	req.Wg.Add(1)
	req.IncrRef()
	return req
}

// vpDRun: common body of VpHDropOrder and of kernel 4 of VpHNextTs
func vpDRun(checkTs bool) {
	withImm := vpParam("drop.imm", 1) == 1 && vpChoose("immutable-memtable", 2) == 1
	withTables := vpParam("drop.tables", 1) == 0 || vpChoose("tables", 2) == 1
	d := vpDSetup(withImm, withTables)
	e := d.e
	fs, db, dir := e.fs, e.db, e.dir
	mm := e.mm
	if withImm {
		vpCover("drop.with-immutable-memtable")
	}
	if withTables {
		vpCover("drop.with-tables")
	} else {
		vpCover("drop.without-tables")
	}

	var next0 uint64
	orc0 := db.orc
	if checkTs {
		next0 = vpU64("nextTxnTs")
		db.orc.nextTxnTs = next0
	}

	// pending writes
	var pend []*request
	switch vpChoose("pending-write", 3) {
	case 1:
		// accepted before the drop began, still in the channel
		r := vpDNewRequest("c", 10)
		db.writeCh <- r
		pend = append(pend, r)
		vpCover("drop.pending-request-in-channel")
	case 2:
		r := vpDNewRequest("c", 10)
		d.racing = r
		pend = append(pend, r)
		vpCover("drop.request-racing-with-block")
	}

	preA, _ := d.view("a")
	preB, _ := d.view("b")
	vpAssert(preA == 9 && (preB == 7) == withImm && (withImm || (preB == 4) == withTables), "C29:drop.setup")
	oldMt := db.mt
	oldMems := []string{}
	for p := range d.mems {
		oldMems = append(oldMems, p)
	}

	removing := false
	fs.onRemove = func(name string) { removing = true }
	check := func(ev string) {
		if removing {
			removing = false
			fs.oblige("C29:drop.writes-blocked-while-files-are-removed", db.blockWrites.Load() == 1)
		}
		if fs.faults > 0 {
			return // C29's crash clause quantifies over crash points of runs without I/O errors
		}
		// I1
		i1 := true
		for id := uint64(1); id < vpFMaxID; id++ {
			if mm.written[id] && !e.crashOK(id) {
				i1 = false
			}
		}
		fs.oblige("C29,C08:drop.i1-manifest-tables-exist", i1)
		// K
		ok, known := true, true
		for _, k := range []struct {
			key string
			pre uint64
		}{{"a", preA}, {"b", preB}} {
			v, fromTable := d.view(k.key)
			if v != k.pre && v != 0 {
				ok = false
				vpCover("drop.stale-version-after-crash")
				// inside the known class: an OLDER version, served by a table the MANIFEST still lists,
				// because the memtable WAL holding the newer one is already gone
				if !(fromTable && v < k.pre) {
					known = false
				}
			}
		}
		fs.obligeKnown("C29:drop.crash-leaves-each-key-old-or-absent", ok, !ok && known, vpDKeyOrder)
		// V
		vf := fs.lookup(d.vlogPath)
		if vf == nil || !vf.exists || len(vf.data) < vlogHeaderSize {
			refs := false
			for id := uint64(1); id < vpFMaxID; id++ {
				refs = refs || mm.written[id]
			}
			for _, p := range oldMems {
				refs = refs || d.memHolds(p)
			}
			vpCover("drop.vlog-removed")
			fs.oblige("C29:drop.vlog-removed-after-tables-and-memtables", !refs)
		}
	}

	if !checkTs {
		fs.check = check // kernel 4 of VpHNextTs states C11 only: no crash checkpoints there
	}
	fs.arm()
	err := db.DropAll()
	if checkTs {
		// C11: a drop does not touch the oracle - commits after it are still above every version
		// that was ever stored (the C29 obligations are VpHDropOrder's)
		vpAssert(db.orc == orc0 && db.orc.nextTxnTs == next0, "C11:dropall.oracle-and-next-txn-ts-untouched")
		vpAssert(db.orc.nextTxnTs >= next0, "C11:dropall.next-txn-ts-never-lowered")
		vpCover("ts.dropall")
		if err == nil {
			vpCover("ts.dropall.succeeded")
		}
		return
	}
	vpFDischarge(fs)

	// ---- every exit path ----
	vpAssert(db.blockWrites.Load() == 0, "C29:drop.writes-unblocked-on-every-exit-path")
	vpAssert(fs.bad == "" && mm.bad == "", "C29:drop.file-handle-discipline")
	// pending requests: applied exactly once, while writes were blocked, before flushing stopped
	for _, r := range pend {
		n, at := 0, -1
		for i, a := range d.applied {
			if a == r {
				n++
				at = i
			}
		}
		vpAssert(n == 1, "C29:drop.pending-request-applied-exactly-once")
		if n == 1 {
			vpAssert(d.blockedAtApply[at], "C29:drop.pending-request-applied-under-the-write-block")
		}
	}
	if len(pend) > 0 {
		ia, is := -1, -1
		for i, ev := range d.events {
			if ev == "apply" && ia < 0 {
				ia = i
			}
			if ev == "stop-flush" && is < 0 {
				is = i
			}
		}
		vpAssert(ia >= 0 && is > ia, "C29:drop.pending-requests-applied-before-flushing-stops")
	}
	if err != nil {
		vpCover("drop.failed")
		vpAssert(fs.faults > 0, "C29:drop.fails-only-after-an-io-error")
		if db.mt == nil {
			// observation (no property speaks about I/O errors during a drop): a drop that failed in
			// newMemTable leaves db.mt == nil with writes unblocked
			vpCover("drop.failed-drop-leaves-no-memtable")
		}
		return
	}
	if fs.faults > 0 {
		vpCover("drop.succeeded-despite-io-error")
		return
	}
	vpCover("drop.done")

	// ---- after a successful drop ----
	empty := len(db.imm) == 0
	for _, l := range db.lc.levels {
		empty = empty && len(l.tables) == 0
	}
	for id := uint64(1); id < vpFMaxID; id++ {
		f := fs.lookup(vpFSst(dir, id))
		empty = empty && !mm.written[id] && (f == nil || !f.exists)
	}
	vpAssert(empty, "C29:drop.no-table-left-in-levels-manifest-or-directory")
	for _, p := range oldMems {
		f := fs.lookup(p)
		vpAssert(f == nil || !f.exists, "C29:drop.old-memtable-wal-removed")
	}
	va, _ := d.view("a")
	vb, _ := d.view("b")
	vpAssert(va == 0 && vb == 0, "C29:drop.database-empty-after-dropall")
	// fresh memtable and value log
	mtOK := db.mt != nil && db.mt != oldMt && db.mt.wal != nil && db.mt.maxVersion == 0
	if mtOK {
		wf := fs.lookup(db.mt.wal.path)
		mtOK = wf != nil && wf.exists && wf.isNew && int(db.mt.wal.writeAt) == vlogHeaderSize
	}
	vpAssert(mtOK, "C29:drop.fresh-memtable")
	vl := &db.vlog
	vlOK := len(vl.filesMap) == 1 && vl.maxFid == 1 && vl.filesMap[1] != nil && int(vl.woffset()) == vlogHeaderSize
	if vlOK {
		vf := fs.lookup(vl.filesMap[1].path)
		vlOK = vf != nil && vf.exists && vf.isNew
	}
	vpAssert(vlOK, "C29:drop.fresh-value-log")
	vpAssert(db.lc.nextFileID.Load() == 1, "C29:drop.table-ids-restart")

	// the database accepts writes again: the real sendToWriteCh, the restarted real doWrites
	nApplied := len(d.applied)
	req, werr := db.sendToWriteCh([]*Entry{{Key: y.KeyWithTs([]byte("n"), 11), Value: []byte("x")}})
	vpAssert(werr == nil && req != nil, "C29:drop.accepts-writes-afterwards")
	if werr == nil && req != nil {
		werr = req.Wait()
		vpAssert(werr == nil && len(d.applied) == nApplied+1, "C29:drop.write-after-drop-is-applied")
		vpCover("drop.write-after-drop")
	}
}

func VpHDropOrder() { vpDRun(false) }

// kernel 4 of VpHNextTs (zz_verif_ts.go)
func vpTDropAll() { vpDRun(true) }

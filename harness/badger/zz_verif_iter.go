package badger

import (
	"bytes"
	"time"

	"github.com/dgraph-io/badger/v4/y"
)

// vpListIter is a y.Iterator over a sorted list of internal keys (ascending by
// y.CompareKeys); reversed iterates the same list backwards, as the real iterators do.
type vpListIter struct {
	keys     [][]byte
	vals     []y.ValueStruct
	pos      int
	reversed bool
}

func (l *vpListIter) Next() {
	if l.reversed {
		l.pos--
	} else {
		l.pos++
	}
}
func (l *vpListIter) Rewind() {
	if l.reversed {
		l.pos = len(l.keys) - 1
	} else {
		l.pos = 0
	}
}
func (l *vpListIter) Seek(key []byte) {
	if !l.reversed {
		l.pos = len(l.keys)
		for i := range l.keys {
			if y.CompareKeys(l.keys[i], key) >= 0 {
				l.pos = i
				break
			}
		}
		return
	}
	l.pos = -1
	for i := len(l.keys) - 1; i >= 0; i-- {
		if y.CompareKeys(l.keys[i], key) <= 0 {
			l.pos = i
			break
		}
	}
}
func (l *vpListIter) Key() []byte          { return l.keys[l.pos] }
func (l *vpListIter) Value() y.ValueStruct { return l.vals[l.pos] }
func (l *vpListIter) Valid() bool          { return l.pos >= 0 && l.pos < len(l.keys) }
func (l *vpListIter) Close() error         { return nil }

type vpEnt struct {
	ukey   []byte
	ver    uint64
	meta   byte
	umeta  byte
	exp    uint64
	keyIdx int
	val    byte
}

// vpMakeEntries builds a sorted multi-version entry list: nk user keys (lengths 1..2,
// strictly increasing), 1..maxVer versions each (strictly decreasing, >= 1).
func vpMakeEntries(nk, maxVer int) []vpEnt {
	var ents []vpEnt
	var prev []byte
	// ents.total > 0 bounds the number of entries over all keys (e.g. 2 keys x 3 versions but at
	// most 4 entries), so that deep version chains and several keys fit into one tier
	maxTotal := vpParam("ents.total", 0)
	for k := 0; k < nk; k++ {
		kl := 1 + vpChoose("keylen", vpParam("ents.klen", 2))
		uk := vpBytes("ukey", kl)
		if prev != nil {
			vpAssume(bytes.Compare(prev, uk) < 0)
		}
		prev = uk
		room := maxVer
		if maxTotal > 0 {
			// leave one entry for every key still to come
			if r := maxTotal - len(ents) - (nk - 1 - k); r < room {
				room = r
			}
		}
		nv := 1 + vpChoose("nversions", room)
		var pv uint64
		for v := 0; v < nv; v++ {
			e := vpEnt{ukey: uk, ver: vpU64("ver"), meta: vpU8("meta"), umeta: vpU8("umeta"), exp: vpU64("exp"), keyIdx: k, val: vpU8("val")}
			// versions are timestamps: >= 1 and < 2^63. (Above 2^63 the big-endian encoding of
			// MaxUint64-version can spell "badger!" so that a user key "!" looks like an internal
			// "!badger!" key; found by the solver, recorded in DESIGN.md as an observation.)
			vpAssume(vpAnd(e.ver >= 1, e.ver < 1<<63))
			if v > 0 {
				vpAssume(e.ver < pv)
			}
			pv = e.ver
			ents = append(ents, e)
		}
	}
	return ents
}

func vpListIterOf(ents []vpEnt, reversed bool) *vpListIter {
	li := &vpListIter{reversed: reversed}
	for _, e := range ents {
		li.keys = append(li.keys, y.KeyWithTs(e.ukey, e.ver))
		li.vals = append(li.vals, y.ValueStruct{Meta: e.meta, UserMeta: e.umeta, ExpiresAt: e.exp, Value: []byte{e.val}, Version: e.ver})
	}
	return li
}

func vpHasPrefix(k, p []byte) bool { return bytes.HasPrefix(k, p) }

// H-ITER: the real badger.Iterator (Seek/Rewind/Next/prefetch/parseItem/fill/Valid/Item)
// over an arbitrary sorted multi-version entry list, at an arbitrary read timestamp, clock,
// SinceTs, prefix, direction and AllVersions setting.
func VpHIter() {
	vpConfig("defer-asserts", 1)
	nk := 1 + vpChoose("nkeys", vpParam("iter.keys", 2))
	ents := vpMakeEntries(nk, vpParam("iter.versions", 2))
	reverse := vpChoose("reverse", 2) == 1
	allVersions := vpChoose("allversions", 2) == 1
	readTs := vpU64("readTs")
	now := vpU64("now")
	vpAssume(now < 1<<40)
	vpStub("time.Now", func() time.Time { return time.Unix(int64(now), 0) })
	// iter.opts=0: no SinceTs / Prefix / Seek / second prefetch size (the multi-key variant of the
	// quick tier spends its budget on keys x versions instead)
	opts := vpParam("iter.opts", 1) == 1
	sinceTs := uint64(0)
	if opts && vpChoose("since", 2) == 1 {
		sinceTs = vpU64("sinceTs")
		vpAssume(sinceTs > 0)
	}
	var prefix []byte
	if opts && vpChoose("prefix", 2) == 1 {
		prefix = vpBytes("prefix", 1)
	}
	// iter.keyiter=1: optionally a key iterator as Txn.NewKeyIterator sets it up (Prefix = one of
	// the user keys, prefixIsKey, AllVersions): only the versions of that key, in both directions
	keyIter := vpParam("iter.keyiter", 0) == 1 && vpChoose("keyiter", 2) == 1
	if keyIter {
		allVersions = true
		want := vpChoose("keyiter.key", nk)
		for _, e := range ents {
			if e.keyIdx == want {
				prefix = append([]byte(nil), e.ukey...)
			}
		}
		vpCover("iter.keyiterator")
	}
	seekMode := opts && vpChoose("seek", 2) == 1
	var seekKey []byte
	if seekMode {
		seekKey = vpBytes("seekKey", 1+vpChoose("seeklen", vpParam("iter.seeklen", 1)))
		// Precondition (documented use of Seek on a prefix iterator): the seek key lies inside
		// the iterator's Prefix. Outside it the real iterator stops at the first key that does
		// not carry the prefix, which C05 does not speak about.
		if len(prefix) > 0 {
			vpAssume(vpHasPrefix(seekKey, prefix))
		}
	}

	db := &DB{}
	db.opt.NamespaceOffset = -1
	txn := &Txn{readTs: readTs, db: db, update: true}
	it := &Iterator{
		txn:    txn,
		iitr:   vpListIterOf(ents, reverse),
		readTs: readTs,
		opt:    IteratorOptions{prefixIsKey: keyIter, Reverse: reverse, AllVersions: allVersions, SinceTs: sinceTs, Prefix: prefix, PrefetchSize: 1 + vpChoose("prefetch", 1+vpParam("iter.opts", 1))},
	}

	// ---- reference: which entries are yielded ----
	n := len(ents)
	inRange := make([]bool, n)
	yielded := make([]bool, n)
	start := prefix
	if seekMode {
		start = seekKey
	}
	for i, e := range ents {
		inRange[i] = vpAnd(e.ver <= readTs, vpOr(sinceTs == 0, e.ver > sinceTs))
		dead := vpOr(e.meta&bitDelete > 0, vpAnd(e.exp != 0, e.exp <= now))
		var pick bool
		if allVersions {
			pick = inRange[i]
		} else {
			// the newest in-range version of the key decides; it is shown unless dead
			newest := inRange[i]
			for j := 0; j < i; j++ {
				if ents[j].keyIdx == e.keyIdx {
					newest = vpAnd(newest, vpNot(inRange[j]))
				}
			}
			pick = vpAnd(newest, vpNot(dead))
		}
		// prefix option and the seek bound
		if keyIter {
			pick = vpAnd(pick, bytes.Equal(e.ukey, prefix)) // only the versions of the iterator's key
		} else {
			pick = vpAnd(pick, vpHasPrefix(e.ukey, prefix))
		}
		if len(start) > 0 {
			if reverse {
				pick = vpAnd(pick, bytes.Compare(e.ukey, start) <= 0)
			} else {
				pick = vpAnd(pick, bytes.Compare(e.ukey, start) >= 0)
			}
		}
		yielded[i] = pick
	}
	// forward: a key that does not carry the prefix ends the iteration (keys are sorted, so
	// prefixed keys are contiguous from the seek position); nothing more to model.
	// rank of entry i among yielded ones in iteration order
	rank := make([]int, n)
	total := 0
	order := make([]int, 0, n)
	if !reverse {
		for i := 0; i < n; i++ {
			order = append(order, i)
		}
	} else {
		for i := n - 1; i >= 0; i-- {
			order = append(order, i)
		}
	}
	for _, i := range order {
		rank[i] = total
		total = vpIteInt(yielded[i], total+1, total)
	}

	// ---- run the real iterator ----
	if seekMode {
		it.Seek(seekKey)
	} else {
		it.Rewind()
	}
	got := 0
	for ; it.Valid() && got <= n; it.Next() {
		item := it.Item()
		match := false
		for i, e := range ents {
			same := vpAnd(vpAnd(bytes.Equal(item.key, e.ukey), item.version == e.ver),
				vpAnd(vpAnd(item.meta == e.meta, item.userMeta == e.umeta), vpAnd(item.expiresAt == e.exp, vpAnd(len(item.vptr) == 1, item.vptr[0] == e.val))))
			match = vpOr(match, vpAnd(vpAnd(yielded[i], rank[i] == got), same))
		}
		vpAssert(match, "C05,C01,C33,C36:iter.item-is-next-visible")
		if got == 0 {
			vpObserveBytes("first.key", item.key)
			vpObserveU64("first.version", item.version)
		}
		got++
		vpCover("iter.yield")
	}
	vpAssert(got == total, "C05,C01,C33,C36:iter.count")
	vpObserveU64("count", uint64(got))
	if reverse {
		vpCover("iter.reverse")
	}
	if allVersions {
		vpCover("iter.allversions")
	}
	// read tracking: every yielded item and a non-empty seek key were recorded
	want := got
	if seekMode {
		want++
	}
	vpAssert(len(txn.reads) == want, "C02:iter.reads-recorded")
}

package badger

import (
	"bytes"
)

// H-TXNSIZE: size accounting of Txn.modify/checkSize against DB.sendToWriteCh through the
// real commitAndSend. Key/value lengths are small and concrete (the engine has no
// symbolic-length slices); the batch limits, the value threshold and hence every boundary
// between them are symbolic, so each accepted/rejected boundary is reached.
func VpHTxnSize() {
	vpConfig("defer-asserts", 1)
	db := &DB{}
	M := vpInt("maxBatchSize")
	C := vpInt("maxBatchCount")
	T := vpInt("valueThreshold")
	vpAssume(vpAnd(vpAnd(M >= 0, M < 1<<40), vpAnd(C >= 0, C < 1<<40)))
	vpAssume(vpAnd(T >= 1, T <= 1<<20)) // Options.ValueThreshold defaults to 1 MiB; 0 is not a legal threshold here
	db.opt.maxBatchSize = int64(M)
	db.opt.maxBatchCount = int64(C)
	db.opt.ValueLogFileSize = 1 << 30
	db.opt.NamespaceOffset = -1
	db.opt.DetectConflicts = true
	db.opt.managedTxns = true
	db.threshold = &vlogThreshold{}
	db.threshold.valueThreshold.Store(int64(T))
	db.orc = &oracle{isManaged: true, detectConflicts: true}
	db.writeCh = make(chan *request, 4)

	txn := db.newTransaction(true, true)
	n := 1 + vpChoose("entries", vpParam("txnsize.entries", 2))
	// Keys come from a small alphabet so that a later write can REPLACE an earlier pending one
	// (the size accounting of a replaced entry is part of the claim); value lengths lie on both
	// sides of small thresholds, 100 bytes is far above the 12-byte value pointer that is
	// charged for a value at or above the threshold.
	vlens := []int{0, 7, 14, 100}
	distinct := map[byte]bool{}
	for i := 0; i < n; i++ {
		kc := byte('a' + vpChoose("key", i+1))
		kl := 1 + int(kc-'a')%2 // key length is a function of the key: a=1, b=2, c=1
		vl := vlens[vpChoose("vlen", len(vlens))]
		key := append([]byte{kc}, make([]byte, kl-1)...)
		val := make([]byte, vl)
		if distinct[kc] {
			vpCover("txnsize.overwrite")
		}
		distinct[kc] = true
		err := txn.SetEntry(NewEntry(key, val))
		if err != nil {
			vpCover("txnsize.modify-rejected")
			vpAssert(err == ErrTxnTooBig, "C28:txnsize.only-toobig-for-valid-entries")
			return // the caller commits what was accepted so far and starts a new txn
		}
	}
	vpCover("txnsize.all-accepted")
	// commit timestamps of 1, 2, 3 and 20 decimal digits (the end marker stores the decimal ts)
	cts := []uint64{7, 42, 123, 18446744073709551615}[vpChoose("commitTsDigits", 4)]
	txn.commitTs = cts
	_, err := txn.commitAndSend()
	if err != nil {
		vpCover("txnsize.commit-error")
	}
	vpAssertKnown(err != ErrTxnTooBig, "C28:txnsize.accepted-writes-fit-at-commit", true, "C28-fin-marker-underestimated")
	if err == nil {
		req := <-db.writeCh
		vpAssert(len(req.Entries) == len(distinct)+1, "C03,C28:txnsize.request-has-all-entries-and-marker")
		last := req.Entries[len(distinct)]
		vpAssert(last.meta&bitFinTxn > 0 && bytes.HasPrefix(last.Key, txnKey), "C03:txnsize.marker-last")
	}
}

// H-VALIDATE: the validation table of Txn.modify, and that a rejected write leaves the
// transaction untouched.
func VpHValidate() {
	db := &DB{}
	db.opt.maxBatchSize = 1 << 30
	db.opt.maxBatchCount = 1 << 20
	vpPanicID("C28:validate.no-panic")
	// Open() enforces ValueLogFileSize >= 1 MiB; the harness uses a smaller floor (1 KiB) so that
	// "value larger than the value-log file" is reachable with short concrete values.
	vlfs := vpInt("valueLogFileSize")
	vpAssume(vpAnd(vlfs >= 1024, vlfs < 2000))
	db.opt.ValueLogFileSize = int64(vlfs)
	db.opt.DetectConflicts = true
	db.opt.managedTxns = true
	db.threshold = &vlogThreshold{}
	T := vpInt("valueThreshold")
	vpAssume(vpAnd(T >= 1, T <= 1<<20))
	db.threshold.valueThreshold.Store(int64(T))
	inMem := vpChoose("inMemory", 2) == 1
	db.opt.InMemory = inMem
	nsOff := -1
	banned := uint64(0)
	if vpChoose("namespaces", 2) == 1 {
		nsOff = vpChoose("nsOffset", 2)
		banned = vpU64("bannedNs")
		db.bannedNamespaces = &lockedKeys{keys: map[uint64]struct{}{banned: {}}}
	}
	db.opt.NamespaceOffset = nsOff

	txn := db.newTransaction(true, true)
	// one accepted write first, so that "unchanged" is not trivially about an empty txn
	vpAssume(txn.SetEntry(NewEntry([]byte("zz"), nil)) == nil || true)
	size0, count0, pend0 := txn.size, txn.count, len(txn.pendingWrites)

	var key []byte
	switch vpChoose("keyClass", 5) {
	case 0:
		key = nil
	case 1:
		key = append([]byte("!badger!"), vpBytes("suffix", vpChoose("suffixLen", 2))...)
	case 2:
		key = make([]byte, 65001)
	case 3:
		key = vpBytes("key", 1+vpChoose("klen", 2))
	case 4:
		key = vpBytes("nskey", 10) // long enough to carry an 8-byte namespace at offset 0/1
	}
	vl := []int{0, 2, 1500}[vpChoose("vlen", 3)]
	val := make([]byte, vl)
	if vl == 2 {
		val = vpBytes("val", 2)
	}
	err := txn.SetEntry(NewEntry(key, val))

	reserved := bytes.HasPrefix(key, badgerPrefix)
	tooLong := len(key) > 65000
	valTooBig := vpOr(int64(vl) > int64(vlfs), vpAnd(inMem, int64(vl) > int64(T)))
	isBanned := false
	if nsOff >= 0 && len(key) > nsOff+8 {
		ns := uint64(0)
		for i := 0; i < 8; i++ {
			ns = ns<<8 | uint64(key[nsOff+i])
		}
		isBanned = ns == banned
	}
	shouldReject := vpOr(vpOr(len(key) == 0, reserved), vpOr(vpOr(tooLong, valTooBig), isBanned))
	vpAssert((err != nil) == shouldReject, "C28,C37:validate.rejected-iff-invalid")
	if err != nil {
		vpCover("validate.rejected")
		vpAssert(txn.size == size0 && txn.count == count0 && len(txn.pendingWrites) == pend0, "C28:validate.rejected-write-leaves-txn-untouched")
		if len(key) == 0 {
			vpAssert(err == ErrEmptyKey, "C28:validate.empty-key-error")
		}
	} else {
		vpCover("validate.accepted")
		e := txn.pendingWrites[string(key)]
		vpAssert(e != nil && bytes.Equal(e.Value, val), "C28,C04:validate.accepted-write-is-pending")
	}
}

package trie

import (
	"github.com/dgraph-io/badger/v4/pb"
)

// H-TRIE: the subscription index. Real: Trie.AddMatch / fix / parseIgnoreBytes (on the
// concrete ignore strings below), Trie.Get / get, Trie.DeleteMatch / removeEmpty, numNodes.
// No stubs, no uninterpreted functions: models are replayed natively.
//
// Reading of the match semantics used by the reference (the one the code implements; C32 only
// says "prefix with ignored byte positions"):
//   - a pattern (prefix, ignore) matches a key iff len(key) >= len(prefix) and
//     key[p] == prefix[p] for every p < len(prefix) that is not ignored. An ignored position
//     still has to EXIST in the key (a key shorter than the prefix never matches, even if all
//     its missing positions are ignored). Ignore positions >= len(prefix) have no effect.
//   - registrations are a SET of (pattern class, id): two patterns are the same class when
//     they have the same length, the same ignored positions below that length and equal bytes
//     at the other positions (they end at the same trie node). Adding the same (class, id)
//     twice and deleting it once removes it (fix(del) filters every copy of the id at the
//     node). The publisher deletes all patterns of a subscriber id together, so C32 does not
//     depend on the multiset reading.
//   - Get returns a set (map), so an id matched through several patterns appears once.

// vpIgnoreStrings are the concrete IgnoreBytes strings; vpIgnoreMasks is the reference
// reading of each (bit p set = position p ignored), written independently of the parser.
var vpIgnoreStrings = []string{"", "0", "1", "0-1", "1-2", "0,2"}
var vpIgnoreMasks = []uint{0, 1, 2, 3, 6, 5}

type vpMatch struct {
	m    pb.Match
	plen int
	mask uint
	id   uint64
	live bool // reference: still registered (branch-free; false after a delete that removes it)
}

func vpIgnored(mask uint, p int) bool { return mask&(1<<uint(p)) != 0 }

// vpSameNode: patterns a and b end at the same trie node.
func vpSameNode(a, b *vpMatch) bool {
	if a.plen != b.plen {
		return false
	}
	same := true
	for p := 0; p < a.plen; p++ {
		ia, ib := vpIgnored(a.mask, p), vpIgnored(b.mask, p)
		if ia != ib {
			return false
		}
		if !ia {
			same = vpAnd(same, a.m.Prefix[p] == b.m.Prefix[p])
		}
	}
	return same
}

// vpMatches: reference predicate "pattern a matches key[:l]".
func vpMatches(a *vpMatch, key []byte, l int) bool {
	if l < a.plen {
		return false
	}
	ok := true
	for p := 0; p < a.plen; p++ {
		if !vpIgnored(a.mask, p) {
			ok = vpAnd(ok, key[p] == a.m.Prefix[p])
		}
	}
	return ok
}

func VpHTrie() {
	maxMatches := vpParam("trie.matches", 2)
	maxPlen := vpParam("trie.plen", 2)
	maxKey := vpParam("trie.keylen", 3)
	canon := vpParam("trie.canon", 0)   // 1: one ignore string per (prefix length, ignored positions below it)

	nm := vpChoose("nmatches", maxMatches+1)
	ms := make([]*vpMatch, nm)
	for i := range ms {
		plen := vpChoose("plen", maxPlen+1)
		ig := vpChoose("ignore", len(vpIgnoreStrings))
		if canon == 1 {
			// fix() reads ignore[p] only for p < len(prefix): strings that agree below the prefix
			// length are interchangeable (exhaustively enumerated at the quick bounds); keep the
			// last such string of the list (the one with the longest parsed ignore slice)
			below := vpIgnoreMasks[ig] & (1<<uint(plen) - 1)
			for k := ig + 1; k < len(vpIgnoreStrings); k++ {
				vpAssume(vpIgnoreMasks[k]&(1<<uint(plen)-1) != below)
			}
		}
		ms[i] = &vpMatch{
			m:    pb.Match{Prefix: vpBytes("prefix", plen), IgnoreBytes: vpIgnoreStrings[ig]},
			plen: plen,
			mask: vpIgnoreMasks[ig],
			id:   vpU64("id"),
			live: true,
		}
	}
	// which ids are equal: decided here once (class representative = first match with that id)
	cls := make([]int, nm)
	for i := range ms {
		cls[i] = i
		for j := 0; j < i; j++ {
			if ms[i].id == ms[j].id {
				cls[i] = cls[j]
				vpCover("trie.same-id-twice")
				break
			}
		}
	}
	key := vpBytes("key", maxKey)

	// the parser, on its own: parseIgnoreBytes(s)[p] <=> p in the reference mask
	for i, s := range vpIgnoreStrings {
		out, err := parseIgnoreBytes(s)
		ok := err == nil
		for p := 0; p < 4; p++ {
			got := p < len(out) && out[p]
			ok = ok && got == vpIgnored(vpIgnoreMasks[i], p)
		}
		vpAssert(ok, "C32:trie.parse-ignore-bytes")
	}

	t := NewTrie()
	for _, a := range ms {
		err := t.AddMatch(a.m, a.id)
		vpAssert(err == nil, "C32:trie.addmatch-accepted")
	}

	// check compares Get(key[:l]) for every l with the reference over the live patterns.
	check := func(id string, observe bool) {
		for l := 0; l <= maxKey; l++ {
			got := t.Get(key[:l])
			ok := true
			want := 0
			for r := range ms {
				if cls[r] != r {
					continue
				}
				ref := false
				for j, b := range ms {
					if cls[j] == r {
						ref = vpOr(ref, vpAnd(b.live, vpMatches(b, key, l)))
					}
				}
				_, in := got[ms[r].id]
				ok = vpAnd(ok, in == ref)
				want = vpIteInt(ref, want+1, want)
				if in {
					vpCover("trie.hit")
					if vpMaskBelow(ms[r]) != 0 {
						vpCover("trie.hit-class-with-ignored-position")
					}
				}
			}
			// exactly the reference set: members agree and there is nothing else in the map
			vpAssert(vpAnd(ok, len(got) == want), id)
			if observe && l == maxKey {
				vpObserveU64("get.n", uint64(len(got)))
			}
		}
	}
	check("C32:trie.get-equals-reference", true)
	vpObserveU64("nodes", uint64(numNodes(t.root)))

	if nm == 0 {
		vpAssert(t.root.isEmpty() && numNodes(t.root) == 1, "C32:trie.delete-all-leaves-empty-trie")
		return
	}

	// Delete one match (any), then the rest in index order; after every delete the answers of
	// the remaining registrations are unchanged (nodes are shared between patterns).
	first := vpChoose("delete", nm)
	order := []int{first}
	for i := range ms {
		if i != first {
			order = append(order, i)
		}
	}
	for n, d := range order {
		dm := ms[d]
		err := t.DeleteMatch(dm.m, dm.id)
		vpAssert(err == nil, "C32:trie.deletematch-accepted")
		for j, b := range ms {
			if j == d {
				b.live = false
			} else if cls[j] == cls[d] {
				// same id registered under the same pattern class goes with it (set reading)
				b.live = vpAnd(b.live, vpNot(vpSameNode(b, dm)))
			}
		}
		if n == 0 {
			vpCover("trie.delete-one")
			if nm > 1 {
				vpCover("trie.delete-one-of-several")
			}
		}
		if n < len(order)-1 {
			check("C32:trie.delete-keeps-other-registrations", false)
		}
	}
	check("C32:trie.delete-all-leaves-empty-trie", false)
	vpAssert(t.root.isEmpty() && numNodes(t.root) == 1, "C32:trie.delete-all-leaves-empty-trie")
	// deleting a registration that is no longer there changes nothing
	err := t.DeleteMatch(ms[first].m, ms[first].id)
	vpAssert(err == nil && t.root.isEmpty() && numNodes(t.root) == 1 && len(t.Get(key)) == 0, "C32:trie.delete-all-leaves-empty-trie")
	vpObserveU64("nodes.end", uint64(numNodes(t.root)))
}

// vpMaskBelow: ignored positions that lie inside the prefix.
func vpMaskBelow(a *vpMatch) uint { return a.mask & (1<<uint(a.plen) - 1) }

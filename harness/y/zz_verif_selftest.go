package y

import (
	"bytes"
	"encoding/binary"
	"sort"
)

// VpHSelfTest: the engine's own regression suite (DESIGN §2.9). Every assertion whose id starts
// with "must-hold:" has to come back unsat (holds) on every path, every assertion whose id starts
// with "must-fail:" has to come back sat (a counterexample exists) — the "twin with
// assert(false)" that shows the engine can find violations at all: wrap-around, shifts, signed
// division, slices aliasing, closures, defers, interfaces, maps, strings, byte comparisons.
// tools/selftest.py compares the outcome with these expectations at setup.

type vpShape interface{ area() uint64 }
type vpSq struct{ s uint64 }
type vpRect struct{ a, b uint64 }

func (q vpSq) area() uint64   { return q.s * q.s }
func (r vpRect) area() uint64 { return r.a * r.b }

func VpHSelfTest() {
	x := vpU64("x")
	y := vpU64("y")
	b := vpU8("b")
	k1 := vpBytes("k1", 2)
	k2 := vpBytes("k2", 2)
	// each group runs on its own path: a failed must-fail assertion constrains the rest of its
	// path (execution continues under the asserted condition), so groups must not share one
	switch vpChoose("group", 12) {
	case 0:
		vpAssert(x == x && y == y, "must-hold:trivial")
	case 1:
		// wrap-around: unsigned addition is modular
		vpAssert(x+1 > x, "must-fail:u64.add-no-overflow")
		vpAssert(vpImplies(x < 1<<63, x+1 > x), "must-hold:u64.add-bounded")
		vpAssert(uint8(b+1) != b, "must-hold:u8.add-differs")
		vpAssert(b+200 >= b, "must-fail:u8.wrap")
	case 2:
		// shifts: count >= width gives 0 (unsigned), sign (signed)
		s := vpU8("shift")
		vpAssert(vpImplies(s >= 64, x<<s == 0), "must-hold:shl.large-count-zero")
		vpAssert(vpImplies(s >= 64, int64(x)>>s == 0), "must-fail:sar.large-count-sign")
		vpAssert(x>>1 <= x, "must-hold:shr.decreases")
	case 3:
		// signed division/remainder truncate toward zero
		i := int64(vpU64("i"))
		vpAssume(i != -1<<63)
		vpAssert(vpImplies(i < 0, i/2 <= 0), "must-hold:sdiv.sign")
		vpAssert(i%2 >= 0, "must-fail:srem.nonneg")
		i16 := int16(i)
		vpAssume(i16 != -1<<15)
		vpAssert((i16/3)*3+i16%3 == i16, "must-hold:sdiv.identity")
	case 4:
		// conversions
		vpAssert(uint64(uint32(x)) == x, "must-fail:trunc.lossless")
		vpAssert(uint64(uint32(x)) == x&0xffffffff, "must-hold:trunc.mask")
		vpAssert(int64(int8(b)) < 128, "must-hold:sext.range")
	case 5:
		// byte slices, aliasing, copy, append
		buf := make([]byte, 8)
		binary.BigEndian.PutUint64(buf, x)
		vpAssert(binary.BigEndian.Uint64(buf) == x, "must-hold:be.roundtrip")
		vpAssert(binary.LittleEndian.Uint64(buf) == x, "must-fail:be-vs-le")
		alias := buf[2:6]
		alias[0] = b
		vpAssert(buf[2] == b, "must-hold:slice.alias")
		cp := append([]byte{}, buf...)
		cp[0] ^= 0xff
		vpAssert(cp[0] != buf[0], "must-hold:append.copies")
		vpAssert(vpImplies(bytes.Compare(k1, k2) < 0, vpOr(k1[0] < k2[0], vpAnd(k1[0] == k2[0], k1[1] < k2[1]))), "must-hold:bytes.compare-lex")
		vpAssert(bytes.Equal(k1, k2), "must-fail:bytes.equal")
		vpAssert(vpImplies(bytes.Equal(k1, k2), string(k1) == string(k2)), "must-hold:string.eq")
	case 6:
		// symbolic index into a slice
		tab := []uint64{3, 1, 4, 1, 5, 9, 2, 6}
		ix := vpU8("ix") & 7
		vpAssert(tab[ix] <= 9, "must-hold:symindex.bound")
		vpAssert(tab[ix] != 9, "must-fail:symindex.finds-9")
	case 7:
		// closures, defer order, named results
		order := []int{}
		f := func() (r uint64) {
			defer func() { order = append(order, 1); r += y }()
			defer func() { order = append(order, 2) }()
			return x
		}
		vpAssert(f() == x+y, "must-hold:defer.named-result")
		vpAssert(len(order) == 2 && order[0] == 2 && order[1] == 1, "must-hold:defer.lifo")
	case 8:
		// interface dispatch and type switch
		var sh vpShape = vpSq{s: uint64(b)}
		if vpChoose("shape", 2) == 1 {
			sh = vpRect{a: uint64(b), b: 2}
		}
		switch v := sh.(type) {
		case vpSq:
			vpAssert(v.area() == uint64(b)*uint64(b), "must-hold:iface.sq")
		case vpRect:
			vpAssert(v.area() == 2*uint64(b), "must-hold:iface.rect")
			vpAssert(sh.area() > 0, "must-fail:iface.rect-positive")
		}
	case 9:
		// maps with symbolic keys
		m := map[uint64]int{}
		m[x] = 1
		m[y] = 2
		vpAssert(len(m) == 2, "must-fail:map.distinct-keys")
		vpAssert(vpImplies(x == y, m[x] == 2), "must-hold:map.overwrite")
		_, ok := m[x+1]
		vpAssert(!ok, "must-fail:map.absent")
	case 10:
		// sort with a symbolic less
		vs := []uint64{x, y, uint64(b)}
		sort.Slice(vs, func(i, j int) bool { return vs[i] < vs[j] })
		vpAssert(vs[0] <= vs[1] && vs[1] <= vs[2], "must-hold:sort.sorted")
		vpAssert(vs[0] == x, "must-fail:sort.first-is-x")
	case 11:
		// the real key codec on symbolic input (one real repo function, end to end)
		key := KeyWithTs(k1, x)
		vpAssert(ParseTs(key) == x && bytes.Equal(ParseKey(key), k1), "must-hold:keywithts.roundtrip")
		vpAssert(CompareKeys(KeyWithTs(k1, x), KeyWithTs(k1, y)) <= 0, "must-fail:comparekeys.ignores-ts")

	}
	_, _, _, _, _ = x, y, b, k1, k2
}

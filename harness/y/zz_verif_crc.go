package y

import "hash/crc32"

// H-CRC: one-step lemmas about the REAL table-driven CRC-32C code.
//
// vpConfig("crc", 1) switches the engine's crc32 model to "table" mode: crc32.MakeTable runs the
// real hash/crc32.simpleMakeTable SSA (so the table is the one the real code builds) and
// crc32.Update runs the real hash/crc32.simpleUpdate SSA
//
//	crc = ^crc; for _, v := range p { crc = tab[byte(crc)^v] ^ (crc >> 8) }; return ^crc
//
// with a symbolic 32-bit state and a symbolic byte (the table lookup becomes a 256-way ite).
// Natively (replay) the same calls run the host's crc32, i.e. the amd64 assembly - a free
// differential test of "assembly = table code" on every sampled model.
//
// L1: for a fixed byte the one-byte update is injective in the state.
// L2: for a fixed state the one-byte update is injective in the byte.
// By induction over the common suffix (on paper): two equal-length byte strings that differ in
// exactly one byte have different CRCs from the same start state; hence a stored record with one
// altered payload byte, or with an altered stored checksum, fails the checksum comparison.
func VpHCrcLemmas() {
	vpConfig("crc", 1)
	vpConfig("oneshot", 1) // pure bit-vector obligations: stand-alone z3 (bit-blasting) decides them in ~1 s
	tab := crc32.MakeTable(crc32.Castagnoli)
	// the table the real code built is the Castagnoli table (spot values from RFC 3720 tables)
	vpAssert(tab[0] == 0 && tab[1] == 0xF26B8303 && tab[128] == crc32.Castagnoli && tab[255] == 0xAD7D5351, "C16,C17,C18:crc.table")

	which := vpChoose("lemma", 2)
	if which == 0 {
		s1, s2, b := vpU32("s1"), vpU32("s2"), vpU8("b")
		vpAssume(s1 != s2)
		r1 := crc32.Update(s1, tab, []byte{b})
		r2 := crc32.Update(s2, tab, []byte{b})
		vpObserveU64("r1", uint64(r1))
		vpObserveU64("r2", uint64(r2))
		vpCover("crc.L1")
		vpAssert(r1 != r2, "C16,C17,C18:crc.L1.injective-in-state")
	} else {
		s, b1, b2 := vpU32("s"), vpU8("b1"), vpU8("b2")
		vpAssume(b1 != b2)
		r1 := crc32.Update(s, tab, []byte{b1})
		r2 := crc32.Update(s, tab, []byte{b2})
		vpObserveU64("r1", uint64(r1))
		vpObserveU64("r2", uint64(r2))
		vpCover("crc.L2")
		vpAssert(r1 != r2, "C16,C17,C18:crc.L2.injective-in-byte")
	}
}

// Known-answer check of the uf-mode plumbing on concrete data: with every byte concrete the
// model evaluates the real table, so the standard check value must come out.
func VpHCrcKAT() {
	d := crc32.New(CastagnoliCrcTable)
	d.Write([]byte("1234"))
	d.Write([]byte("56789"))
	vpAssert(d.Sum32() == 0xE3069283, "C16:crc.kat.digest")
	vpAssert(crc32.Checksum([]byte("123456789"), CastagnoliCrcTable) == 0xE3069283, "C16:crc.kat.checksum")
	vpAssert(CalculateChecksumKAT() == 0xE3069283, "C16:crc.kat.update")
	// congruence: equal symbolic streams give equal sums whatever the chunking
	p := vpBytes("p", 3)
	a := crc32.New(CastagnoliCrcTable)
	a.Write(p[:1])
	a.Write(p[1:])
	vpAssert(a.Sum32() == crc32.Checksum(p, CastagnoliCrcTable), "C16:crc.uf.congruence")
	a.Reset()
	vpAssert(a.Sum32() == 0, "C16:crc.reset")
}

func CalculateChecksumKAT() uint32 {
	return crc32.Update(crc32.Update(0, CastagnoliCrcTable, []byte("12345")), CastagnoliCrcTable, []byte("6789"))
}

package y

import (
	"context"

	"github.com/dgraph-io/ristretto/v2/z"
)

// H-WM: the real WaterMark.process goroutine consuming an arbitrary legal sequence of
// Begin / Done / WaitForMark operations. Begin indices are non-decreasing (the oracle
// issues them under its lock); Done is only called for an index that was begun.
func VpHWaterMark() {
	closer := z.NewCloser(1)
	w := &WaterMark{Name: "vp"}
	w.Init(closer)

	n := vpParam("wm.ops", 4)
	var idx []uint64  // begun indices, in begin order (non-decreasing)
	var pend []int    // pending count per entry of idx
	var waitIdx []uint64
	var waitDone []*bool
	last := uint64(0)
	refDU := uint64(0) // reference value of DoneUntil (monotone)
	var strict []bool  // entry was begun while DoneUntil was still below it

	check := func() {
		vpYield() // let process() drain the channel
		du := w.DoneUntil()
		// reference: largest begun index x such that every begun y <= x is fully done
		ref := refDU
		for i := range idx {
			ok := true
			for j := range idx {
				ok = vpAnd(ok, vpOr(idx[j] > idx[i], pend[j] == 0))
			}
			ref = vpIteU64(vpAnd(ok, idx[i] > ref), idx[i], ref)
		}
		refDU = ref
		for i := range idx {
			if pend[i] > 0 {
				// an index begun above the watermark stays above it until it is done; an index
				// begun again at the watermark (repeated read timestamp) is never overtaken
				vpAssert(vpIteBool(strict[i], du < idx[i], du <= idx[i]), "C34,C03:wm.never-passes-pending")
			}
		}
		vpAssert(du == ref, "C34:wm.done-until-maximal")
		for i := range waitIdx {
			vpAssert(*waitDone[i] == (du >= waitIdx[i]), "C34:wm.waiter-released-iff-done")
		}
	}

	for s := 0; s < n; s++ {
		switch vpChoose("op", 3) {
		case 0: // Begin
			x := vpU64("begin")
			vpAssume(x >= last && x > 0 && x < 1<<62) // timestamps; MaxUint64 would make the notify loop wrap
			last = x
			// merge equal indices into one entry
			found := false
			for i := range idx {
				if idx[i] == x {
					if pend[i] == 0 {
						strict[i] = refDU < x
					}
					pend[i]++
					found = true
					break
				}
			}
			if !found {
				idx = append(idx, x)
				pend = append(pend, 1)
				strict = append(strict, refDU < x)
			}
			w.Begin(x)
			vpCover("wm.begin")
		case 1: // Done of some pending index
			var cands []int
			for i := range idx {
				if pend[i] > 0 {
					cands = append(cands, i)
				}
			}
			if len(cands) == 0 {
				continue
			}
			i := cands[vpChoose("which", len(cands))]
			pend[i]--
			w.Done(idx[i])
			vpCover("wm.done")
		case 2: // a reader waits for a mark
			x := vpU64("wait")
			vpAssume(x <= last) // readers wait for timestamps that were issued
			done := new(bool)
			waitIdx = append(waitIdx, x)
			waitDone = append(waitDone, done)
			go func() {
				if err := w.WaitForMark(context.Background(), x); err == nil {
					*done = true
				}
			}()
			vpCover("wm.wait")
		}
		check()
	}
}

package y

// vpBloomBits is the enumerated set of bitsPerKey values (a configuration value computed by
// float code, BloomBitsPerKey; evaluated concretely). It covers k = 1 (0,1), small k, the
// default (10 -> k=6), the k = 30 clamp (64, 100), the 64-bit minimum filter (n*bpk < 64),
// power-of-two and non-power-of-two nBits (2 keys x 40 = 80 bits, 1 key x 100 -> 104 bits).
var vpBloomBits = []int{0, 1, 5, 10, 20, 30, 40, 64, 100}

// H-BLOOM: real NewFilter / appendFilter / extend / Filter.MayContain on symbolic 32-bit
// hashes: a hash that was added is never reported absent.
func VpHBloom() {
	maxKeys := vpParam("bloom.keys", 2)
	// bloom.maxbits2: with 2 keys only bitsPerKey values <= this bound are explored
	// (per-probe solver cost grows with k x keys); 1 key is explored for every value.
	maxBits2 := vpParam("bloom.maxbits2", 10)

	nk := 1 + vpChoose("keys", maxKeys)
	bi := vpChoose("bpk", len(vpBloomBits))
	if only := vpParam("bloom.only", -1); only >= 0 && bi != only {
		return // debugging aid: explore a single bitsPerKey value
	}
	bpk := vpBloomBits[bi]
	if nk >= 2 && bpk > maxBits2 {
		return
	}
	if nk == 1 && bpk > vpParam("bloom.maxbits1", 100) {
		return
	}
	if vpParam("bloom.oneshot", 0) == 1 {
		// per-probe obligations are pure bit-vector problems with a constant-modulus urem: a
		// stand-alone solver run (bit-blasting tactic) decides them much faster than the
		// incremental process
		vpConfig("oneshot", 1)
	}
	hashes := make([]uint32, nk)
	for i := range hashes {
		hashes[i] = vpU32("h")
	}
	f := NewFilter(hashes, bpk)

	// shape of the encoded filter: k in the last byte, 1..30
	k := f[len(f)-1]
	wantK := uint32(float64(bpk) * 0.69)
	if wantK < 1 {
		wantK = 1
	}
	if wantK > 30 {
		wantK = 30
	}
	vpAssert(uint32(k) == wantK, "C19:bloom.k-byte")
	if k == 30 {
		vpCover("bloom.k30")
	}
	if k == 1 {
		vpCover("bloom.k1")
	}
	if n := len(f) - 1; n&(n-1) != 0 {
		vpCover("bloom.nbits-not-pow2")
	}
	if nk == 2 {
		vpCover("bloom.two-keys")
	}

	which := vpChoose("which", nk)
	got := f.MayContain(hashes[which])
	vpObserveBool("mayContain", got)
	vpAssert(got, "C19:bloom.no-false-negative")
}

package y

import "bytes"

// H-KEYS: KeyWithTs / ParseKey / ParseTs / CompareKeys / SameKey on symbolic keys.
func VpHKeys() {
	maxLen := vpParam("keys.maxlen", 3)
	la := vpChoose("lenA", maxLen+1) // 0..maxLen
	lb := vpChoose("lenB", maxLen+1)
	a := vpBytes("a", la)
	b := vpBytes("b", lb)
	ta := vpU64("tsA")
	tb := vpU64("tsB")

	ka := KeyWithTs(a, ta)
	kb := KeyWithTs(b, tb)
	vpObserveBytes("ka", ka)

	// round trip
	vpAssert(len(ka) == la+8, "C20:keys.len")
	vpAssert(bytes.Equal(ParseKey(ka), a), "C20:keys.parsekey")
	// ParseTs is specified for non-empty user keys only (the write API rejects empty keys)
	vpAssert(vpImplies(la > 0, ParseTs(ka) == ta), "C20:keys.parsets")

	// reference order: user key ascending, then version descending
	ua := string(a)
	ub := string(b)
	refLess := vpOr(ua < ub, vpAnd(ua == ub, ta > tb))
	refEq := vpAnd(ua == ub, ta == tb)
	c := CompareKeys(ka, kb)
	vpObserveU64("cmp", uint64(int64(c)))
	vpAssert(vpImplies(refLess, c < 0), "C20,C05:keys.order.lt")
	vpAssert(vpImplies(refEq, c == 0), "C20,C05:keys.order.eq")
	vpAssert(vpImplies(vpAnd(vpNot(refLess), vpNot(refEq)), c > 0), "C20,C05:keys.order.gt")
	vpAssert(SameKey(ka, kb) == (ua == ub), "C20:keys.samekey")
}

package main

// Models for functions without Go bodies (assembly, runtime) or whose bodies
// are outside what the engine executes (sync, fmt, log, time, errors.Is/As).

import (
	"fmt"
	"go/token"
	"go/types"
	"strings"

	"golang.org/x/tools/go/ssa"
	"golang.org/x/tools/go/ssa/ssautil"
)

type intrinsic func(fr *frame, args []value) value

var intrinsics map[string]intrinsic

func ssautilAllFunctions(p *ssa.Program) map[*ssa.Function]bool { return ssautil.AllFunctions(p) }

func fld(p value, i int) *value {
	pp := p.(*value)
	if pp == nil {
		panic(targetPanic{iface{v: "runtime error: invalid memory address or nil pointer dereference"}})
	}
	return &(*pp).(structure)[i]
}

func lastFld(p *value) *value {
	s := (*p).(structure)
	return &s[len(s)-1]
}

func u64(v value) uint64 {
	c, ok := v.(uint64)
	if !ok {
		panic(engineError{fmt.Sprintf("intrinsic needs a concrete integer, got %T", v)})
	}
	return c
}

func init() {
	intrinsics = map[string]intrinsic{
		// ----- sync -----
		"(*sync.Mutex).Lock": func(fr *frame, a []value) value {
			st := fld(a[0], 0)
			fr.m.block(func() bool { return u64(*st) == 0 })
			*st = uint64(1)
			fr.m.event("lock")
			return nil
		},
		"(*sync.Mutex).TryLock": func(fr *frame, a []value) value {
			st := fld(a[0], 0)
			if u64(*st) == 0 {
				*st = uint64(1)
				return true
			}
			return false
		},
		"(*sync.Mutex).Unlock": func(fr *frame, a []value) value {
			st := fld(a[0], 0)
			if u64(*st) == 0 {
				panic(targetPanic{iface{t: fr.m.runtimeErrT, v: "sync: unlock of unlocked mutex"}})
			}
			*st = uint64(0)
			return nil
		},
		"(*sync.RWMutex).Lock": func(fr *frame, a []value) value {
			w := fld(fld(a[0], 0), 0)
			rc := lastFld(fld(a[0], 3))
			fr.m.block(func() bool { return u64(*w) == 0 && u64(*rc) == 0 })
			*w = uint64(1)
			return nil
		},
		"(*sync.RWMutex).Unlock": func(fr *frame, a []value) value {
			w := fld(fld(a[0], 0), 0)
			if u64(*w) == 0 {
				panic(targetPanic{iface{t: fr.m.runtimeErrT, v: "sync: Unlock of unlocked RWMutex"}})
			}
			*w = uint64(0)
			return nil
		},
		"(*sync.RWMutex).RLock": func(fr *frame, a []value) value {
			w := fld(fld(a[0], 0), 0)
			rc := lastFld(fld(a[0], 3))
			fr.m.block(func() bool { return u64(*w) == 0 })
			*rc = u64(*rc) + 1
			return nil
		},
		"(*sync.RWMutex).RUnlock": func(fr *frame, a []value) value {
			rc := lastFld(fld(a[0], 3))
			if u64(*rc) == 0 {
				panic(targetPanic{iface{t: fr.m.runtimeErrT, v: "sync: RUnlock of unlocked RWMutex"}})
			}
			*rc = u64(*rc) - 1
			return nil
		},
		"(*sync.WaitGroup).Add": func(fr *frame, a []value) value {
			c := lastFld(fld(a[0], 1))
			n := int64(u64(*c)) + int64(u64(a[1]))
			if n < 0 {
				panic(targetPanic{iface{t: fr.m.runtimeErrT, v: "sync: negative WaitGroup counter"}})
			}
			*c = uint64(n)
			return nil
		},
		"(*sync.WaitGroup).Done": func(fr *frame, a []value) value {
			c := lastFld(fld(a[0], 1))
			n := int64(u64(*c)) - 1
			if n < 0 {
				panic(targetPanic{iface{t: fr.m.runtimeErrT, v: "sync: negative WaitGroup counter"}})
			}
			*c = uint64(n)
			return nil
		},
		"(*sync.WaitGroup).Wait": func(fr *frame, a []value) value {
			c := lastFld(fld(a[0], 1))
			fr.m.block(func() bool { return u64(*c) == 0 })
			return nil
		},
		"(*sync.Once).Do": func(fr *frame, a []value) value {
			d := lastFld(fld(a[0], 0))
			if u64(*d) == 0 {
				defer func() { *d = uint64(1) }()
				fr.m.call(fr, fr.callPos, a[1], nil)
			}
			return nil
		},
		"(*sync.Pool).Get": func(fr *frame, a []value) value {
			nf := *fld(a[0], 5)
			if eqnil(nf) {
				return iface{}
			}
			return fr.m.call(fr, fr.callPos, nf, nil)
		},
		"(*sync.Pool).Put": func(fr *frame, a []value) value { return nil },
		"(*sync.Cond).Wait": func(fr *frame, a []value) value {
			m := fr.m
			p := a[0].(*value)
			L := (*fld(a[0], 1)).(iface)
			gen := m.condGen[p]
			m.callMethod(fr, L, "Unlock")
			m.block(func() bool { return m.condGen[p] > gen })
			m.callMethod(fr, L, "Lock")
			return nil
		},
		"(*sync.Cond).Signal":    func(fr *frame, a []value) value { fr.m.condGen[a[0].(*value)]++; return nil },
		"(*sync.Cond).Broadcast": func(fr *frame, a []value) value { fr.m.condGen[a[0].(*value)]++; return nil },

		// ----- runtime / misc -----
		"runtime.Gosched":       func(fr *frame, a []value) value { fr.m.yield(); return nil },
		"runtime.GC":            func(fr *frame, a []value) value { return nil },
		"runtime.KeepAlive":     func(fr *frame, a []value) value { return nil },
		"runtime.SetFinalizer":  func(fr *frame, a []value) value { return nil },
		"runtime.GOMAXPROCS":    func(fr *frame, a []value) value { return uint64(8) },
		"runtime.NumCPU":        func(fr *frame, a []value) value { return uint64(8) },
		"runtime.NumGoroutine":  func(fr *frame, a []value) value { return uint64(1) },
		"runtime/debug.Stack":   func(fr *frame, a []value) value { return []value{} },
		"runtime.Caller":        func(fr *frame, a []value) value { return tuple{uint64(0), "", uint64(0), false} },
		"time.Sleep":            func(fr *frame, a []value) value { fr.m.yield(); return nil },
		"os.Exit":               func(fr *frame, a []value) value { panic(targetPanic{iface{t: fr.m.runtimeErrT, v: "os.Exit"}}) },
		"os.Getpid":             func(fr *frame, a []value) value { return uint64(4242) },
		"os.Getpagesize":        func(fr *frame, a []value) value { return uint64(4096) },
		"math.Float64bits":      func(fr *frame, a []value) value { return mathFloat64bits(a[0].(float64)) },
		"math.Float64frombits":  func(fr *frame, a []value) value { return mathFloat64frombits(u64(a[0])) },
		"math.Float32bits":      func(fr *frame, a []value) value { return uint64(mathFloat32bits(a[0].(float64))) },
		"math.Float32frombits":  func(fr *frame, a []value) value { return mathFloat32frombits(uint32(u64(a[0]))) },
		"math.Ceil":             func(fr *frame, a []value) value { return mathCeil(a[0].(float64)) },
		"math.Floor":            func(fr *frame, a []value) value { return mathFloor(a[0].(float64)) },
		"math.Log":              func(fr *frame, a []value) value { return mathLog(a[0].(float64)) },
		"math.Log2":             func(fr *frame, a []value) value { return mathLog2(a[0].(float64)) },
		"math.Pow":              func(fr *frame, a []value) value { return mathPow(a[0].(float64), a[1].(float64)) },
		"math.Sqrt":             func(fr *frame, a []value) value { return mathSqrt(a[0].(float64)) },
		"math.Abs":              func(fr *frame, a []value) value { return mathAbs(a[0].(float64)) },
		"math.Exp":              func(fr *frame, a []value) value { return mathExp(a[0].(float64)) },

		// ----- bytes / strings assembly -----
		"internal/bytealg.Compare": func(fr *frame, a []value) value {
			return fr.m.bytesCompare3(a[0].([]value), a[1].([]value))
		},
		"internal/bytealg.Equal": func(fr *frame, a []value) value {
			return fr.m.bytesEq(a[0].([]value), a[1].([]value))
		},
		"internal/bytealg.IndexByte": func(fr *frame, a []value) value {
			return fr.m.indexByte(a[0].([]value), a[1])
		},
		"internal/bytealg.IndexByteString": func(fr *frame, a []value) value {
			return fr.m.indexByte(strBytes(a[0]), a[1])
		},
		"internal/bytealg.MakeNoZero": func(fr *frame, a []value) value {
			n := int(u64(a[0]))
			s := make([]value, n)
			for i := range s {
				s[i] = uint64(0)
			}
			return s
		},
		"internal/bytealg.Count": func(fr *frame, a []value) value {
			b := a[0].([]value)
			n := uint64(0)
			for _, x := range b {
				if u64(x) == u64(a[1]) {
					n++
				}
			}
			return n
		},
		"bytes.Compare": func(fr *frame, a []value) value {
			return fr.m.bytesCompare3(a[0].([]value), a[1].([]value))
		},
		"bytes.Equal": func(fr *frame, a []value) value {
			return fr.m.bytesEq(a[0].([]value), a[1].([]value))
		},
		"strings.Compare": func(fr *frame, a []value) value {
			return fr.m.bytesCompare3(strBytes(a[0]), strBytes(a[1]))
		},

		// ----- errors / fmt / log -----
		"errors.Is": intrErrorsIs,
		"errors.As": intrErrorsAs,
		"fmt.Errorf": intrErrorf,
		"fmt.Sprintf": func(fr *frame, a []value) value { return fr.m.sprintf(goString(a[0]), a[1].([]value)) },
		"fmt.Sprint":  func(fr *frame, a []value) value { return fr.m.sprintf("", a[0].([]value)) },
		"fmt.Sprintln": func(fr *frame, a []value) value { return fr.m.sprintf("", a[0].([]value)) },
		"fmt.Printf":  func(fr *frame, a []value) value { return tuple{uint64(0), iface{}} },
		"fmt.Println": func(fr *frame, a []value) value { return tuple{uint64(0), iface{}} },
		"fmt.Print":   func(fr *frame, a []value) value { return tuple{uint64(0), iface{}} },
		"fmt.Fprintf": func(fr *frame, a []value) value { return tuple{uint64(0), iface{}} },
		"fmt.Fprintln": func(fr *frame, a []value) value { return tuple{uint64(0), iface{}} },
		"fmt.Fprint":  func(fr *frame, a []value) value { return tuple{uint64(0), iface{}} },
		"log.Printf":  func(fr *frame, a []value) value { return nil },
		"log.Println": func(fr *frame, a []value) value { return nil },
		"log.Print":   func(fr *frame, a []value) value { return nil },
		"log.Fatalf": func(fr *frame, a []value) value {
			panic(targetPanic{iface{t: fr.m.runtimeErrT, v: "log.Fatalf: " + goString(a[0])}})
		},
		"log.Fatal": func(fr *frame, a []value) value {
			panic(targetPanic{iface{t: fr.m.runtimeErrT, v: "log.Fatal"}})
		},
		"log.Panicf": func(fr *frame, a []value) value {
			panic(targetPanic{iface{t: fr.m.runtimeErrT, v: "log.Panicf: " + goString(a[0])}})
		},
		"(*log.Logger).Printf":  func(fr *frame, a []value) value { return nil },
		"(*log.Logger).Println": func(fr *frame, a []value) value { return nil },
		"(*log.Logger).Fatalf": func(fr *frame, a []value) value {
			panic(targetPanic{iface{t: fr.m.runtimeErrT, v: "log.Fatalf: " + goString(a[1])}})
		},
		"encoding/hex.Dump": func(fr *frame, a []value) value { return "" },

		// ----- sort (reflection-based swapper) -----
		"sort.Slice":       intrSortSlice,
		"sort.SliceStable": intrSortSlice,

		// ----- time: symbolic monotone clock -----
		"time.Now": func(fr *frame, a []value) value { return fr.m.clockNow() },
		"time.Since": func(fr *frame, a []value) value {
			// duration since an earlier instant: symbolic non-negative nanoseconds
			return fr.m.newHiddenInput("since", 64, 0, 1<<50)
		},
		"time.runtimeNano": func(fr *frame, a []value) value { return fr.m.newHiddenInput("nano", 64, 0, 1<<60) },

		// ----- crypto/rand, FastRand -----
		"github.com/dgraph-io/ristretto/v2/z.FastRand": func(fr *frame, a []value) value {
			return fr.m.newHiddenInput("fastrand", 32, 0, 0)
		},
	}
	for _, w := range []string{"Int32", "Int64", "Uint32", "Uint64", "Uintptr"} {
		w := w
		bits := 64
		if strings.HasSuffix(w, "32") {
			bits = 32
		}
		signed := strings.HasPrefix(w, "Int")
		intrinsics["sync/atomic.Load"+w] = func(fr *frame, a []value) value { return load(a[0].(*value)) }
		intrinsics["sync/atomic.Store"+w] = func(fr *frame, a []value) value { store(a[0].(*value), a[1]); return nil }
		intrinsics["sync/atomic.Add"+w] = func(fr *frame, a []value) value {
			p := a[0].(*value)
			n := fr.m.intBinop(token.ADD, bits, signed, *p, a[1], nil)
			*p = n
			return n
		}
		intrinsics["sync/atomic.Swap"+w] = func(fr *frame, a []value) value {
			p := a[0].(*value)
			old := *p
			*p = a[1]
			return old
		}
		intrinsics["sync/atomic.CompareAndSwap"+w] = func(fr *frame, a []value) value {
			p := a[0].(*value)
			eq := fr.m.intBinop(token.EQL, bits, signed, *p, a[1], nil)
			var b bool
			switch e := eq.(type) {
			case bool:
				b = e
			case *Term:
				b = fr.m.decide(e, "CAS")
			}
			if b {
				*p = a[2]
			}
			return b
		}
		intrinsics["sync/atomic.And"+w] = func(fr *frame, a []value) value {
			p := a[0].(*value)
			old := *p
			*p = fr.m.intBinop(token.AND, bits, signed, *p, a[1], nil)
			return old
		}
		intrinsics["sync/atomic.Or"+w] = func(fr *frame, a []value) value {
			p := a[0].(*value)
			old := *p
			*p = fr.m.intBinop(token.OR, bits, signed, *p, a[1], nil)
			return old
		}
	}
	intrinsics["sync/atomic.LoadPointer"] = func(fr *frame, a []value) value { return load(a[0].(*value)) }
	intrinsics["sync/atomic.StorePointer"] = func(fr *frame, a []value) value { store(a[0].(*value), a[1]); return nil }
	intrinsics["sync/atomic.SwapPointer"] = func(fr *frame, a []value) value {
		p := a[0].(*value)
		old := *p
		*p = a[1]
		return old
	}
	intrinsics["sync/atomic.CompareAndSwapPointer"] = func(fr *frame, a []value) value {
		p := a[0].(*value)
		if b, _ := fr.m.equals(types.Typ[types.UnsafePointer], *p, a[1]).(bool); b {
			*p = a[2]
			return true
		}
		return false
	}
	intrinsics["(*sync/atomic.Value).Load"] = func(fr *frame, a []value) value { return *fld(a[0], 0) }
	intrinsics["(*sync/atomic.Value).Store"] = func(fr *frame, a []value) value { *fld(a[0], 0) = a[1]; return nil }
	intrinsics["(*sync/atomic.Value).Swap"] = func(fr *frame, a []value) value {
		p := fld(a[0], 0)
		old := *p
		*p = a[1]
		return old
	}
}

// genericIntrinsic handles instantiated generic methods by prefix.
func (m *machine) genericExternal(fn *ssa.Function, args []value) (value, bool) {
	return nil, false
}

func lookupIntrinsic(name string) intrinsic {
	if f, ok := intrinsics[name]; ok {
		return f
	}
	if strings.HasPrefix(name, "(*sync/atomic.Pointer[") {
		i := strings.LastIndex(name, ").")
		switch name[i+2:] {
		case "Load":
			return func(fr *frame, a []value) value {
				up := (*fld(a[0], 2)).(unsafePtr)
				if up.v == nil {
					return (*value)(nil)
				}
				return up.v
			}
		case "Store":
			return func(fr *frame, a []value) value { *fld(a[0], 2) = unsafePtr{v: a[1]}; return nil }
		case "Swap":
			return func(fr *frame, a []value) value {
				p := fld(a[0], 2)
				old := (*p).(unsafePtr)
				*p = unsafePtr{v: a[1]}
				if old.v == nil {
					return (*value)(nil)
				}
				return old.v
			}
		case "CompareAndSwap":
			return func(fr *frame, a []value) value {
				p := fld(a[0], 2)
				old := (*p).(unsafePtr)
				var cur value = (*value)(nil)
				if old.v != nil {
					cur = old.v
				}
				if cur == a[1] {
					*p = unsafePtr{v: a[2]}
					return true
				}
				return false
			}
		}
	}
	return nil
}

func (m *machine) callMethod(fr *frame, recv iface, name string, args ...value) value {
	ms := m.E.prog.MethodSets.MethodSet(recv.t)
	for i := 0; i < ms.Len(); i++ {
		sel := ms.At(i)
		if sel.Obj().Name() == name {
			fn := m.E.prog.MethodValue(sel)
			return m.call(fr, fr.callPos, fn, append([]value{recv.v}, args...))
		}
	}
	panic(engineError{fmt.Sprintf("callMethod: %v has no method %s", recv.t, name)})
}

func (m *machine) hasMethod(t types.Type, name string) bool {
	ms := m.E.prog.MethodSets.MethodSet(t)
	for i := 0; i < ms.Len(); i++ {
		if ms.At(i).Obj().Name() == name {
			return true
		}
	}
	return false
}

func (m *machine) indexByte(b []value, c value) value {
	// first index i with b[i]==c, else -1; as ite chain
	res := m.ts.Const(64, ^uint64(0))
	for i := len(b) - 1; i >= 0; i-- {
		eq := m.toTerm(m.equals(types.Typ[types.Uint8], b[i], c), 0)
		res = m.ts.Ite(eq, m.ts.Const(64, uint64(i)), res)
	}
	return fromTerm(res)
}

func intrErrorsIs(fr *frame, a []value) value {
	m := fr.m
	err, target := a[0].(iface), a[1].(iface)
	if err.t == nil || target.t == nil {
		return err.t == nil && target.t == nil
	}
	for depth := 0; depth < 20; depth++ {
		if types.Identical(err.t, target.t) {
			if b, ok := m.equals(err.t, err.v, target.v).(bool); ok && b {
				return true
			}
		}
		if m.hasMethod(err.t, "Is") {
			if b, ok := m.callMethod(fr, err, "Is", target).(bool); ok && b {
				return true
			}
		}
		if !m.hasMethod(err.t, "Unwrap") {
			return false
		}
		next := m.callMethod(fr, err, "Unwrap")
		ni, ok := next.(iface)
		if !ok {
			// Unwrap() []error
			if sl, ok := next.([]value); ok {
				for _, e := range sl {
					if b, _ := intrErrorsIs(fr, []value{e, target}).(bool); b {
						return true
					}
				}
			}
			return false
		}
		if ni.t == nil {
			return false
		}
		err = ni
	}
	return false
}

func intrErrorsAs(fr *frame, a []value) value {
	m := fr.m
	err, target := a[0].(iface), a[1].(iface)
	if target.t == nil {
		panic(targetPanic{iface{t: m.runtimeErrT, v: "errors: target cannot be nil"}})
	}
	tt := deref(target.t)
	for depth := 0; err.t != nil && depth < 20; depth++ {
		ok := false
		if it, isI := tt.Underlying().(*types.Interface); isI {
			ok = types.Implements(err.t, it)
			if ok {
				store(target.v.(*value), err)
				return true
			}
		} else if types.Identical(err.t, tt) {
			store(target.v.(*value), err.v)
			return true
		}
		if !m.hasMethod(err.t, "Unwrap") {
			return false
		}
		next, isI := m.callMethod(fr, err, "Unwrap").(iface)
		if !isI {
			return false
		}
		err = next
	}
	return false
}

func (m *machine) namedType(pkg, name string) types.Type {
	p := m.E.pkgs[pkg]
	if p == nil {
		panic(engineError{"package not loaded: " + pkg})
	}
	return p.Type(name).Object().Type()
}

func intrErrorf(fr *frame, a []value) value {
	m := fr.m
	format := goString(a[0])
	args := a[1].([]value)
	msg := goString(m.sprintf(format, args))
	if strings.Contains(format, "%w") {
		for _, x := range args {
			xi, ok := x.(iface)
			if ok && xi.t != nil && m.hasMethod(xi.t, "Error") {
				var s value = structure{msg, xi}
				return iface{t: types.NewPointer(m.namedType("fmt", "wrapError")), v: &s}
			}
		}
	}
	var s value = structure{msg}
	return iface{t: types.NewPointer(m.namedType("errors", "errorString")), v: &s}
}

// sprintf formats when every operand is concrete and simple; otherwise returns the format.
func (m *machine) sprintf(format string, args []value) value {
	var gargs []interface{}
	for _, x := range args {
		xi, ok := x.(iface)
		if !ok || xi.t == nil {
			gargs = append(gargs, nil)
			continue
		}
		switch v := xi.v.(type) {
		case uint64:
			if w, signed, ok := intInfo(xi.t); ok && signed {
				gargs = append(gargs, sext64(v, w))
			} else {
				gargs = append(gargs, v)
			}
		case string:
			gargs = append(gargs, v)
		case bool:
			gargs = append(gargs, v)
		case float64:
			gargs = append(gargs, v)
		case []value:
			if !containsSym(array(v)) {
				if _, isB := xi.t.Underlying().(*types.Slice); isB {
					bs := make([]byte, len(v))
					okb := true
					for i, e := range v {
						c, ok := e.(uint64)
						if !ok {
							okb = false
							break
						}
						bs[i] = byte(c)
					}
					if okb {
						gargs = append(gargs, bs)
						continue
					}
				}
			}
			gargs = append(gargs, "?")
		default:
			if xi.t != nil && m.hasMethod(xi.t, "Error") {
				gargs = append(gargs, "<error>")
			} else {
				gargs = append(gargs, "?")
			}
		}
	}
	if format == "" {
		return fmt.Sprint(gargs...)
	}
	f := strings.ReplaceAll(format, "%w", "%v")
	return fmt.Sprintf(f, gargs...)
}

func intrSortSlice(fr *frame, a []value) value {
	m := fr.m
	sl := a[0].(iface).v.([]value)
	less := a[1]
	// insertion sort (stable) calling the real less closure on indices
	for i := 1; i < len(sl); i++ {
		for j := i; j > 0; j-- {
			r := m.call(fr, fr.callPos, less, []value{uint64(j), uint64(j - 1)})
			var b bool
			switch c := r.(type) {
			case bool:
				b = c
			case *Term:
				b = m.decide(c, "sort less")
			}
			if !b {
				break
			}
			sl[j], sl[j-1] = sl[j-1], sl[j]
		}
	}
	return nil
}

// newHiddenInput creates an environment-provided symbolic value (clock, randomness)
// recorded as an input; [lo,hi) bound applied when hi > 0.
func (m *machine) newHiddenInput(name string, w int, lo, hi uint64) value {
	if m.initDepth > 0 {
		return uint64(lo)
	}
	t := m.newInput("env."+name, w, fmt.Sprintf("u%d", w)).(*Term)
	if hi > 0 {
		m.addPC(m.ts.Cmp(OpUlt, t, m.ts.Const(w, hi)))
		if lo > 0 {
			m.addPC(m.ts.Cmp(OpUle, m.ts.Const(w, lo), t))
		}
		m.modelOK = false
	}
	return t
}

const unixToInternal = 62135596800

func (m *machine) clockNow() value {
	// seconds since epoch: symbolic, non-decreasing, < 2^40
	s, ok := m.newHiddenInput("clock", 64, 0, 1<<40).(*Term)
	if !ok {
		return structure{uint64(0), uint64(unixToInternal), (*value)(nil)}
	}
	if m.lastClock != nil {
		m.addPC(m.ts.Cmp(OpUle, m.lastClock, s))
	}
	m.lastClock = s
	ext := m.ts.Bin(OpBvAdd, s, m.ts.Const(64, unixToInternal))
	return structure{uint64(0), fromTerm(ext), (*value)(nil)}
}

package main

import (
	"fmt"
	"go/constant"
	"go/token"
	"go/types"
	"math"
	"unicode/utf8"

	"golang.org/x/tools/go/ssa"
)

// targetPanic: the interpreted program panicked.
type targetPanic struct {
	v value
}

func (p targetPanic) String() string { return panicString(p.v) }

func panicString(v value) string {
	if i, ok := v.(iface); ok {
		switch x := i.v.(type) {
		case string:
			return x
		case *value:
			if x != nil {
				if s, ok := (*x).(structure); ok && len(s) > 0 {
					if str, ok := s[0].(string); ok {
						return fmt.Sprintf("(%v) %s", i.t, str)
					}
				}
			}
		}
		return toString(v)
	}
	return toString(v)
}

func (m *machine) runtimePanic(msg string) {
	panic(targetPanic{iface{t: m.runtimeErrT, v: "runtime error: " + msg}})
}

func constValue(c *ssa.Const) value {
	if c.Value == nil {
		return zero(c.Type())
	}
	if t, ok := c.Type().Underlying().(*types.Basic); ok {
		switch {
		case t.Info()&types.IsBoolean != 0:
			return constant.BoolVal(c.Value)
		case t.Info()&types.IsInteger != 0:
			w, signed, _ := intInfo(t)
			if signed {
				return uint64(c.Int64()) & mask(w)
			}
			return c.Uint64() & mask(w)
		case t.Info()&types.IsFloat != 0:
			f := c.Float64()
			if t.Kind() == types.Float32 {
				return float64(float32(f))
			}
			return f
		case t.Info()&types.IsString != 0:
			if c.Value.Kind() == constant.String {
				return constant.StringVal(c.Value)
			}
			return string(rune(c.Int64()))
		case t.Info()&types.IsComplex != 0:
			return c.Complex128()
		}
	}
	panic(fmt.Sprintf("constValue: %s", c))
}

// toTerm converts a scalar (bool or int of width w; w=0 for bool) to a term.
func (m *machine) toTerm(v value, w int) *Term {
	switch v := v.(type) {
	case *Term:
		if v.W != w {
			panic(fmt.Sprintf("toTerm: width %d, want %d (%s)", v.W, w, v))
		}
		return v
	case uint64:
		return m.ts.Const(w, v)
	case bool:
		return m.ts.Bool(v)
	}
	panic(fmt.Sprintf("toTerm: unexpected %T", v))
}

func fromTerm(t *Term) value {
	if t.Op == OpConst {
		if t.W == 0 {
			return t.C == 1
		}
		return t.C
	}
	return t
}

// concInt requires a concrete integer; symbolic values are concretised by forking.
func (m *machine) concInt(v value, signedW int, why string) int64 {
	switch v := v.(type) {
	case uint64:
		return int64(v)
	case *Term:
		return int64(m.concretize(v, why))
	}
	panic(fmt.Sprintf("concInt: unexpected %T (%s)", v, why))
}

func strBytes(v value) []value {
	switch v := v.(type) {
	case string:
		b := make([]value, len(v))
		for i := 0; i < len(v); i++ {
			b[i] = uint64(v[i])
		}
		return b
	case *symstr:
		return v.b
	}
	panic(fmt.Sprintf("strBytes: unexpected %T", v))
}

func mkStr(b []value) value {
	buf := make([]byte, len(b))
	for i, x := range b {
		c, ok := x.(uint64)
		if !ok {
			cp := make([]value, len(b))
			copy(cp, b)
			return &symstr{b: cp}
		}
		buf[i] = byte(c)
	}
	return string(buf)
}

func strLen(v value) int {
	switch v := v.(type) {
	case string:
		return len(v)
	case *symstr:
		return len(v.b)
	}
	panic(fmt.Sprintf("strLen: unexpected %T", v))
}

// bytesEq returns a bool/Term for equality of two byte vectors.
func (m *machine) bytesEq(a, b []value) value {
	if len(a) != len(b) {
		return false
	}
	acc := m.ts.Bool(true)
	for i := range a {
		x, xc := a[i].(uint64)
		y, yc := b[i].(uint64)
		if xc && yc {
			if x != y {
				return false
			}
			continue
		}
		acc = m.ts.And(acc, m.ts.Eq(m.toTerm(a[i], 8), m.toTerm(b[i], 8)))
	}
	return fromTerm(acc)
}

// bytesCmp returns the three-way comparison as bool/Term pair (lt, eq).
func (m *machine) bytesLess(a, b []value) value {
	n := len(a)
	if len(b) < n {
		n = len(b)
	}
	// equal lengths of 2..8 bytes: one unsigned comparison of the big-endian words (the bytes of a
	// packed integer re-join to that integer, so the 8-byte timestamp suffix compares as a word)
	if len(a) == len(b) && n >= 2 && n <= 8 {
		wa, wb := m.toTerm(a[0], 8), m.toTerm(b[0], 8)
		for i := 1; i < n; i++ {
			wa = m.ts.Concat(wa, m.toTerm(a[i], 8))
			wb = m.ts.Concat(wb, m.toTerm(b[i], 8))
		}
		return fromTerm(m.ts.Cmp(OpUlt, wa, wb))
	}
	// lt = exists i<n: prefix equal and a[i]<b[i], or prefix(n) equal and len(a)<len(b)
	res := m.ts.Bool(len(a) < len(b))
	for i := n - 1; i >= 0; i-- {
		x, y := m.toTerm(a[i], 8), m.toTerm(b[i], 8)
		res = m.ts.Ite(m.ts.Cmp(OpUlt, x, y), m.ts.Bool(true), m.ts.Ite(m.ts.Eq(x, y), res, m.ts.Bool(false)))
	}
	return fromTerm(res)
}

// bytesCompare3 returns -1/0/1 as a 64-bit value.
func (m *machine) bytesCompare3(a, b []value) value {
	lt := m.toTerm(m.bytesLess(a, b), 0)
	eq := m.toTerm(m.bytesEq(a, b), 0)
	r := m.ts.Ite(lt, m.ts.Const(64, ^uint64(0)), m.ts.Ite(eq, m.ts.Const(64, 0), m.ts.Const(64, 1)))
	return fromTerm(r)
}

func (m *machine) not(v value) value {
	switch v := v.(type) {
	case bool:
		return !v
	case *Term:
		return fromTerm(m.ts.Not(v))
	}
	panic(fmt.Sprintf("not: %T", v))
}

func (m *machine) and(a, b value) value {
	if x, ok := a.(bool); ok {
		if !x {
			return false
		}
		return b
	}
	if y, ok := b.(bool); ok {
		if !y {
			return false
		}
		return a
	}
	return fromTerm(m.ts.And(a.(*Term), b.(*Term)))
}

// equals returns x == y for comparable type t, as bool or Term.
func (m *machine) equals(t types.Type, x, y value) value {
	switch x := x.(type) {
	case bool:
		if yb, ok := y.(bool); ok {
			return x == yb
		}
		return fromTerm(m.ts.Eq(m.ts.Bool(x), y.(*Term)))
	case uint64:
		if yc, ok := y.(uint64); ok {
			return x == yc
		}
		yt := y.(*Term)
		return fromTerm(m.ts.Eq(m.ts.Const(yt.W, x), yt))
	case *Term:
		return fromTerm(m.ts.Eq(x, m.toTerm(y, x.W)))
	case float64:
		return x == y.(float64)
	case complex128:
		return x == y.(complex128)
	case string:
		if ys, ok := y.(string); ok {
			return x == ys
		}
		return m.bytesEq(strBytes(x), strBytes(y))
	case *symstr:
		return m.bytesEq(x.b, strBytes(y))
	case *value:
		yp, ok := y.(*value)
		return ok && x == yp
	case *symptr:
		panic(engineError{"comparison of symbolic-index pointer"})
	case *channel:
		return x == y.(*channel)
	case *omap:
		return x == y.(*omap)
	case unsafePtr:
		yp := y.(unsafePtr)
		if x.v == nil || yp.v == nil {
			return x.v == nil && yp.v == nil || isNilPtr(x.v) && isNilPtr(yp.v)
		}
		xp, ok1 := x.v.(*value)
		ypp, ok2 := yp.v.(*value)
		return ok1 && ok2 && xp == ypp
	case array:
		ya := y.(array)
		et := t.Underlying().(*types.Array).Elem()
		var acc value = true
		for i := range x {
			acc = m.and(acc, m.equals(et, x[i], ya[i]))
			if acc == false {
				return false
			}
		}
		return acc
	case structure:
		ys := y.(structure)
		st := t.Underlying().(*types.Struct)
		var acc value = true
		for i := range x {
			if st.Field(i).Name() == "_" {
				continue
			}
			acc = m.and(acc, m.equals(st.Field(i).Type(), x[i], ys[i]))
			if acc == false {
				return false
			}
		}
		return acc
	case iface:
		yi := y.(iface)
		if x.t == nil || yi.t == nil {
			return x.t == nil && yi.t == nil
		}
		if !types.Identical(x.t, yi.t) {
			return false
		}
		return m.equals(x.t, x.v, yi.v)
	case rtype:
		yr, ok := y.(rtype)
		return ok && types.Identical(x.t, yr.t)
	case *ssa.Function:
		// only comparison with nil is legal
		if yf, ok := y.(*ssa.Function); ok {
			return x == yf
		}
		return false
	case *closure:
		if yf, ok := y.(*ssa.Function); ok && yf == nil {
			return false
		}
		return x == y
	case []value:
		// only nil comparison
		return x == nil && y.([]value) == nil
	}
	panic(fmt.Sprintf("equals: unexpected %T", x))
}

func isNilPtr(v value) bool {
	p, ok := v.(*value)
	return ok && p == nil
}

func eqnil(x value) bool {
	switch x := x.(type) {
	case *value:
		return x == nil
	case []value:
		return x == nil
	case *omap:
		return x == nil
	case *channel:
		return x == nil
	case *ssa.Function:
		return x == nil
	case *closure:
		return x == nil
	case *ssa.Builtin:
		return x == nil
	case iface:
		return x.t == nil
	case unsafePtr:
		return x.v == nil || isNilPtr(x.v)
	case *symptr:
		return false
	}
	panic(fmt.Sprintf("eqnil: unexpected %T", x))
}

func isNilConst(v ssa.Value) bool {
	c, ok := v.(*ssa.Const)
	return ok && c.Value == nil
}

var binOpMap = map[token.Token]Op{
	token.ADD: OpBvAdd, token.SUB: OpBvSub, token.MUL: OpBvMul,
	token.AND: OpBvAnd, token.OR: OpBvOr, token.XOR: OpBvXor,
}

// binop implements ssa.BinOp.
func (m *machine) binop(instr *ssa.BinOp, x, y value) value {
	op := instr.Op
	t := instr.X.Type()
	if w, signed, ok := intInfo(t); ok {
		return m.intBinop(op, w, signed, x, y, instr.Y.Type())
	}
	switch {
	case isFloat(t):
		a, b := x.(float64), y.(float64)
		f32 := t.Underlying().(*types.Basic).Kind() == types.Float32
		rnd := func(f float64) value {
			if f32 {
				return float64(float32(f))
			}
			return f
		}
		switch op {
		case token.ADD:
			return rnd(a + b)
		case token.SUB:
			return rnd(a - b)
		case token.MUL:
			return rnd(a * b)
		case token.QUO:
			return rnd(a / b)
		case token.LSS:
			return a < b
		case token.LEQ:
			return a <= b
		case token.GTR:
			return a > b
		case token.GEQ:
			return a >= b
		case token.EQL:
			return a == b
		case token.NEQ:
			return a != b
		}
	case isString(t):
		switch op {
		case token.ADD:
			if a, ok := x.(string); ok {
				if b, ok := y.(string); ok {
					return a + b
				}
			}
			return mkStr(append(append([]value{}, strBytes(x)...), strBytes(y)...))
		case token.EQL:
			return m.equals(t, x, y)
		case token.NEQ:
			return m.not(m.equals(t, x, y))
		case token.LSS:
			return m.bytesLess(strBytes(x), strBytes(y))
		case token.GTR:
			return m.bytesLess(strBytes(y), strBytes(x))
		case token.LEQ:
			return m.not(m.bytesLess(strBytes(y), strBytes(x)))
		case token.GEQ:
			return m.not(m.bytesLess(strBytes(x), strBytes(y)))
		}
	}
	switch op {
	case token.EQL, token.NEQ:
		var r value
		if isNilConst(instr.X) {
			r = eqnil(y)
		} else if isNilConst(instr.Y) {
			r = eqnil(x)
		} else {
			r = m.equals(t, x, y)
		}
		if op == token.NEQ {
			return m.not(r)
		}
		return r
	}
	if isBool(t) {
		// &, |, ^ are not defined on bools in Go; AND_NOT neither.
		panic(fmt.Sprintf("bool binop %v", op))
	}
	if _, ok := x.(complex128); ok {
		panic(engineError{"complex arithmetic not supported"})
	}
	panic(fmt.Sprintf("invalid binary op: %T %s %T", x, op, y))
}

func (m *machine) intBinop(op token.Token, w int, signed bool, x, y value, yt types.Type) value {
	xc, xok := x.(uint64)
	yc, yok := y.(uint64)
	switch op {
	case token.SHL, token.SHR:
		wy, ysigned, _ := intInfo(yt)
		if yok {
			if ysigned && sext64(yc, wy) < 0 {
				m.runtimePanic("negative shift amount")
			}
			sop := OpBvShl
			if op == token.SHR {
				sop = OpBvLShr
				if signed {
					sop = OpBvAShr
				}
			}
			cnt := yc
			if cnt > 64 {
				cnt = 64
			}
			if xok {
				return evalBin(sop, w, xc, cnt)
			}
			return fromTerm(m.ts.Bin(sop, x.(*Term), m.ts.Const(w, cnt)))
		}
		yt2 := y.(*Term)
		if ysigned {
			if m.decide(m.ts.Cmp(OpSlt, yt2, m.ts.Const(wy, 0)), "negative shift") {
				m.runtimePanic("negative shift amount")
			}
		}
		var cnt *Term
		if wy <= w {
			cnt = m.ts.Zext(yt2, w)
		} else {
			big := m.ts.Not(m.ts.Cmp(OpUlt, yt2, m.ts.Const(wy, uint64(w))))
			cnt = m.ts.Ite(big, m.ts.Const(w, uint64(w)), m.ts.Extract(yt2, w-1, 0))
		}
		sop := OpBvShl
		if op == token.SHR {
			sop = OpBvLShr
			if signed {
				sop = OpBvAShr
			}
		}
		return fromTerm(m.ts.Bin(sop, m.toTerm(x, w), cnt))
	case token.QUO, token.REM:
		if yok {
			if yc == 0 {
				m.runtimePanic("integer divide by zero")
			}
		} else {
			if m.decide(m.ts.Eq(y.(*Term), m.ts.Const(w, 0)), "divide by zero") {
				m.runtimePanic("integer divide by zero")
			}
		}
		var sop Op
		switch {
		case op == token.QUO && signed:
			sop = OpBvSDiv
		case op == token.QUO:
			sop = OpBvUDiv
		case signed:
			sop = OpBvSRem
		default:
			sop = OpBvURem
		}
		if xok && yok {
			return evalBin(sop, w, xc, yc)
		}
		return fromTerm(m.ts.Bin(sop, m.toTerm(x, w), m.toTerm(y, w)))
	case token.AND_NOT:
		if xok && yok {
			return xc &^ yc
		}
		return fromTerm(m.ts.Bin(OpBvAnd, m.toTerm(x, w), m.ts.BvNot(m.toTerm(y, w))))
	case token.ADD, token.SUB, token.MUL, token.AND, token.OR, token.XOR:
		sop := binOpMap[op]
		if xok && yok {
			return evalBin(sop, w, xc, yc)
		}
		return fromTerm(m.ts.Bin(sop, m.toTerm(x, w), m.toTerm(y, w)))
	case token.EQL:
		if xok && yok {
			return xc == yc
		}
		return fromTerm(m.ts.Eq(m.toTerm(x, w), m.toTerm(y, w)))
	case token.NEQ:
		if xok && yok {
			return xc != yc
		}
		return fromTerm(m.ts.Not(m.ts.Eq(m.toTerm(x, w), m.toTerm(y, w))))
	case token.LSS, token.LEQ, token.GTR, token.GEQ:
		a, b := x, y
		if op == token.GTR || op == token.GEQ {
			a, b = y, x
		}
		var cop Op
		strict := op == token.LSS || op == token.GTR
		switch {
		case strict && signed:
			cop = OpSlt
		case strict:
			cop = OpUlt
		case signed:
			cop = OpSle
		default:
			cop = OpUle
		}
		if xok && yok {
			return evalCmp(cop, w, a.(uint64), b.(uint64))
		}
		return fromTerm(m.ts.Cmp(cop, m.toTerm(a, w), m.toTerm(b, w)))
	}
	panic(fmt.Sprintf("intBinop: bad op %v", op))
}

func (m *machine) unop(instr *ssa.UnOp, x value) value {
	switch instr.Op {
	case token.ARROW:
		return m.chanRecv(x.(*channel), instr.CommaOk, instr.X.Type().Underlying().(*types.Chan).Elem())
	case token.SUB:
		t := instr.X.Type()
		if w, _, ok := intInfo(t); ok {
			if c, ok := x.(uint64); ok {
				return (-c) & mask(w)
			}
			return fromTerm(m.ts.BvNeg(x.(*Term)))
		}
		if f, ok := x.(float64); ok {
			return -f
		}
	case token.MUL:
		return m.loadPtr(x)
	case token.NOT:
		return m.not(x)
	case token.XOR:
		w, _, _ := intInfo(instr.X.Type())
		if c, ok := x.(uint64); ok {
			return (^c) & mask(w)
		}
		return fromTerm(m.ts.BvNot(x.(*Term)))
	}
	panic(fmt.Sprintf("invalid unary op %s %T", instr.Op, x))
}

func (m *machine) loadPtr(p value) value {
	switch p := p.(type) {
	case *value:
		if p == nil {
			m.runtimePanic("invalid memory address or nil pointer dereference")
		}
		return load(p)
	case *symptr:
		var acc *Term
		for i := len(p.base) - 1; i >= 0; i-- {
			et := m.toTerm(p.base[i], p.w)
			if acc == nil {
				acc = et
			} else {
				acc = m.ts.Ite(m.ts.Eq(p.idx, m.ts.Const(64, uint64(i))), et, acc)
			}
		}
		return fromTerm(acc)
	}
	panic(fmt.Sprintf("load from %T", p))
}


func (m *machine) storePtr(p value, v value) {
	switch p := p.(type) {
	case *value:
		if p == nil {
			m.runtimePanic("invalid memory address or nil pointer dereference")
		}
		store(p, v)
		return
	case *symptr:
		w := p.w
		vt := m.toTerm(v, w)
		for i := range p.base {
			old := m.toTerm(p.base[i], w)
			p.base[i] = fromTerm(m.ts.Ite(m.ts.Eq(p.idx, m.ts.Const(64, uint64(i))), vt, old))
		}
		return
	}
	panic(fmt.Sprintf("store to %T", p))
}

// conv implements ssa.Convert.
func (m *machine) conv(tdst, tsrc types.Type, x value) value {
	ud := tdst.Underlying()
	us := tsrc.Underlying()
	// pointer <-> unsafe.Pointer
	if b, ok := ud.(*types.Basic); ok && b.Kind() == types.UnsafePointer {
		if up, ok := x.(unsafePtr); ok {
			return up
		}
		return unsafePtr{v: x, t: tsrc}
	}
	if b, ok := us.(*types.Basic); ok && b.Kind() == types.UnsafePointer {
		up := x.(unsafePtr)
		if _, ok := ud.(*types.Pointer); ok {
			if up.v == nil {
				return (*value)(nil)
			}
			if up.t != nil && types.Identical(up.t.Underlying(), ud) {
				return up.v
			}
			return m.unsafeCast(up, tdst)
		}
		if _, _, ok := intInfo(ud); ok { // uintptr(unsafe.Pointer)
			return m.ptrToInt(up)
		}
	}
	if wd, _, ok := intInfo(ud); ok {
		if ws, ssigned, ok := intInfo(us); ok {
			switch x := x.(type) {
			case uint64:
				if ssigned {
					return uint64(sext64(x, ws)) & mask(wd)
				}
				return x & mask(wd)
			case *Term:
				if wd <= ws {
					return fromTerm(m.ts.Extract(x, wd-1, 0))
				}
				if ssigned {
					return fromTerm(m.ts.Sext(x, wd))
				}
				return fromTerm(m.ts.Zext(x, wd))
			}
		}
		if isFloat(us) {
			f := x.(float64)
			_, dsigned, _ := intInfo(ud)
			if dsigned {
				return uint64(int64(f)) & mask(wd)
			}
			if f >= 9223372036854775808.0 {
				return (uint64(f-9223372036854775808.0) + 1<<63) & mask(wd)
			}
			return uint64(int64(f)) & mask(wd)
		}
	}
	if isFloat(ud) {
		f32 := ud.(*types.Basic).Kind() == types.Float32
		var f float64
		if ws, ssigned, ok := intInfo(us); ok {
			c, isC := x.(uint64)
			if !isC {
				c = m.concretize(x.(*Term), "int->float conversion")
			}
			if ssigned {
				f = float64(sext64(c, ws))
			} else {
				f = float64(c)
			}
		} else {
			f = x.(float64)
		}
		if f32 {
			return float64(float32(f))
		}
		return f
	}
	if isString(ud) {
		switch s := us.(type) {
		case *types.Basic:
			if s.Info()&types.IsString != 0 {
				return x
			}
			if ws, ssigned, ok := intInfo(s); ok {
				c, isC := x.(uint64)
				if !isC {
					c = m.concretize(x.(*Term), "int->string conversion")
				}
				if ssigned {
					return string(rune(sext64(c, ws)))
				}
				return string(rune(c))
			}
		case *types.Slice:
			xs := x.([]value)
			if b, ok := s.Elem().Underlying().(*types.Basic); ok && b.Kind() == types.Int32 {
				rs := make([]rune, len(xs))
				for i, r := range xs {
					rs[i] = rune(m.concInt(r, 32, "[]rune->string"))
				}
				return string(rs)
			}
			return mkStr(xs)
		}
	}
	if sl, ok := ud.(*types.Slice); ok {
		if isString(us) {
			if b, ok := sl.Elem().Underlying().(*types.Basic); ok && b.Kind() == types.Int32 {
				str, ok := x.(string)
				if !ok {
					panic(engineError{"symbolic string -> []rune"})
				}
				var out []value
				for _, r := range str {
					out = append(out, uint64(uint32(r)))
				}
				if out == nil {
					out = []value{}
				}
				return out
			}
			b := strBytes(x)
			out := make([]value, len(b))
			copy(out, b)
			return out
		}
	}
	if types.Identical(ud, us) {
		return x
	}
	if _, ok := ud.(*types.Pointer); ok {
		if _, ok := us.(*types.Pointer); ok {
			return x
		}
	}
	if _, ok := x.(complex128); ok {
		return x
	}
	panic(fmt.Sprintf("unsupported conversion: %s -> %s, value %T", tsrc, tdst, x))
}

// slice returns x[lo:hi:max].
func (m *machine) slice(x, lo, hi, max value, xt types.Type) value {
	var Len, Cap int
	switch x := x.(type) {
	case string:
		Len = len(x)
		Cap = Len
	case *symstr:
		Len = len(x.b)
		Cap = Len
	case []value:
		Len = len(x)
		Cap = cap(x)
	case *value:
		if x == nil {
			m.runtimePanic("nil pointer dereference (slice of nil *array)")
		}
		a := (*x).(array)
		Len = len(a)
		Cap = Len
	default:
		panic(fmt.Sprintf("slice: unexpected X type: %T", x))
	}
	l, h, mx := int64(0), int64(Len), int64(Cap)
	if lo != nil {
		l = m.concInt(lo, 64, "slice low bound")
	}
	if hi != nil {
		h = m.concInt(hi, 64, "slice high bound")
	}
	if max != nil {
		mx = m.concInt(max, 64, "slice max bound")
	}
	_, isStr := x.(string)
	_, isSS := x.(*symstr)
	if isStr || isSS {
		if l < 0 || h < l || h > int64(Len) {
			m.runtimePanic(fmt.Sprintf("slice bounds out of range [%d:%d] with length %d", l, h, Len))
		}
	} else if l < 0 || h < l || mx < h || mx > int64(Cap) {
		m.runtimePanic(fmt.Sprintf("slice bounds out of range [%d:%d:%d] with capacity %d", l, h, mx, Cap))
	}
	switch x := x.(type) {
	case string:
		return x[l:h]
	case *symstr:
		return mkStr(x.b[l:h])
	case []value:
		if x == nil {
			return []value(nil)
		}
		return x[l:h:mx]
	case *value:
		a := (*x).(array)
		return []value(a)[l:h:mx]
	}
	panic("unreachable")
}

func decodeRune(b []value) (rune, int, bool) {
	// concrete bytes only
	buf := make([]byte, 0, 4)
	for i := 0; i < len(b) && i < 4; i++ {
		c, ok := b[i].(uint64)
		if !ok {
			return 0, 0, false
		}
		buf = append(buf, byte(c))
	}
	r, n := utf8.DecodeRune(buf)
	return r, n, true
}

var _ = math.Abs

package main

import (
	"fmt"
	"go/types"
)

// unsafeCast reinterprets an unsafe.Pointer as *T. Only identity-like casts
// are supported generically; specific reinterpretations are intrinsics on the
// functions that perform them.
func (m *machine) unsafeCast(up unsafePtr, tdst types.Type) value {
	if p, ok := up.v.(*value); ok {
		if p == nil {
			return (*value)(nil)
		}
		return p
	}
	panic(engineError{fmt.Sprintf("unsupported unsafe.Pointer cast from %v to %v", up.t, tdst)})
}

func (m *machine) ptrToInt(up unsafePtr) value {
	if up.v == nil || isNilPtr(up.v) {
		return uint64(0)
	}
	panic(engineError{"uintptr(unsafe.Pointer) of non-nil pointer"})
}

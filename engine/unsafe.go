package main

import (
	"fmt"
	"go/types"
)

// unsafeCast: reinterpreting casts are not modelled generically; the functions
// that perform them are intrinsics (see structLE below). Reaching one that is
// not is an engine error, never silently executed.
func (m *machine) unsafeCast(up unsafePtr, tdst types.Type) value {
	if p, ok := up.v.(*value); ok && p == nil {
		return (*value)(nil)
	}
	panic(engineError{fmt.Sprintf("unmodelled unsafe.Pointer cast from %v to %v", up.t, tdst)})
}

func (m *machine) ptrToInt(up unsafePtr) value {
	if up.v == nil || isNilPtr(up.v) {
		return uint64(0)
	}
	panic(engineError{"uintptr(unsafe.Pointer) of non-nil pointer"})
}

var gcSizes = types.SizesFor("gc", "amd64")

// structToLE lays out a struct of integer fields as little-endian bytes (gc/amd64 layout).
func (m *machine) structToLE(s structure, st *types.Struct) []value {
	n := int(gcSizes.Sizeof(st))
	out := make([]value, n)
	for i := range out {
		out[i] = uint64(0)
	}
	var fields []*types.Var
	for i := 0; i < st.NumFields(); i++ {
		fields = append(fields, st.Field(i))
	}
	offs := gcSizes.Offsetsof(fields)
	for i, f := range fields {
		w, _, ok := intInfo(f.Type())
		if !ok {
			panic(engineError{"structToLE: non-integer field " + f.Name()})
		}
		for b := 0; b < w/8; b++ {
			switch v := s[i].(type) {
			case uint64:
				out[int(offs[i])+b] = (v >> uint(8*b)) & 0xff
			case *Term:
				out[int(offs[i])+b] = fromTerm(m.ts.Extract(v, 8*b+7, 8*b))
			}
		}
	}
	return out
}

// leToStruct is the inverse of structToLE.
func (m *machine) leToStruct(b []value, st *types.Struct) structure {
	var fields []*types.Var
	for i := 0; i < st.NumFields(); i++ {
		fields = append(fields, st.Field(i))
	}
	offs := gcSizes.Offsetsof(fields)
	out := make(structure, len(fields))
	for i, f := range fields {
		w, _, ok := intInfo(f.Type())
		if !ok {
			panic(engineError{"leToStruct: non-integer field " + f.Name()})
		}
		out[i] = m.bytesToIntLE(b[offs[i]:int(offs[i])+w/8])
	}
	return out
}

func (m *machine) bytesToIntLE(b []value) value {
	allc := true
	for _, x := range b {
		if _, ok := x.(uint64); !ok {
			allc = false
		}
	}
	if allc {
		var v uint64
		for i, x := range b {
			v |= x.(uint64) << uint(8*i)
		}
		return v
	}
	var acc *Term
	for i := len(b) - 1; i >= 0; i-- {
		t := m.toTerm(b[i], 8)
		if acc == nil {
			acc = t
		} else {
			acc = m.ts.Concat(acc, t)
		}
	}
	return fromTerm(acc)
}

func (m *machine) intToBytesLE(v value, n int) []value {
	out := make([]value, n)
	for b := 0; b < n; b++ {
		switch x := v.(type) {
		case uint64:
			out[b] = (x >> uint(8*b)) & 0xff
		case *Term:
			out[b] = fromTerm(m.ts.Extract(x, 8*b+7, 8*b))
		}
	}
	return out
}

func init() {
	bp := "github.com/dgraph-io/badger/v4"
	registerLate(func() {
		intrinsics["("+bp+".valuePointer).Encode"] = func(fr *frame, a []value) value {
			st := fr.fn.Signature.Recv().Type().Underlying().(*types.Struct)
			return fr.m.structToLE(a[0].(structure), st)
		}
		intrinsics["(*"+bp+".valuePointer).Decode"] = func(fr *frame, a []value) value {
			st := deref(fr.fn.Signature.Recv().Type()).Underlying().(*types.Struct)
			b := a[1].([]value)
			n := int(gcSizes.Sizeof(st))
			if len(b) < n {
				fr.m.runtimePanic(fmt.Sprintf("slice bounds out of range [:%d] with capacity %d", n, len(b)))
			}
			store(a[0].(*value), fr.m.leToStruct(b[:n], st))
			return nil
		}
		// table block-entry header {overlap, diff uint16}
		intrinsics["("+bp+"/table.header).Encode"] = func(fr *frame, a []value) value {
			st := fr.fn.Signature.Recv().Type().Underlying().(*types.Struct)
			return fr.m.structToLE(a[0].(structure), st)
		}
		intrinsics["(*"+bp+"/table.header).Decode"] = func(fr *frame, a []value) value {
			st := deref(fr.fn.Signature.Recv().Type()).Underlying().(*types.Struct)
			b := a[1].([]value)
			n := int(gcSizes.Sizeof(st))
			if len(b) < n {
				fr.m.runtimePanic(fmt.Sprintf("slice bounds out of range [:%d] with capacity %d", n, len(b)))
			}
			store(a[0].(*value), fr.m.leToStruct(b[:n], st))
			return nil
		}
		intrinsics[bp+"/y.U32SliceToBytes"] = func(fr *frame, a []value) value {
			in := a[0].([]value)
			if len(in) == 0 {
				return []value(nil)
			}
			var out []value
			for _, x := range in {
				out = append(out, fr.m.intToBytesLE(x, 4)...)
			}
			return out
		}
		intrinsics[bp+"/y.BytesToU32Slice"] = func(fr *frame, a []value) value {
			in := a[0].([]value)
			if len(in) == 0 {
				return []value(nil)
			}
			out := make([]value, len(in)/4)
			for i := range out {
				out[i] = fr.m.bytesToIntLE(in[4*i : 4*i+4])
			}
			fr.m.E.noteCut("y.BytesToU32Slice returns a copy, not an aliasing view")
			return out
		}
	})
}

var lateInits []func()

func registerLate(f func()) { lateInits = append(lateInits, f) }

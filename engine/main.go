package main

import (
	"encoding/json"
	"flag"
	"fmt"
	"os"
	"path/filepath"
	"runtime"
	"runtime/pprof"
	"strings"
	"time"
)

type RunOutput struct {
	Repo        string           `json:"repo"`
	LoadS       float64          `json:"load_s"`
	Harnesses   []*HarnessResult `json:"harnesses"`
	Functions   []funcStat       `json:"functions_encoded"`
	Intrinsics  map[string]int   `json:"intrinsics"`
	Cuts        map[string]int   `json:"cuts"`
	UnknownMsgs map[string]int   `json:"unknown_msgs"`
	Config      Config           `json:"config"`
	Solver      string           `json:"solver"`
}

// buildOverlay maps harness sources into the repo tree (virtual files).
func buildOverlay(repo, hdir string) (map[string][]byte, error) {
	ov := map[string][]byte{}
	api, err := os.ReadFile(filepath.Join(hdir, "api.go.tmpl"))
	if err != nil {
		return nil, err
	}
	ents, err := os.ReadDir(hdir)
	if err != nil {
		return nil, err
	}
	for _, e := range ents {
		if !e.IsDir() {
			continue
		}
		rel := e.Name()
		pkgName := rel
		target := filepath.Join(repo, rel)
		if rel == "badger" {
			target = repo
		}
		files, _ := filepath.Glob(filepath.Join(hdir, rel, "*.go"))
		n := 0
		for _, f := range files {
			if strings.HasSuffix(f, "_test.go") {
				continue
			}
			b, err := os.ReadFile(f)
			if err != nil {
				return nil, err
			}
			ov[filepath.Join(target, filepath.Base(f))] = b
			n++
		}
		if n > 0 {
			ov[filepath.Join(target, "zz_verif_api.go")] = []byte(strings.Replace(string(api), "package PKG", "package "+pkgName, 1))
		}
	}
	return ov, nil
}

func main() {
	repo := flag.String("repo", "/repo", "repository root")
	hdir := flag.String("harness-dir", "/verif/harness", "harness sources")
	run := flag.String("run", "", "comma-separated harnesses pkg.Func")
	out := flag.String("out", "", "result JSON path")
	workers := flag.Int("workers", runtime.NumCPU(), "workers")
	maxPaths := flag.Int("max-paths", 200000, "path budget per harness")
	maxDec := flag.Int("max-decisions", 400, "decision bound per path")
	maxSteps := flag.Int64("max-steps", 5000000, "SSA instruction bound per path")
	timeout := flag.Int("timeout", 600, "seconds per harness")
	models := flag.Int("models", 20, "completed paths sampled with a model (native replay)")
	solver := flag.String("solver", "lib timeout=120000", "solver: `lib [opt=val ...]` = in-process libz3, or an external command such as `z3 -in -t:20000`")
	known := flag.String("known", "/verif/known_findings.json", "known findings file")
	seed := flag.Int64("seed", 0, "seed")
	verbose := flag.Bool("v", false, "verbose")
	params := flag.String("params", "", "harness parameters k=v,k=v (vpParam)")
	cpuprof := flag.String("cpuprofile", "", "write CPU profile")
	specFile := flag.String("spec", "", "JSON file: list of {harness, params, max-paths, max-decisions, max-steps, timeout, models}; run in order after one program load")
	replayModel := flag.String("replay-model", "", "JSON file with {inputs:[...]}: run the harness concretely on this model")
	flag.Parse()

	for _, f := range lateInits {
		f()
	}
	t0 := time.Now()
	ov, err := buildOverlay(*repo, *hdir)
	if err != nil {
		fmt.Fprintln(os.Stderr, "overlay:", err)
		os.Exit(3)
	}
	pats := []string{"./...",}
	_ = pats
	E, err := loadProgram(*repo, ov, []string{".", "./y", "./table", "./skl", "./trie"})
	if err != nil {
		fmt.Fprintln(os.Stderr, "load:", err)
		os.Exit(3)
	}
	E.cfg = Config{MaxSteps: *maxSteps, MaxDecisions: *maxDec, MaxAlloc: 1 << 16, MaxSymIndex: 4096, MaxConcretize: 64,
		MaxPaths: *maxPaths, Workers: *workers, SolverArgv: strings.Fields(*solver), TimeoutS: *timeout, Verbose: *verbose,
		ModelSamples: *models, Seed: *seed}
	E.openFindings = loadKnown(*known)
	E.params = map[string]int64{}
	for _, kv := range strings.Split(*params, ",") {
		if i := strings.Index(kv, "="); i > 0 {
			var n int64
			fmt.Sscan(kv[i+1:], &n)
			E.params[strings.TrimSpace(kv[:i])] = n
		}
	}
	if *replayModel != "" {
		b, err := os.ReadFile(*replayModel)
		if err != nil {
			fmt.Fprintln(os.Stderr, err)
			os.Exit(3)
		}
		var doc struct {
			Inputs []modelInput `json:"inputs"`
		}
		if err := json.Unmarshal(b, &doc); err != nil {
			fmt.Fprintln(os.Stderr, err)
			os.Exit(3)
		}
		E.replayModel = doc.Inputs
		if E.replayModel == nil {
			E.replayModel = []modelInput{}
		}
		E.cfg.Workers = 1
	}
	loadS := time.Since(t0).Seconds()
	if *cpuprof != "" {
		pf, _ := os.Create(*cpuprof)
		pprof.StartCPUProfile(pf)
		defer pprof.StopCPUProfile()
	}
	solverDesc := *solver
	if strings.HasPrefix(*solver, "lib") {
		solverDesc = "libz3 " + libZ3Version() + " in-process via Z3_eval_smtlib2_string (SMT-LIB2 text, push/pop per path), options: " + strings.TrimSpace(strings.TrimPrefix(*solver, "lib"))
	}
	ro := RunOutput{Repo: *repo, LoadS: loadS, Config: E.cfg, Solver: solverDesc}
	// -spec: one program load serves many harness runs, each with its own parameters and budgets
	type runSpec struct {
		Harness      string `json:"harness"`
		Params       string `json:"params"`
		MaxPaths     int    `json:"max-paths"`
		MaxDecisions int    `json:"max-decisions"`
		MaxSteps     int64  `json:"max-steps"`
		Timeout      int    `json:"timeout"`
		Models       *int   `json:"models"`
	}
	var specs []runSpec
	if *specFile != "" {
		b, err := os.ReadFile(*specFile)
		if err != nil {
			fmt.Fprintln(os.Stderr, err)
			os.Exit(3)
		}
		if err := json.Unmarshal(b, &specs); err != nil {
			fmt.Fprintln(os.Stderr, "spec:", err)
			os.Exit(3)
		}
	}
	for _, h := range strings.Split(*run, ",") {
		if h = strings.TrimSpace(h); h != "" {
			specs = append(specs, runSpec{Harness: h, Params: *params})
		}
	}
	baseCfg := E.cfg
	for _, sp := range specs {
		h := sp.Harness
		E.cfg = baseCfg
		if sp.MaxPaths > 0 {
			E.cfg.MaxPaths = sp.MaxPaths
		}
		if sp.MaxDecisions > 0 {
			E.cfg.MaxDecisions = sp.MaxDecisions
		}
		if sp.MaxSteps > 0 {
			E.cfg.MaxSteps = sp.MaxSteps
		}
		if sp.Timeout > 0 {
			E.cfg.TimeoutS = sp.Timeout
		}
		if sp.Models != nil {
			E.cfg.ModelSamples = *sp.Models
		}
		E.params = map[string]int64{}
		for _, kv := range strings.Split(sp.Params, ",") {
			if i := strings.Index(kv, "="); i > 0 {
				var n int64
				fmt.Sscan(kv[i+1:], &n)
				E.params[strings.TrimSpace(kv[:i])] = n
			}
		}
		res, err := E.RunHarness(h)
		if err != nil {
			fmt.Fprintln(os.Stderr, "harness", h, ":", err)
			os.Exit(3)
		}
		ro.Harnesses = append(ro.Harnesses, res)
		fmt.Fprintf(os.Stderr, "[%s] paths=%d done=%d killed=%d errors=%d panics=%d viol=%d unknown=%d queries=%d solver=%.1fs wall=%.1fs trunc=%v\n",
			h, res.Paths, res.Done, res.Killed, res.Errors, res.Panics, len(res.Violations), res.Unknowns, res.SolverQueries, res.SolverS, res.WallS, res.Truncated)
		for msg, n := range res.ErrorMsgs {
			fmt.Fprintf(os.Stderr, "   error x%d: %s\n", n, msg)
		}
		for i, v := range res.Violations {
			if i < 5 {
				fmt.Fprintf(os.Stderr, "   violation %s (%s) at %s: %s\n", v.AssertID, v.Kind, v.Pos, v.Msg)
			}
		}
	}
	ro.Functions = E.repoFuncs()
	ro.Intrinsics = E.intrSeen
	ro.Cuts = E.cuts
	ro.UnknownMsgs = E.unknownMsg
	if *out != "" {
		if err := writeJSON(*out, ro); err != nil {
			fmt.Fprintln(os.Stderr, err)
			os.Exit(3)
		}
	} else {
		b, _ := json.MarshalIndent(ro, "", " ")
		os.Stdout.Write(b)
	}
}

func loadKnown(path string) map[string]bool {
	out := map[string]bool{}
	b, err := os.ReadFile(path)
	if err != nil {
		return out
	}
	var doc struct {
		Findings []struct {
			Key    string `json:"key"`
			Status string `json:"status"`
		} `json:"findings"`
	}
	if json.Unmarshal(b, &doc) != nil {
		return out
	}
	for _, f := range doc.Findings {
		if f.Status == "open" {
			out[f.Key] = true
		}
	}
	return out
}

package main

// One-shot second attempt for an assertion the incremental solver process answered `unknown`.
//
// The per-worker `z3 -in` process runs in incremental mode (push/pop), where z3 does not apply
// its bit-blasting tactic; pure bit-vector obligations such as the CRC one-step lemmas (a 256-way
// ite table lookup) take 20+ s there but < 2 s as a stand-alone script. oneShotCheck re-states
// path condition ∧ extra as a self-contained SMT-LIB script and runs a fresh solver process on it.
// Only the answer `unsat` is used (it upgrades unknown -> holds); sat/unknown leave the result as
// it was (a model would have to be read back, and the incremental process normally finds those).

import (
	"bytes"
	"os"
	"os/exec"
	"strconv"
	"strings"
	"time"
)

const oneShotTimeoutS = 120

func (m *machine) oneShotCheck(extra ...*Term) SatResult {
	var sb, lets strings.Builder
	nlets := 0
	defined := map[int]bool{}
	ufDecl := map[string]bool{}
	var emit func(t *Term)
	emit = func(t *Term) {
		type fr struct {
			t *Term
			i int
		}
		if defined[t.ID] || t.Op == OpConst {
			return
		}
		stack := []fr{{t, 0}}
		for len(stack) > 0 {
			f := &stack[len(stack)-1]
			if f.i < len(f.t.Args) {
				a := f.t.Args[f.i]
				f.i++
				if !defined[a.ID] && a.Op != OpConst {
					stack = append(stack, fr{a, 0})
				}
				continue
			}
			n := f.t
			stack = stack[:len(stack)-1]
			if defined[n.ID] {
				continue
			}
			defined[n.ID] = true
			if n.Op == OpVar {
				sb.WriteString("(declare-const " + n.Name + " " + sortName(n.W) + ")\n")
				continue
			}
			if n.Op == OpUF && !ufDecl[n.Name] {
				ufDecl[n.Name] = true
				sb.WriteString(m.ts.ufs[n.Name] + "\n")
			}
			// one nested let per shared subterm: z3 handles this form ~10x faster than a chain of
			// define-fun macros (measured on the CRC lemmas: 2.7 s vs 28 s)
			lets.WriteString("(let ((t" + strconv.Itoa(n.ID) + " " + n.smtExpr() + ")) ")
			nlets++
		}
	}
	var conj strings.Builder
	conj.WriteString("(and true")
	for _, c := range m.pc {
		emit(c)
		conj.WriteString(" " + c.ref())
	}
	for _, c := range extra {
		emit(c)
		conj.WriteString(" " + c.ref())
	}
	conj.WriteString(")")
	sb.WriteString("(assert " + lets.String() + conj.String() + strings.Repeat(")", nlets) + ")\n")
	sb.WriteString("(check-sat)\n")
	argv0 := "z3"
	if len(m.E.cfg.SolverArgv) > 0 && m.E.cfg.SolverArgv[0] != "lib" {
		argv0 = m.E.cfg.SolverArgv[0]
	}
	cmd := exec.Command(argv0, "-in", "-T:"+strconv.Itoa(oneShotTimeoutS))
	if d := os.Getenv("GOSYM_ONESHOT_DUMP"); d != "" {
		os.WriteFile(d+"/oneshot-"+strconv.Itoa(m.wid)+"-"+strconv.Itoa(m.sol.Queries)+".smt2", []byte(sb.String()), 0o644)
	}
	cmd.Stdin = strings.NewReader(sb.String())
	var out bytes.Buffer
	cmd.Stdout = &out
	cmd.Stderr = &out
	t0 := time.Now()
	_ = cmd.Run()
	m.sol.Queries++
	m.sol.Time += time.Since(t0)
	for _, l := range strings.Split(out.String(), "\n") {
		switch strings.TrimSpace(l) {
		case "unsat":
			return Unsat
		case "sat":
			return Sat
		}
	}
	return Unknown
}

// assertCheck decides sat(pc ∧ nc) for vpAssert. vpConfig("oneshot", 1) makes the stand-alone
// solver run the first attempt (for harnesses whose obligations are known to be hard for the
// incremental process); otherwise it is the fallback after `unknown`.
func (m *machine) assertCheck(nc *Term) SatResult {
	if v, _ := m.userState["solver.oneshot"].(int); v == 1 {
		if m.oneShotCheck(nc) == Unsat {
			return Unsat
		}
		return m.sol.Check(m.ts, nc)
	}
	r := m.sol.Check(m.ts, nc)
	if r == Unknown {
		m.sol.PopCheck()
		if m.oneShotCheck(nc) == Unsat {
			m.E.noteCut("assertion decided by the one-shot solver run after the incremental process answered unknown")
			return Unsat
		}
	}
	return r
}

func init() {
	registerLate(func() {
		vpConfigExt["oneshot"] = func(m *machine, val int) { m.userState["solver.oneshot"] = val }
	})
}

package main

// The vp* harness API as seen by the engine. The same functions have native
// bodies (generated into each harness package) used for native replay.

import (
	"fmt"
	"go/types"
	"strings"

	"golang.org/x/tools/go/ssa"
)

type vpFunc func(fr *frame, args []value) value

var vpFuncs map[string]vpFunc

func init() {
	vpFuncs = map[string]vpFunc{
		"vpU8":           func(fr *frame, a []value) value { return fr.m.newInput(a[0], 8, "u8") },
		"vpU16":          func(fr *frame, a []value) value { return fr.m.newInput(a[0], 16, "u16") },
		"vpU32":          func(fr *frame, a []value) value { return fr.m.newInput(a[0], 32, "u32") },
		"vpU64":          func(fr *frame, a []value) value { return fr.m.newInput(a[0], 64, "u64") },
		"vpInt":          func(fr *frame, a []value) value { return fr.m.newInput(a[0], 64, "u64") },
		"vpBool":         func(fr *frame, a []value) value { return fr.m.newInput(a[0], 0, "bool") },
		"vpBytes":        vpBytes,
		"vpChoose":       vpChoose,
		"vpAssume":       vpAssume,
		"vpAssert":       vpAssert,
		"vpAssertKnown":  vpAssertKnown,
		"vpCover":        vpCover,
		"vpDone":         func(fr *frame, a []value) value { panic(pathEnd{"done"}) },
		"vpIteU64":       func(fr *frame, a []value) value { return fr.m.ite(a[0], a[1], a[2], 64) },
		"vpIteU32":       func(fr *frame, a []value) value { return fr.m.ite(a[0], a[1], a[2], 32) },
		"vpIteU8":        func(fr *frame, a []value) value { return fr.m.ite(a[0], a[1], a[2], 8) },
		"vpIteInt":       func(fr *frame, a []value) value { return fr.m.ite(a[0], a[1], a[2], 64) },
		"vpIteBool":      func(fr *frame, a []value) value { return fr.m.ite(a[0], a[1], a[2], 0) },
		"vpAnd":          func(fr *frame, a []value) value { return fr.m.and(a[0], a[1]) },
		"vpOr":           func(fr *frame, a []value) value { return fr.m.not(fr.m.and(fr.m.not(a[0]), fr.m.not(a[1]))) },
		"vpNot":          func(fr *frame, a []value) value { return fr.m.not(a[0]) },
		"vpImplies":      func(fr *frame, a []value) value { return fr.m.not(fr.m.and(a[0], fr.m.not(a[1]))) },
		"vpStub":         vpStub,
		"vpObserveU64":   func(fr *frame, a []value) value { fr.m.observe(a[0], a[1]); return nil },
		"vpObserveBool":  func(fr *frame, a []value) value { fr.m.observe(a[0], a[1]); return nil },
		"vpObserveBytes": func(fr *frame, a []value) value { fr.m.observe(a[0], append([]value{}, a[1].([]value)...)); return nil },
		"vpExpectPanic":  func(fr *frame, a []value) value { fr.m.expectPanic = true; return nil },
		"vpPanicID":      func(fr *frame, a []value) value { fr.m.userState["panic_id"] = goString(a[0]); return nil },
		"vpConfig":       vpConfig,
		"vpEvent":        func(fr *frame, a []value) value { fr.m.event(goString(a[0])); return nil },
		"vpYield":        func(fr *frame, a []value) value { fr.m.yield(); return nil },
		"vpUF":           vpUF,
		"vpParam":        vpParam,
		"vpSymbolic":     func(fr *frame, a []value) value { return true },
		"vpIsConcrete":   func(fr *frame, a []value) value { return !containsSym(a[0]) },
	}
}

func (m *machine) replayNext(name, kind string) (uint64, bool) {
	if m.E.replayModel == nil {
		return 0, false
	}
	if m.replayPos >= len(m.E.replayModel) {
		panic(engineError{"replay: model exhausted at input " + name})
	}
	in := m.E.replayModel[m.replayPos]
	m.replayPos++
	if in.Name != name || in.Kind != kind {
		panic(engineError{fmt.Sprintf("replay: input #%d is %s %q in the model, harness asked %s %q", m.replayPos-1, in.Kind, in.Name, kind, name)})
	}
	m.inputs = append(m.inputs, inputRec{Name: name, Kind: kind, Conc: in.Value})
	return in.Value, true
}

func (m *machine) newInput(name value, w int, kind string) value {
	if v, ok := m.replayNext(goString(name), kind); ok {
		if w == 0 {
			return v != 0
		}
		return v & mask(w)
	}
	m.inputSeq++
	n := fmt.Sprintf("in%d_%s", m.inputSeq, sanitize(goString(name)))
	t := m.ts.Var(n, w)
	m.inputs = append(m.inputs, inputRec{Name: goString(name), Kind: kind, W: w, term: t, IsSym: true})
	return t
}

func sanitize(s string) string {
	var sb strings.Builder
	for _, c := range s {
		if (c >= 'a' && c <= 'z') || (c >= 'A' && c <= 'Z') || (c >= '0' && c <= '9') || c == '_' {
			sb.WriteRune(c)
		} else {
			sb.WriteByte('_')
		}
	}
	return sb.String()
}

func vpBytes(fr *frame, a []value) value {
	m := fr.m
	n := int(m.concInt(a[1], 64, "vpBytes length"))
	out := make([]value, n)
	name := goString(a[0])
	for i := range out {
		out[i] = m.newInput(fmt.Sprintf("%s[%d]", name, i), 8, "u8")
	}
	return out
}

func vpChoose(fr *frame, a []value) value {
	m := fr.m
	n := int(m.concInt(a[1], 64, "vpChoose n"))
	if v, ok := m.replayNext(goString(a[0]), "choose"); ok {
		return v
	}
	k := m.choose(n, goString(a[0]))
	m.inputs = append(m.inputs, inputRec{Name: goString(a[0]), Kind: "choose", Conc: uint64(k)})
	return uint64(k)
}

// vpParam(name, default): a harness bound set from the command line (-params a=1,b=2);
// recorded among the inputs so that native replay uses the same value.
func vpParam(fr *frame, a []value) value {
	m := fr.m
	name := goString(a[0])
	if v, ok := m.replayNext(name, "param"); ok {
		return v
	}
	v := u64(a[1])
	if pv, ok := m.E.params[name]; ok {
		v = uint64(pv)
	}
	m.inputs = append(m.inputs, inputRec{Name: name, Kind: "param", Conc: v})
	return v
}

func vpAssume(fr *frame, a []value) value {
	m := fr.m
	m.flushDeferred() // assumptions are not retroactive
	switch c := a[0].(type) {
	case bool:
		if !c {
			panic(pathEnd{"assumption false"})
		}
	case *Term:
		// must remain feasible
		if v, ok := m.evalUnderModel(c); ok && v == 1 {
			m.addPC(c)
			return nil
		}
		r := m.feasible(c)
		if r == Unsat {
			panic(pathEnd{"assumption infeasible"})
		}
		if r == Unknown {
			m.branchUnknowns++ // the assumption is taken as satisfiable (over-approximation, see decide)
			m.E.noteUnknown("assume feasibility unknown, taken as feasible")
		}
		m.addPC(c)
		if v, ok := m.evalUnderModel(c); !ok || v != 1 {
			m.modelOK = false
		}
	}
	return nil
}

func (m *machine) recordViolation(id, pos, kind, msg string, extra ...*Term) bool {
	in, obs, ok := m.pathModel(extra...)
	if !ok {
		return false
	}
	m.viols = append(m.viols, violation{AssertID: id, Pos: pos, Kind: kind, Msg: msg, Decisions: decInts(m.decisions),
		prefix: append([]dec(nil), m.decisions...), Inputs: in, Observed: obs, Harness: m.H.Name})
	return true
}

func vpAssert(fr *frame, a []value) value {
	m := fr.m
	id := goString(a[1])
	pos := m.pos(fr.callPos)
	switch c := a[0].(type) {
	case bool:
		if c {
			m.asserts = append(m.asserts, assertRec{ID: id, Pos: pos, Result: "concrete-true"})
		} else {
			if m.recordViolation(id, pos, "assert", "assertion is concretely false on this path") {
				m.asserts = append(m.asserts, assertRec{ID: id, Pos: pos, Result: "concrete-false"})
			}
			panic(pathEnd{"assertion failed"})
		}
	case *Term:
		if m.deferAssert(id, pos, c) { // intr_defer.go: vpConfig("defer-asserts",1)
			return nil
		}
		nc := m.ts.Not(c)
		r := m.assertCheck(nc) // solver_oneshot.go: incremental check, one-shot retry on unknown
		switch r {
		case Unsat:
			m.sol.PopCheck()
			m.asserts = append(m.asserts, assertRec{ID: id, Pos: pos, Result: "holds"})
			m.addPC(c)
		case Unknown:
			m.sol.PopCheck()
			m.unknowns++
			m.E.noteUnknown("assertion " + id + ": solver unknown")
			m.asserts = append(m.asserts, assertRec{ID: id, Pos: pos, Result: "unknown"})
			m.addPC(c)
			m.modelOK = false
		case Sat:
			m.sol.PopCheck()
			m.recordViolation(id, pos, "assert", "assertion can fail", nc)
			m.asserts = append(m.asserts, assertRec{ID: id, Pos: pos, Result: "violated"})
			// continue under c if feasible
			if m.feasible(c) == Unsat {
				panic(pathEnd{"assertion always fails on this path"})
			}
			m.addPC(c)
		}
	}
	return nil
}

// vpAssertKnown(c, id, k, key): like vpAssert, but violations inside class k are
// reported as the known finding `key` when that key is listed as open.
func vpAssertKnown(fr *frame, a []value) value {
	m := fr.m
	id := goString(a[1])
	key := goString(a[3])
	if !m.E.openFindings[key] {
		return vpAssert(fr, a[:2])
	}
	pos := m.pos(fr.callPos)
	c := m.toTerm(a[0], 0)
	k := m.toTerm(a[2], 0)
	nc := m.ts.Not(c)
	// known class
	rk := m.sol.Check(m.ts, nc, k)
	m.sol.PopCheck()
	if rk == Sat {
		m.recordViolation("KNOWN:"+key+":"+id, pos, "known", "known finding "+key, nc, k)
		m.asserts = append(m.asserts, assertRec{ID: id, Pos: pos, Result: "holds"})
	}
	// outside the class
	ro := m.sol.Check(m.ts, nc, m.ts.Not(k))
	m.sol.PopCheck()
	switch ro {
	case Sat:
		m.recordViolation(id, pos, "assert", "assertion can fail outside known class "+key, nc, m.ts.Not(k))
		m.asserts = append(m.asserts, assertRec{ID: id, Pos: pos, Result: "violated"})
	case Unknown:
		m.unknowns++
		m.asserts = append(m.asserts, assertRec{ID: id, Pos: pos, Result: "unknown"})
	default:
		if rk != Sat {
			m.asserts = append(m.asserts, assertRec{ID: id, Pos: pos, Result: "holds"})
		}
	}
	if isFalse(c) {
		panic(pathEnd{"assertion failed"})
	}
	if c.Op != OpConst {
		if m.feasible(c) == Unsat {
			panic(pathEnd{"assertion always fails on this path"})
		}
		m.addPC(c)
	}
	return nil
}

func vpCover(fr *frame, a []value) value {
	fr.m.covers[goString(a[0])] = true
	return nil
}

func (m *machine) ite(c, a, b value, w int) value {
	switch cc := c.(type) {
	case bool:
		if cc {
			return a
		}
		return b
	case *Term:
		return fromTerm(m.ts.Ite(cc, m.toTerm(a, w), m.toTerm(b, w)))
	}
	panic("ite")
}

func (m *machine) observe(name value, v value) {
	m.obs = append(m.obs, observation{Name: goString(name), Val: v})
}

func vpStub(fr *frame, a []value) value {
	name := goString(a[0])
	itf := a[1].(iface)
	m := fr.m
	// resolve name: allow short form with "badger." prefix replaced
	full := m.E.resolveFuncName(name)
	if full == "" {
		panic(engineError{"vpStub: no function named " + name})
	}
	m.stubs[full] = itf.v
	return nil
}

func (E *Engine) resolveFuncName(name string) string {
	E.mu.Lock()
	defer E.mu.Unlock()
	if E.funcByName == nil {
		E.funcByName = map[string]*ssa.Function{}
		for fn := range ssautilAllFunctions(E.prog) {
			E.funcByName[fn.String()] = fn
		}
	}
	cands := []string{name,
		strings.ReplaceAll(name, "badger.", "github.com/dgraph-io/badger/v4."),
		strings.ReplaceAll(name, "badger/", "github.com/dgraph-io/badger/v4/"),
	}
	for _, c := range cands {
		if _, ok := E.funcByName[c]; ok {
			return c
		}
	}
	return ""
}

func vpConfig(fr *frame, a []value) value {
	m := fr.m
	key := goString(a[0])
	val := int(m.concInt(a[1], 64, "vpConfig"))
	switch key {
	case "maporder":
		m.mapOrderNondet = val != 0
	case "go":
		m.goMode = [...]string{"spawn", "skip", "inline"}[val]
	case "sched":
		m.schedNondet = val != 0
	case "select":
		m.selectNondet = val != 0
	default:
		if f := vpConfigExt[key]; f != nil { // keys registered by intr_*.go files
			f(m, val)
			return nil
		}
		panic(engineError{"vpConfig: unknown key " + key})
	}
	return nil
}

// vpUF(name string, w int, args ...uint64) uint64
func vpUF(fr *frame, a []value) value {
	m := fr.m
	name := "uf_" + sanitize(goString(a[0]))
	w := int(m.concInt(a[1], 64, "vpUF width"))
	var ts []*Term
	for _, x := range a[2].([]value) {
		ts = append(ts, m.toTerm(x, 64))
	}
	t := m.ts.UF(name, w, ts...)
	return fromTerm(m.ts.Zext(t, 64))
}

var _ = types.Typ

package main

// proto.Marshal / proto.Unmarshal for *pb.Checksum (the protobuf container around the block and
// index checksums of an SSTable: table.Builder.calculateChecksum, Table.initIndex,
// Block.verifyCheckSum). Protobuf itself (reflection, unsafe) is not executed; the model emits
// the REAL proto3 wire bytes of this two-field message:
//
//	Algo (enum, field 1, varint)  -> 0x08 varint(algo)   omitted when 0 (CRC32C)
//	Sum  (uint64, field 2, varint)-> 0x10 varint(sum)    omitted when 0
//
// The byte length of varint(sum) depends on the value of the sum, and slice lengths are concrete in
// the engine, so a symbolic sum needs a decision. Two modes, vpConfig("pbchecksum", mode):
//
//	0 (default) exact: fork over every feasible encoded length (0, 2..11 bytes; 6 ways for CRC32C)
//	k>0         restrict: only sums whose varint has exactly k bytes are considered (the others are
//	            assumed away and listed as a cut). Exact real bytes on that subset; used where the
//	            6-fold fork per block is not affordable. k=5 is the common case for CRC32C
//	            (15/16 of all values).
//
// Unmarshal accepts exactly the canonical encodings above (what Marshal produces). Any other
// byte string is answered with an opaque error and noted as a cut: the real decoder accepts more
// (non-minimal varints, unknown fields, repeated fields) - that is outside the model.
//
// Other message types can be added by registering a codec in protoCodecs (keyed by the pointer
// type's string); a harness vpStub of proto.Marshal takes precedence over this intrinsic.

import (
	"fmt"
	"go/types"
)

type protoCodec struct {
	marshal   func(fr *frame, msg *value) value           // -> tuple{[]byte, error}
	unmarshal func(fr *frame, b []value, msg *value) value // -> error
}

var protoCodecs = map[string]protoCodec{}

func protoErr(m *machine, msg string) value {
	var s value = structure{msg}
	return iface{t: types.NewPointer(m.namedType("errors", "errorString")), v: &s}
}

// varintLen(t) as a 64-bit term, t of width 64.
func (m *machine) varintLenTerm(t *Term) *Term {
	res := m.ts.Const(64, 10)
	for n := 9; n >= 1; n-- {
		res = m.ts.Ite(m.ts.Cmp(OpUlt, t, m.ts.Const(64, uint64(1)<<uint(7*n))), m.ts.Const(64, uint64(n)), res)
	}
	return res
}

// varintBytes emits the n-byte varint of v (n must be its true length under the path condition).
// Continuation bits are syntactic constants so that a later decode needs no solver call.
func (m *machine) varintBytes(v value, n int) []value {
	out := make([]value, n)
	switch x := v.(type) {
	case uint64:
		for i := 0; i < n; i++ {
			b := (x >> uint(7*i)) & 0x7f
			if i < n-1 {
				b |= 0x80
			}
			out[i] = b
		}
	case *Term:
		t := m.ts.Zext(x, 64)
		if 7*n > 64 {
			t = m.ts.Zext(x, 70)
		}
		for i := 0; i < n; i++ {
			cont := uint64(0)
			if i < n-1 {
				cont = 1
			}
			// mk, not Extract: keep the slice syntactically on t so that varintBase can invert it
			sl := m.ts.mk(OpExtract, 7, uint64(7*i+6)<<8|uint64(7*i), "", t)
			out[i] = fromTerm(m.ts.mk(OpConcat, 8, 0, "", m.ts.Const(1, cont), sl))
		}
	}
	return out
}

// varintBase recognises the byte terms emitted by varintBytes for a symbolic value and returns
// the 70-bit base term (nil if the bytes are anything else).
func (m *machine) varintBase(b []value) *Term {
	var base *Term
	for i, x := range b {
		t, ok := x.(*Term)
		if !ok || t.Op != OpConcat || t.W != 8 {
			return nil
		}
		c, e := t.Args[0], t.Args[1]
		want := uint64(1)
		if i == len(b)-1 {
			want = 0
		}
		if c.Op != OpConst || c.W != 1 || c.C != want || e.W != 7 {
			return nil
		}
		if e.Op != OpExtract || int(e.C>>8) != 7*i+6 || int(e.C&0xff) != 7*i {
			return nil
		}
		if base == nil {
			base = e.Args[0]
		} else if base != e.Args[0] {
			return nil
		}
	}
	if base == nil || (base.W != 70 && base.W != 64) {
		return nil
	}
	return base
}

func concVarintLen(x uint64) int {
	n := 1
	for x >= 0x80 {
		x >>= 7
		n++
	}
	return n
}

func init() {
	registerLate(func() {
		vpConfigExt["pbchecksum"] = func(m *machine, val int) {
			if val < 0 || val > 10 {
				panic(engineError{"vpConfig(\"pbchecksum\", k): k must be 0 (exact, forks) or 1..10 (restrict to k-byte varints)"})
			}
			m.userState["pbchecksum.mode"] = val
		}
		const ckey = "*github.com/dgraph-io/badger/v4/pb.Checksum"
		protoCodecs[ckey] = protoCodec{
			marshal: func(fr *frame, msg *value) value {
				m := fr.m
				st := (*msg).(structure)
				algo, sum := st[3], st[4]
				var out []value
				if a, ok := algo.(uint64); !ok {
					panic(engineError{"proto.Marshal(pb.Checksum): symbolic Algo"})
				} else if uint32(a) != 0 {
					out = append(out, uint64(0x08))
					out = append(out, m.varintBytes(uint64(uint32(a)), concVarintLen(uint64(uint32(a))))...)
				}
				switch s := sum.(type) {
				case uint64:
					if s != 0 {
						out = append(out, uint64(0x10))
						out = append(out, m.varintBytes(s, concVarintLen(s))...)
					}
				case *Term:
					mode, _ := m.userState["pbchecksum.mode"].(int)
					n := 0
					if mode > 0 {
						// the assumption 2^(7(k-1)) <= sum < 2^(7k) is recorded, not conjoined to the path
						// condition: under the uninterpreted CRC nothing else constrains the sum, and a
						// range constraint on a chain of several hundred crcstep applications makes every
						// later solver query of the path an order of magnitude slower. For sums outside the
						// range the bytes emitted here are the zero-padded k-byte varint (accepted by every
						// protobuf decoder, same value) - such paths are outside the claim, and a model
						// taken from one is rejected by native replay, never reported as a finding.
						m.E.noteCut(fmt.Sprintf("pb.Checksum: sums assumed to have a %d-byte varint (vpConfig pbchecksum=%d); fixes the checksum container length, nothing else", mode, mode))
						n = mode
					} else {
						isZero := m.ts.Eq(s, m.ts.Const(64, 0))
						lt := m.ts.Ite(isZero, m.ts.Const(64, 0), m.varintLenTerm(s))
						n = int(m.concretize(lt, "pb.Checksum varint length of Sum"))
					}
					if n > 0 {
						out = append(out, uint64(0x10))
						out = append(out, m.varintBytes(s, n)...)
					}
				default:
					panic(engineError{fmt.Sprintf("proto.Marshal(pb.Checksum): Sum is %T", sum)})
				}
				if out == nil {
					out = []value{}
				}
				return tuple{out, iface{}}
			},
			unmarshal: func(fr *frame, b []value, msg *value) value {
				m := fr.m
				st := (*msg).(structure)
				// proto.Unmarshal resets the message first
				st[3], st[4] = uint64(0), uint64(0)
				pos := 0
				bad := func(why string) value {
					m.E.noteCut("proto.Unmarshal(pb.Checksum) on non-canonical bytes (" + why + "): modelled as an error")
					return protoErr(m, "proto: cannot parse invalid wire-format data")
				}
				is := func(v value, c uint64) bool {
					switch x := v.(type) {
					case uint64:
						return x == c
					case *Term:
						return m.decide(m.ts.Eq(x, m.ts.Const(8, c)), "pb tag")
					}
					return false
				}
				// reads a canonical varint occupying b[pos:end] (continuation bit set on all but the last byte)
				readVar := func(end int) (value, bool) {
					if end-pos < 1 || end-pos > 10 {
						return nil, false
					}
					// the bytes Marshal produced: cont-bit ++ base[7i+6:7i] of one base term -> base itself
					if base := m.varintBase(b[pos:end]); base != nil {
						pos = end
						if base.W == 64 {
							return fromTerm(base), true
						}
						if base.Op == OpZext && base.Args[0].W <= 64 {
							return fromTerm(m.ts.Zext(base.Args[0], 64)), true
						}
						return fromTerm(m.ts.Extract(base, 63, 0)), true
					}
					acc := m.ts.Const(70, 0)
					for i := pos; i < end; i++ {
						t := m.toTerm(b[i], 8)
						top := m.ts.Extract(t, 7, 7)
						want := uint64(1)
						if i == end-1 {
							want = 0
						}
						if !m.decide(m.ts.Eq(top, m.ts.Const(1, want)), "pb varint continuation bit") {
							return nil, false
						}
						sh := uint(7 * (i - pos))
						acc = m.ts.Bin(OpBvOr, acc, m.ts.Bin(OpBvShl, m.ts.Zext(m.ts.Extract(t, 6, 0), 70), m.ts.Const(70, uint64(sh))))
					}
					pos = end
					return fromTerm(m.ts.Extract(acc, 63, 0)), true
				}
				if len(b) == 0 {
					return iface{}
				}
				if is(b[pos], 0x08) {
					// Algo: single byte enum value (1 = XXHash64) followed by the optional Sum field
					if len(b) < 2 {
						return bad("truncated Algo")
					}
					pos++
					v, ok := readVar(pos + 1)
					if !ok {
						return bad("Algo varint")
					}
					if c, okc := v.(uint64); okc {
						st[3] = uint64(uint32(c))
					} else {
						st[3] = fromTerm(m.ts.Extract(m.toTerm(v, 64), 31, 0))
					}
					if pos == len(b) {
						return iface{}
					}
				}
				if !is(b[pos], 0x10) {
					return bad("tag")
				}
				pos++
				v, ok := readVar(len(b))
				if !ok {
					return bad("Sum varint")
				}
				st[4] = v
				return iface{}
			},
		}
		intrinsics["google.golang.org/protobuf/proto.Marshal"] = func(fr *frame, a []value) value {
			itf := a[0].(iface)
			if itf.t == nil {
				return tuple{[]value(nil), iface{}}
			}
			c, ok := protoCodecs[itf.t.String()]
			if !ok {
				panic(engineError{"proto.Marshal: no model for message type " + itf.t.String() + " (stub it with vpStub or register a codec in protoCodecs)"})
			}
			return c.marshal(fr, itf.v.(*value))
		}
		intrinsics["google.golang.org/protobuf/proto.Unmarshal"] = func(fr *frame, a []value) value {
			itf := a[1].(iface)
			c, ok := protoCodecs[itf.t.String()]
			if !ok {
				panic(engineError{"proto.Unmarshal: no model for message type " + itf.t.String() + " (stub it with vpStub or register a codec in protoCodecs)"})
			}
			b, _ := a[0].([]value)
			return c.unmarshal(fr, b, itf.v.(*value))
		}
	})
}

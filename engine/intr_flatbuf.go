package main

// flatbuffers.NewBuilder(initialSize): badger's Builder.buildIndex asks for a 3 MiB initial
// buffer. The flatbuffers builder writes from the end of its buffer towards the front and
// doubles the buffer (copying the contents to the upper half) whenever it runs out of room, so
// FinishedBytes() does not depend on the initial size. The engine would have to materialise
// 3 Mi cells per path, so the REAL NewBuilder body is executed with the size capped at 256; all
// other flatbuffers code (pure Go) runs unchanged, including growByteBuffer.

import (
	"go/token"

	"golang.org/x/tools/go/ssa"
)

// callBody interprets fn's SSA body directly (no stub / intrinsic lookup): the tail of callSSA.
func (m *machine) callBody(caller *frame, callpos token.Pos, fn *ssa.Function, args []value) value {
	m.E.noteFunc(fn)
	m.depth++
	if m.depth > 2000 {
		panic(engineError{"call depth exceeded"})
	}
	defer func() { m.depth-- }()
	fi := getFuncInfo(fn)
	fr := &frame{m: m, caller: caller, fn: fn, fi: fi, callPos: callpos}
	if caller != nil {
		fr.g = caller.g
	}
	fr.env = make([]value, fi.n)
	fr.block = fn.Blocks[0]
	fr.locals = make([]value, len(fn.Locals))
	for i, l := range fn.Locals {
		fr.locals[i] = zero(deref(l.Type()))
		fr.set(l, &fr.locals[i])
	}
	for i, p := range fn.Params {
		fr.set(p, args[i])
	}
	for fr.block != nil {
		m.runFrame(fr)
	}
	return fr.result
}

func init() {
	registerLate(func() {
		intrinsics["github.com/google/flatbuffers/go.NewBuilder"] = func(fr *frame, a []value) value {
			n := u64(a[0])
			if int64(n) > 256 {
				fr.m.E.noteCut("flatbuffers.NewBuilder: initial buffer size capped at 256 (the builder grows on demand; output bytes are independent of it)")
				n = 256
			}
			return fr.m.callBody(fr.caller, fr.callPos, fr.fn, []value{n})
		}
	})
}

package main

// One long-lived solver process per worker, spoken to in SMT-LIB2 over a pipe.
// Scope discipline: BeginPath pushes one scope that holds all definitions and
// path-condition assertions of the path; feasibility queries push/pop a scope
// on top of it.

import (
	"bufio"
	"fmt"
	"io"
	"os/exec"
	"strconv"
	"strings"
	"time"
)

type SatResult int

const (
	Unsat SatResult = iota
	Sat
	Unknown
)

func (r SatResult) String() string { return [...]string{"unsat", "sat", "unknown"}[r] }

type Solver struct {
	cmd     *exec.Cmd
	in      io.WriteCloser
	bw      *bufio.Writer
	lib     *libZ3 // in-process back end (argv[0] == "lib")
	pending []string // output lines of commands evaluated before the current sync
	out     *bufio.Reader
	defined map[int]bool
	ufDecl  map[string]bool
	Queries int
	Time    time.Duration
	Errors  []string
	UnknownReasons []string
	argv    []string
	dump    io.Writer // optional transcript
	lastHadPush bool
}

func NewSolver(argv []string) (*Solver, error) {
	s := &Solver{argv: argv}
	if err := s.start(); err != nil {
		return nil, err
	}
	return s, nil
}

func (s *Solver) start() error {
	if s.argv[0] == "lib" {
		s.lib = newLibZ3()
		s.defined = map[int]bool{}
		s.ufDecl = map[string]bool{}
		s.send("(set-option :print-success false)")
		s.send("(set-option :produce-models true)")
		for _, a := range s.argv[1:] { // e.g. timeout=20000
			if i := strings.Index(a, "="); i > 0 {
				s.send("(set-option :" + a[:i] + " " + a[i+1:] + ")")
			}
		}
		return nil
	}
	cmd := exec.Command(s.argv[0], s.argv[1:]...)
	in, err := cmd.StdinPipe()
	if err != nil {
		return err
	}
	out, err := cmd.StdoutPipe()
	if err != nil {
		return err
	}
	cmd.Stderr = cmd.Stdout
	if err := cmd.Start(); err != nil {
		return err
	}
	s.cmd, s.in, s.out = cmd, in, bufio.NewReaderSize(out, 1<<16)
	s.bw = bufio.NewWriterSize(in, 1<<16)
	s.defined = map[int]bool{}
	s.ufDecl = map[string]bool{}
	s.send("(set-option :print-success false)")
	s.send("(set-option :produce-models true)")
	return nil
}

func (s *Solver) Close() {
	if s.lib != nil {
		s.lib.close()
		s.lib = nil
		return
	}
	if s.cmd != nil {
		s.in.Close()
		s.cmd.Process.Kill()
		s.cmd.Wait()
		s.cmd = nil
	}
}

func (s *Solver) send(line string) {
	if s.dump != nil {
		io.WriteString(s.dump, line+"\n")
	}
	if s.lib != nil {
		s.lib.buf.WriteString(line)
		s.lib.buf.WriteByte('\n')
		return
	}
	s.bw.WriteString(line)
	s.bw.WriteByte('\n')
}

// sync sends an echo marker and returns all output lines before it.
func (s *Solver) sync() []string {
	if s.lib != nil {
		return s.lib.eval()
	}
	s.send(`(echo "@@sync")`)
	s.bw.Flush()
	var lines []string
	for {
		l, err := s.out.ReadString('\n')
		if err != nil {
			s.Errors = append(s.Errors, "solver died: "+err.Error())
			// restart so that later paths can continue
			s.Close()
			s.start()
			return append(lines, "(error \"solver died\")")
		}
		l = strings.TrimSpace(l)
		if l == "@@sync" || l == `"@@sync"` {
			return lines
		}
		if l != "" {
			lines = append(lines, l)
		}
	}
}

func (s *Solver) BeginPath() {
	s.send("(push 1)")
	s.defined = map[int]bool{}
	s.ufDecl = map[string]bool{}
}

func (s *Solver) EndPath() {
	s.send("(pop 1)")
}

// define emits declarations/definitions for t and its subterms.
func (s *Solver) define(ts *TermStore, t *Term) {
	if s.defined[t.ID] || t.Op == OpConst {
		return
	}
	// iterative post-order to avoid deep recursion
	type fr struct {
		t *Term
		i int
	}
	stack := []fr{{t, 0}}
	for len(stack) > 0 {
		f := &stack[len(stack)-1]
		if f.i < len(f.t.Args) {
			a := f.t.Args[f.i]
			f.i++
			if !s.defined[a.ID] && a.Op != OpConst {
				stack = append(stack, fr{a, 0})
			}
			continue
		}
		n := f.t
		stack = stack[:len(stack)-1]
		if s.defined[n.ID] {
			continue
		}
		s.defined[n.ID] = true
		switch n.Op {
		case OpVar:
			s.send("(declare-const " + n.Name + " " + sortName(n.W) + ")")
		default:
			if n.Op == OpUF && !s.ufDecl[n.Name] {
				s.ufDecl[n.Name] = true
				s.send(ts.ufs[n.Name])
			}
			s.send("(define-fun t" + strconv.Itoa(n.ID) + " () " + sortName(n.W) + " " + n.smtExpr() + ")")
		}
	}
}

// Assert adds t to the path scope.
func (s *Solver) Assert(ts *TermStore, t *Term) {
	s.define(ts, t)
	s.send("(assert " + t.ref() + ")")
}

// Check decides sat(path ∧ extra...).
func (s *Solver) Check(ts *TermStore, extra ...*Term) SatResult {
	for _, e := range extra {
		s.define(ts, e)
	}
	t0 := time.Now()
	if len(extra) > 0 {
		s.send("(push 1)")
		for _, e := range extra {
			s.send("(assert " + e.ref() + ")")
		}
	}
	s.send("(check-sat)")
	lines := s.sync()
	s.Queries++
	s.Time += time.Since(t0)
	res := Unknown
	bad := false
	for _, l := range lines {
		switch {
		case l == "sat":
			res = Sat
		case l == "unsat":
			res = Unsat
		case l == "unknown" || l == "timeout":
			res = Unknown
		case strings.Contains(l, "(error"):
			bad = true
			s.Errors = append(s.Errors, l)
		}
	}
	if bad {
		res = Unknown
	}
	if res == Unknown && !bad && len(s.UnknownReasons) < 20 {
		// why did the solver give up (timeout, incomplete theory, resource limit)? kept for the evidence
		s.send("(get-info :reason-unknown)")
		s.UnknownReasons = append(s.UnknownReasons, strings.Join(s.sync(), " ")+fmt.Sprintf(" after %.1fs", time.Since(t0).Seconds()))
	}
	s.lastHadPush = len(extra) > 0
	return res
}

// lastHadPush: a Check with extras leaves its scope open so that Model can be
// read; PopCheck closes it.
func (s *Solver) PopCheck() {
	if s.lastHadPush {
		s.send("(pop 1)")
		s.lastHadPush = false
	}
}

// definedOf filters the terms already defined in the solver context.
func (s *Solver) definedOf(ts []*Term) []*Term {
	var out []*Term
	for _, t := range ts {
		if s.defined[t.ID] {
			out = append(out, t)
		}
	}
	return out
}

// Model reads values of the given terms (vars or any defined term) from the
// last sat answer. Must be called before PopCheck.
func (s *Solver) Model(ts *TermStore, terms []*Term) (map[int]uint64, error) {
	res := map[int]uint64{}
	if len(terms) == 0 {
		return res, nil
	}
	for _, t := range terms {
		if t.Op != OpConst && !s.defined[t.ID] {
			// not known to the solver: unconstrained, default 0
			continue
		}
	}
	var sb strings.Builder
	var asked []*Term
	sb.WriteString("(get-value (")
	for _, t := range terms {
		if t.Op == OpConst {
			res[t.ID] = t.C
			continue
		}
		if !s.defined[t.ID] {
			if t.Op == OpVar {
				res[t.ID] = 0
			}
			continue
		}
		sb.WriteString(t.ref())
		sb.WriteByte(' ')
		asked = append(asked, t)
	}
	sb.WriteString("))")
	if len(asked) == 0 {
		return res, nil
	}
	s.send(sb.String())
	lines := s.sync()
	txt := strings.Join(lines, " ")
	if strings.Contains(txt, "(error") {
		s.Errors = append(s.Errors, txt)
		return res, fmt.Errorf("get-value: %s", txt)
	}
	// parse ((name value) (name value) ...)
	vals := parseValues(txt)
	if len(vals) != len(asked) {
		return res, fmt.Errorf("get-value: got %d values for %d terms: %s", len(vals), len(asked), txt)
	}
	for i, t := range asked {
		res[t.ID] = vals[i]
	}
	return res, nil
}

func parseValues(txt string) []uint64 {
	var out []uint64
	// tokens: find patterns "#x..", "#b..", "true", "false", "(_ bvN W)" in value position.
	// A pair looks like (NAME VALUE); NAME never starts with '#', and is never true/false.
	i := 0
	depth := 0
	for i < len(txt) {
		c := txt[i]
		switch {
		case c == '(':
			depth++
			i++
			if depth == 2 {
				// skip name token
				for i < len(txt) && txt[i] == ' ' {
					i++
				}
				for i < len(txt) && txt[i] != ' ' {
					i++
				}
				for i < len(txt) && txt[i] == ' ' {
					i++
				}
				// value
				if strings.HasPrefix(txt[i:], "#x") {
					j := i + 2
					for j < len(txt) && isHex(txt[j]) {
						j++
					}
					v, _ := strconv.ParseUint(txt[i+2:j], 16, 64)
					out = append(out, v)
					i = j
				} else if strings.HasPrefix(txt[i:], "#b") {
					j := i + 2
					for j < len(txt) && (txt[j] == '0' || txt[j] == '1') {
						j++
					}
					v, _ := strconv.ParseUint(txt[i+2:j], 2, 64)
					out = append(out, v)
					i = j
				} else if strings.HasPrefix(txt[i:], "true") {
					out = append(out, 1)
					i += 4
				} else if strings.HasPrefix(txt[i:], "false") {
					out = append(out, 0)
					i += 5
				} else if strings.HasPrefix(txt[i:], "(_ bv") {
					j := i + 5
					k := j
					for k < len(txt) && txt[k] >= '0' && txt[k] <= '9' {
						k++
					}
					v, _ := strconv.ParseUint(txt[j:k], 10, 64)
					out = append(out, v)
					for k < len(txt) && txt[k] != ')' {
						k++
					}
					i = k + 1
				}
			}
		case c == ')':
			depth--
			i++
		default:
			i++
		}
	}
	return out
}

func isHex(c byte) bool {
	return (c >= '0' && c <= '9') || (c >= 'a' && c <= 'f') || (c >= 'A' && c <= 'F')
}

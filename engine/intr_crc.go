package main

// hash/crc32 model.
//
// Two modes, selected per path by the harness with vpConfig("crc", mode):
//
//	0 "uf" (default)  The digest state transition is an uninterpreted function
//	                  crcstep_<poly>(state32, byte8) -> state32 folded over the bytes written.
//	                  state is the *finalised* value kept in digest.crc (what Sum32 returns), so
//	                  update(crc, p1++p2) = update(update(crc, p1), p2) holds exactly as in the real
//	                  code. Equal byte streams give equal sums by congruence; NOTHING is assumed
//	                  about unequal streams (the solver may choose a colliding interpretation).
//	                  A step whose state and byte are both concrete is evaluated with the real
//	                  table (that is one admissible interpretation of crcstep on that point, and
//	                  the rule is applied uniformly, so the abstraction stays consistent).
//	1 "table"         hash/crc32.simpleMakeTable and hash/crc32.simpleUpdate (the real pure-Go,
//	                  table-driven SSA) are executed. Used by the one-step lemmas H-CRC only.
//
// Entry points intercepted (all that badger reaches): crc32.MakeTable, crc32.New,
// (*digest).Write/Sum32/Reset, crc32.Update, crc32.Checksum. The amd64 assembly
// (castagnoliSSE42*) and the slicing-by-8 variant are never executed; they are trusted to equal
// simpleUpdate (Go's own crc32 tests check exactly that).

import (
	"fmt"
	"go/types"
	"hash/crc32"
	"sync"

	"golang.org/x/tools/go/ssa"
)

// vpConfigExt: additional vpConfig keys registered by intrinsic files.
var vpConfigExt = map[string]func(m *machine, val int){}

var crcTabCache sync.Map // poly -> *crc32.Table

func crcRealTable(poly uint32) *crc32.Table {
	if t, ok := crcTabCache.Load(poly); ok {
		return t.(*crc32.Table)
	}
	// computed from the definition (same loop as crc32.simplePopulateTable) so that no
	// architecture-specific state of the host's crc32 package is involved
	t := new(crc32.Table)
	for i := 0; i < 256; i++ {
		crc := uint32(i)
		for j := 0; j < 8; j++ {
			if crc&1 == 1 {
				crc = (crc >> 1) ^ poly
			} else {
				crc >>= 1
			}
		}
		t[i] = crc
	}
	crcTabCache.Store(poly, t)
	return t
}

func (m *machine) crcTableMode() bool {
	v, _ := m.userState["crc.mode"].(int)
	return v == 1
}

func (m *machine) crcFunc(name string) *ssa.Function {
	p := m.E.pkgs["hash/crc32"]
	if p == nil || p.Func(name) == nil {
		panic(engineError{"hash/crc32." + name + " not loaded"})
	}
	return p.Func(name)
}

// crcPoly recovers the (reflected) polynomial from a table value: tab[128] = poly.
func crcPoly(tab value) uint32 {
	p, ok := tab.(*value)
	if !ok || p == nil {
		panic(targetPanic{iface{v: "runtime error: invalid memory address or nil pointer dereference (nil *crc32.Table)"}})
	}
	arr, ok := (*p).(array)
	if !ok || len(arr) != 256 {
		panic(engineError{"crc32: table is not a [256]uint32"})
	}
	c, ok := arr[128].(uint64)
	if !ok {
		panic(engineError{"crc32: symbolic table"})
	}
	return uint32(c)
}

// crcUpdate = hash/crc32.update(crc, tab, p).
func (m *machine) crcUpdate(fr *frame, crc, tab value, p []value) value {
	if m.crcTableMode() {
		return m.callSSA(fr.caller, fr.callPos, m.crcFunc("simpleUpdate"), []value{crc, tab, p}, nil)
	}
	poly := crcPoly(tab)
	rt := crcRealTable(poly)
	name := fmt.Sprintf("crcstep_%08x", poly)
	cur := crc
	for _, b := range p {
		cs, sc := cur.(uint64)
		cb, bc := b.(uint64)
		if sc && bc {
			x := ^uint32(cs)
			x = rt[byte(x)^byte(cb)] ^ (x >> 8)
			cur = uint64(^x)
			continue
		}
		cur = fromTerm(m.ts.UF(name, 32, m.toTerm(cur, 32), m.toTerm(b, 8)))
	}
	return cur
}

func init() {
	registerLate(func() {
		vpConfigExt["crc"] = func(m *machine, val int) {
			if val != 0 && val != 1 {
				panic(engineError{"vpConfig(\"crc\", v): v must be 0 (uf) or 1 (table)"})
			}
			m.userState["crc.mode"] = val
		}
		intrinsics["hash/crc32.MakeTable"] = func(fr *frame, a []value) value {
			m := fr.m
			poly := uint32(u64(a[0]))
			if m.crcTableMode() {
				return m.callSSA(fr.caller, fr.callPos, m.crcFunc("simpleMakeTable"), []value{uint64(poly)}, nil)
			}
			rt := crcRealTable(poly)
			arr := make(array, 256)
			for i := range arr {
				arr[i] = uint64(rt[i])
			}
			var v value = arr
			return &v
		}
		intrinsics["hash/crc32.New"] = func(fr *frame, a []value) value {
			m := fr.m
			crcPoly(a[0]) // nil / shape check
			var d value = structure{uint64(0), a[0]}
			return iface{t: types.NewPointer(m.namedType("hash/crc32", "digest")), v: &d}
		}
		intrinsics["(*hash/crc32.digest).Write"] = func(fr *frame, a []value) value {
			crc, tab := fld(a[0], 0), fld(a[0], 1)
			p := a[1].([]value)
			*crc = fr.m.crcUpdate(fr, *crc, *tab, p)
			return tuple{uint64(len(p)), iface{}}
		}
		intrinsics["(*hash/crc32.digest).Sum32"] = func(fr *frame, a []value) value { return *fld(a[0], 0) }
		intrinsics["(*hash/crc32.digest).Reset"] = func(fr *frame, a []value) value { *fld(a[0], 0) = uint64(0); return nil }
		intrinsics["hash/crc32.Update"] = func(fr *frame, a []value) value {
			return fr.m.crcUpdate(fr, a[0], a[1], a[2].([]value))
		}
		intrinsics["hash/crc32.Checksum"] = func(fr *frame, a []value) value {
			return fr.m.crcUpdate(fr, uint64(0), a[1], a[0].([]value))
		}
	})
}

package main

import "fmt"

// z.MemHash / MemHashString / xxhash: uninterpreted function of the byte vector
// (equal bytes ⇒ equal hash; nothing assumed about inequality).
func init() {
	registerLate(func() {
		mh := func(fr *frame, b []value) value {
			m := fr.m
			args := make([]*Term, len(b))
			for i, x := range b {
				args[i] = m.toTerm(x, 8)
			}
			if len(args) == 0 {
				return uint64(0xcbf29ce484222325)
			}
			return fromTerm(m.ts.UF(fmt.Sprintf("memhash%d", len(args)), 64, args...))
		}
		intrinsics["github.com/dgraph-io/ristretto/v2/z.MemHash"] = func(fr *frame, a []value) value { return mh(fr, a[0].([]value)) }
		intrinsics["github.com/dgraph-io/ristretto/v2/z.MemHashString"] = func(fr *frame, a []value) value { return mh(fr, strBytes(a[0])) }
		intrinsics["github.com/cespare/xxhash/v2.Sum64"] = func(fr *frame, a []value) value { return mh(fr, a[0].([]value)) }
		intrinsics["github.com/cespare/xxhash/v2.Sum64String"] = func(fr *frame, a []value) value { return mh(fr, strBytes(a[0])) }
	})
}

package main

// Models needed by H-MANIFEST (path/filepath.Join -> strings.Builder), and the function-name
// cache used by callSSA.

import (
	"sync"

	"golang.org/x/tools/go/ssa"
)

var funcNameCache sync.Map // *ssa.Function -> string

func cachedFuncName(fn *ssa.Function) string {
	if s, ok := funcNameCache.Load(fn); ok {
		return s.(string)
	}
	s := fn.String()
	funcNameCache.Store(fn, s)
	return s
}

func init() {
	registerLate(func() {
		// internal/abi.NoEscape(p) is `unsafe.Pointer(uintptr(p) ^ 0)`: the identity, written
		// that way only to defeat escape analysis. strings.Builder.copyCheck goes through it.
		intrinsics["internal/abi.NoEscape"] = func(fr *frame, a []value) value { return a[0] }
		// (*strings.Builder).String is unsafe.String(unsafe.SliceData(b.buf), len(b.buf)):
		// the accumulated bytes as a string (Builder = struct{addr *Builder; buf []byte}).
		intrinsics["(*strings.Builder).String"] = func(fr *frame, a []value) value {
			buf, _ := (*fld(a[0], 1)).([]value)
			return mkStr(buf)
		}
	})
}

package main

// AES-CTR as used by badger (y.XORBlock, y.XORBlockAllocate, y.XORBlockStream) and crypto/rand.
//
// crypto/aes + crypto/cipher are not executed (assembly / unsafe). CTR mode is
//
//	dst[i] = src[i] xor KS(key, iv, i)
//
// and that structure is ALL the model keeps: KS is an uninterpreted function of every key byte,
// every IV byte and the byte position (ctrks_<keylen>(k0, k1[, k2[, k3]], iv0, iv1, i), key and
// IV packed little-endian into 64-bit words). Consequences that hold in the model exactly as in
// reality: encrypting twice with the same key and IV is the identity; equal (key, IV, position)
// give equal keystream bytes. Nothing is assumed about different keys/IVs/positions (the solver
// may choose colliding keystreams), so no secrecy statement can be derived - AES itself is outside.
// Error/panic behaviour kept: key length not in {16,24,32} -> aes.KeySizeError; IV length != 16 ->
// panic (cipher.NewCTR); dst shorter than src -> panic (XORKeyStream).
//
// crypto/rand.Read fills the slice with fresh symbolic bytes (inputs named env.rand, which native
// replay skips) and never fails.
//
// Every intrinsic here is registered only if no other file registered the name before.

import (
	"fmt"
	"go/types"
)

func (m *machine) ctrKeystream(key, iv []value, i int) *Term {
	var args []*Term
	for o := 0; o < len(key); o += 8 {
		args = append(args, m.toTerm(m.bytesToIntLE(key[o:o+8]), 64))
	}
	args = append(args, m.toTerm(m.bytesToIntLE(iv[0:8]), 64), m.toTerm(m.bytesToIntLE(iv[8:16]), 64))
	args = append(args, m.ts.Const(64, uint64(i)))
	return m.ts.UF(fmt.Sprintf("ctrks_%d", len(key)), 8, args...)
}

// ctrXor returns (ciphertext, error value); dst may be nil (allocate).
func (m *machine) ctrXor(dst, src, key, iv []value) ([]value, value) {
	if l := len(key); l != 16 && l != 24 && l != 32 {
		return nil, iface{t: m.namedType("crypto/aes", "KeySizeError"), v: uint64(l)}
	}
	if len(iv) != 16 {
		m.runtimePanic("cipher.NewCTR: IV length must equal block size")
	}
	if dst == nil {
		dst = make([]value, len(src))
	}
	if len(dst) < len(src) {
		m.runtimePanic("crypto/cipher: output smaller than input")
	}
	// read all of src first: dst and src may be the same slice
	out := make([]value, len(src))
	for i := range src {
		ks := m.ctrKeystream(key, iv, i)
		st := m.toTerm(src[i], 8)
		// (x xor ks) xor ks = x syntactically: decrypting what this model encrypted gives back the
		// very terms, so that checksums and comparisons downstream need no solver work
		if st.Op == OpBvXor && st.Args[1] == ks {
			out[i] = fromTerm(st.Args[0])
			continue
		}
		if st.Op == OpBvXor && st.Args[0] == ks {
			out[i] = fromTerm(st.Args[1])
			continue
		}
		out[i] = fromTerm(m.ts.Bin(OpBvXor, st, ks))
	}
	copy(dst, out)
	return dst, iface{}
}

func bytesArg(v value) []value {
	b, _ := v.([]value)
	return b
}

func init() {
	registerLate(func() {
		reg := func(name string, f intrinsic) {
			if _, ok := intrinsics[name]; !ok {
				intrinsics[name] = f
			}
		}
		yp := "github.com/dgraph-io/badger/v4/y."
		reg(yp+"XORBlock", func(fr *frame, a []value) value {
			_, err := fr.m.ctrXor(bytesArg(a[0]), bytesArg(a[1]), bytesArg(a[2]), bytesArg(a[3]))
			return err
		})
		reg(yp+"XORBlockAllocate", func(fr *frame, a []value) value {
			out, err := fr.m.ctrXor(nil, bytesArg(a[0]), bytesArg(a[1]), bytesArg(a[2]))
			if out == nil {
				return tuple{[]value(nil), err}
			}
			return tuple{out, err}
		})
		reg(yp+"XORBlockStream", func(fr *frame, a []value) value {
			m := fr.m
			out, err := m.ctrXor(nil, bytesArg(a[1]), bytesArg(a[2]), bytesArg(a[3]))
			if out == nil {
				return err
			}
			// io.Copy through cipher.StreamWriter: one Write of the whole ciphertext (src is far
			// below io.Copy's 32 KiB chunk size in every harness); a Write error is returned as is
			// (the real code wraps it with y.Wrapf, which keeps errors.Is/As behaviour).
			w := a[0].(iface)
			if len(out) == 0 {
				return iface{}
			}
			r := m.callMethod(fr, w, "Write", out)
			if t, ok := r.(tuple); ok && len(t) == 2 {
				if e, ok := t[1].(iface); ok && e.t != nil {
					return e
				}
			}
			return iface{}
		})
		reg("crypto/rand.Read", func(fr *frame, a []value) value {
			b := bytesArg(a[0])
			for i := range b {
				b[i] = fr.m.newHiddenInput("rand", 8, 0, 0)
			}
			return tuple{uint64(len(b)), iface{}}
		})
	})
}

var _ = types.Typ

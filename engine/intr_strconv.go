package main

import "strconv"

// strconv.FormatUint(x, 10) / strconv.Itoa-free decimal rendering of a SYMBOLIC unsigned value.
// The real formatBits indexes the constant digit table `smallsString` with a symbolic index
// (ssa.Index on a string: the engine cannot type the all-concrete table) and forks once per two
// digits. The model: fork over the digit count d (x < 10^d, smallest d first), then digit k is the
// term '0' + (x / 10^k) % 10. Concrete arguments (and other bases) use the host's strconv.
// Reached from Txn.commitAndSend (value of the end-of-transaction marker).
func init() {
	registerLate(func() {
		intrinsics["strconv.FormatUint"] = func(fr *frame, a []value) value {
			m := fr.m
			base := int(u64(a[1]))
			x, sym := a[0].(*Term)
			if !sym {
				return strconv.FormatUint(u64(a[0]), base)
			}
			if base != 10 {
				return strconv.FormatUint(m.concretize(x, "strconv.FormatUint: base other than 10"), base)
			}
			ts := m.ts
			d := 20
			p := uint64(10)
			for k := 1; k < 20; k++ {
				if m.decide(ts.Cmp(OpUlt, x, ts.Const(64, p)), "decimal digit count") {
					d = k
					break
				}
				p *= 10
			}
			out := make([]value, d)
			p = 1
			for k := d - 1; k >= 0; k-- {
				q := x
				if p > 1 {
					q = ts.Bin(OpBvUDiv, x, ts.Const(64, p))
				}
				dig := ts.Bin(OpBvAdd, ts.Bin(OpBvURem, q, ts.Const(64, 10)), ts.Const(64, '0'))
				out[k] = fromTerm(ts.Extract(dig, 7, 0))
				p *= 10
			}
			return &symstr{b: out}
		}
	})
}

package main

// Value model (after golang.org/x/tools/go/ssa/interp, BSD licence), with
// scalars allowed to be SMT terms.
//
//  bool            | *Term (W=0)      booleans
//  uint64          | *Term (W=8..64)  every integer kind: the bit pattern, masked to the type's width
//  float64                             float32/float64 (concrete only)
//  string          | *symstr           strings
//  *value          | *symptr           pointers (symptr: element of a scalar slice at a symbolic index)
//  []value                             slices (Go slice semantics give aliasing/cap for free)
//  array, structure, iface, tuple, *closure, *ssa.Function, *ssa.Builtin,
//  *omap (ordered map), *channel, *iterState, unsafePtr, rtype

import (
	"bytes"
	"fmt"
	"go/types"
	"strings"

	"golang.org/x/tools/go/ssa"
)

type value interface{}

type tuple []value
type array []value
type structure []value

type iface struct {
	t types.Type
	v value
}

type closure struct {
	Fn  *ssa.Function
	Env []value
}

type bad struct{}

// symstr is a string whose bytes may be symbolic; length is concrete.
type symstr struct {
	b []value // each uint64 (byte) or *Term (W=8)
}

// symptr addresses base[idx] for a symbolic idx (already known to be in range).
type symptr struct {
	base []value
	idx  *Term // width 64
	w    int   // element width (0 = bool)
}

// unsafePtr wraps the pointer converted to unsafe.Pointer, with its static type.
type unsafePtr struct {
	v value
	t types.Type
}

type rtype struct{ t types.Type }

type channel struct {
	buf         []value
	cap         int
	closed      bool
	id          int
	sendSeq     int
	recvSeq     int
	recvWaiting int
}

// omap: insertion-ordered map with (possibly symbolic) keys.
type omap struct {
	kt      types.Type
	keys    []value
	vals    []value
	live    []bool
	n       int
	index   map[interface{}]int // concrete hashable keys -> slot
	symKeys int
}

type mapIter struct {
	m     *omap
	order []int
	i     int
}

type strIter struct {
	s  value
	i  int
	tk types.Type
}

func intInfo(t types.Type) (w int, signed bool, ok bool) {
	b, isB := t.Underlying().(*types.Basic)
	if !isB {
		return 0, false, false
	}
	switch b.Kind() {
	case types.Int8:
		return 8, true, true
	case types.Int16:
		return 16, true, true
	case types.Int32, types.UntypedRune:
		return 32, true, true
	case types.Int64, types.Int, types.UntypedInt:
		return 64, true, true
	case types.Uint8:
		return 8, false, true
	case types.Uint16:
		return 16, false, true
	case types.Uint32:
		return 32, false, true
	case types.Uint64, types.Uint, types.Uintptr:
		return 64, false, true
	}
	return 0, false, false
}

func isFloat(t types.Type) bool {
	b, ok := t.Underlying().(*types.Basic)
	return ok && b.Info()&types.IsFloat != 0
}

func isString(t types.Type) bool {
	b, ok := t.Underlying().(*types.Basic)
	return ok && b.Info()&types.IsString != 0
}

func isBool(t types.Type) bool {
	b, ok := t.Underlying().(*types.Basic)
	return ok && b.Info()&types.IsBoolean != 0
}

func deref(t types.Type) types.Type {
	if p, ok := t.Underlying().(*types.Pointer); ok {
		return p.Elem()
	}
	panic(fmt.Sprintf("deref: not a pointer: %v", t))
}

// zero returns a new zero value of type t.
func zero(t types.Type) value {
	switch t := t.(type) {
	case *types.Basic:
		if t.Kind() == types.UntypedNil {
			panic("untyped nil has no zero value")
		}
		if t.Info()&types.IsUntyped != 0 {
			t = types.Default(t).(*types.Basic)
		}
		switch {
		case t.Info()&types.IsBoolean != 0:
			return false
		case t.Info()&types.IsInteger != 0:
			return uint64(0)
		case t.Info()&types.IsFloat != 0:
			return float64(0)
		case t.Info()&types.IsString != 0:
			return ""
		case t.Kind() == types.UnsafePointer:
			return unsafePtr{}
		case t.Info()&types.IsComplex != 0:
			return complex128(0)
		}
		panic(fmt.Sprint("zero for unexpected type:", t))
	case *types.Pointer:
		return (*value)(nil)
	case *types.Array:
		a := make(array, t.Len())
		for i := range a {
			a[i] = zero(t.Elem())
		}
		return a
	case *types.Named:
		return zero(t.Underlying())
	case *types.Alias:
		return zero(types.Unalias(t))
	case *types.Interface:
		return iface{}
	case *types.Slice:
		return []value(nil)
	case *types.Struct:
		s := make(structure, t.NumFields())
		for i := range s {
			s[i] = zero(t.Field(i).Type())
		}
		return s
	case *types.Tuple:
		if t.Len() == 1 {
			return zero(t.At(0).Type())
		}
		s := make(tuple, t.Len())
		for i := range s {
			s[i] = zero(t.At(i).Type())
		}
		return s
	case *types.Chan:
		return (*channel)(nil)
	case *types.Map:
		return (*omap)(nil)
	case *types.Signature:
		return (*ssa.Function)(nil)
	case *types.TypeParam:
		panic("zero of type parameter " + t.String())
	}
	panic(fmt.Sprint("zero: unexpected ", t))
}

// copyVal returns a copy of v with value semantics for arrays/structs.
func copyVal(v value) value {
	switch v := v.(type) {
	case array:
		a := make(array, len(v))
		for i := range v {
			a[i] = copyVal(v[i])
		}
		return a
	case structure:
		s := make(structure, len(v))
		for i := range v {
			s[i] = copyVal(v[i])
		}
		return s
	}
	return v
}

func load(addr *value) value { return copyVal(*addr) }

// store writes v into *addr preserving the identity of nested array/struct
// cells (so that pointers into them stay valid).
func store(addr *value, v value) {
	switch v := v.(type) {
	case array:
		if dst, ok := (*addr).(array); ok && len(dst) == len(v) {
			for i := range v {
				store(&dst[i], v[i])
			}
			return
		}
		*addr = copyVal(v)
	case structure:
		if dst, ok := (*addr).(structure); ok && len(dst) == len(v) {
			for i := range v {
				store(&dst[i], v[i])
			}
			return
		}
		*addr = copyVal(v)
	default:
		*addr = v
	}
}

func isSym(v value) bool {
	_, ok := v.(*Term)
	return ok
}

// containsSym reports whether v (recursively through arrays/structs/ifaces/strings) holds a term.
func containsSym(v value) bool {
	switch v := v.(type) {
	case *Term:
		return true
	case *symstr:
		return true
	case array:
		for _, e := range v {
			if containsSym(e) {
				return true
			}
		}
	case structure:
		for _, e := range v {
			if containsSym(e) {
				return true
			}
		}
	case iface:
		return containsSym(v.v)
	}
	return false
}

func writeValue(buf *bytes.Buffer, v value, depth int) {
	if depth > 4 {
		buf.WriteString("…")
		return
	}
	switch v := v.(type) {
	case nil:
		buf.WriteString("<nil>")
	case bool, uint64, float64, string:
		fmt.Fprintf(buf, "%v", v)
	case *Term:
		buf.WriteString(v.String())
	case *symstr:
		buf.WriteString("symstr[")
		for i, b := range v.b {
			if i > 0 {
				buf.WriteByte(' ')
			}
			writeValue(buf, b, depth+1)
		}
		buf.WriteByte(']')
	case *omap:
		if v == nil {
			buf.WriteString("map[nil]")
			return
		}
		buf.WriteString("map[")
		first := true
		for i := range v.keys {
			if !v.live[i] {
				continue
			}
			if !first {
				buf.WriteByte(' ')
			}
			first = false
			writeValue(buf, v.keys[i], depth+1)
			buf.WriteByte(':')
			writeValue(buf, v.vals[i], depth+1)
		}
		buf.WriteByte(']')
	case *channel:
		fmt.Fprintf(buf, "chan(%p)", v)
	case *value:
		if v == nil {
			buf.WriteString("<nil>")
		} else {
			buf.WriteByte('&')
			writeValue(buf, *v, depth+1)
		}
	case *symptr:
		buf.WriteString("&symidx")
	case []value:
		buf.WriteByte('[')
		for i, e := range v {
			if i > 0 {
				buf.WriteByte(' ')
			}
			if i > 16 {
				buf.WriteString("…")
				break
			}
			writeValue(buf, e, depth+1)
		}
		buf.WriteByte(']')
	case array:
		writeValue(buf, []value(v), depth)
	case structure:
		buf.WriteByte('{')
		for i, e := range v {
			if i > 0 {
				buf.WriteByte(' ')
			}
			writeValue(buf, e, depth+1)
		}
		buf.WriteByte('}')
	case tuple:
		buf.WriteByte('(')
		for i, e := range v {
			if i > 0 {
				buf.WriteString(", ")
			}
			writeValue(buf, e, depth+1)
		}
		buf.WriteByte(')')
	case iface:
		fmt.Fprintf(buf, "(%v, ", v.t)
		writeValue(buf, v.v, depth+1)
		buf.WriteByte(')')
	case *ssa.Function, *ssa.Builtin, *closure:
		fmt.Fprintf(buf, "%p", v)
	case rtype:
		buf.WriteString(v.t.String())
	case unsafePtr:
		buf.WriteString("unsafe.Pointer(")
		writeValue(buf, v.v, depth+1)
		buf.WriteByte(')')
	default:
		fmt.Fprintf(buf, "<%T>", v)
	}
}

func toString(v value) string {
	var b bytes.Buffer
	writeValue(&b, v, 0)
	return b.String()
}

// goString renders a concrete string value; symbolic bytes shown as '?'.
func goString(v value) string {
	switch v := v.(type) {
	case string:
		return v
	case *symstr:
		var sb strings.Builder
		for _, b := range v.b {
			if c, ok := b.(uint64); ok {
				sb.WriteByte(byte(c))
			} else {
				sb.WriteByte('?')
			}
		}
		return sb.String()
	}
	return fmt.Sprint(v)
}

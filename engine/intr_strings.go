package main

import "strings"

// internal/bytealg string searches (assembly in the real runtime) on CONCRETE strings only.
// Reached from strings.Split / strings.Index / strings.Count (trie.parseIgnoreBytes on the
// concrete IgnoreBytes strings of H-TRIE / H-PUBLISH). A symbolic operand is an engine error.
func init() {
	registerLate(func() {
		conc := func(v value, what string) string {
			if s, ok := v.(string); ok {
				return s
			}
			for _, b := range strBytes(v) {
				if _, ok := b.(uint64); !ok {
					panic(engineError{"internal/bytealg." + what + ": symbolic string operand not modelled"})
				}
			}
			return goString(v)
		}
		intrinsics["internal/bytealg.CountString"] = func(fr *frame, a []value) value {
			s := conc(a[0], "CountString")
			c, ok := a[1].(uint64)
			if !ok {
				panic(engineError{"internal/bytealg.CountString: symbolic byte not modelled"})
			}
			return uint64(strings.Count(s, string([]byte{byte(c)})))
		}
		intrinsics["internal/bytealg.IndexString"] = func(fr *frame, a []value) value {
			return uint64(int64(strings.Index(conc(a[0], "IndexString"), conc(a[1], "IndexString"))))
		}
	})
}

package main

// In-process back end: libz3 (Debian libz3-dev 4.8.12) through cgo. The engine keeps speaking
// SMT-LIB2 text; instead of a pipe to `z3 -in`, the accumulated commands are handed to
// Z3_eval_smtlib2_string on a per-worker Z3 context and the printed answer is parsed exactly as
// the pipe's output was. Selected with `-solver lib` (default); `-solver "z3 -in -t:20000"` keeps
// the external process (used by the cross-solver diff).
//
// Why: on this VM a solver round trip through a pipe costs two cross-CPU wake-ups plus syscalls
// (PTI), which dominated the wall time of harnesses with 10^5 small queries.

/*
#cgo LDFLAGS: -lz3
#include <stdlib.h>
#include <z3.h>

static void vp_noop_error_handler(Z3_context c, Z3_error_code e) {}

static Z3_context vp_mk_context(void) {
	Z3_config cfg = Z3_mk_config();
	Z3_context ctx = Z3_mk_context(cfg);
	Z3_del_config(cfg);
	Z3_set_error_handler(ctx, vp_noop_error_handler);
	return ctx;
}
*/
import "C"

import (
	"strings"
	"unsafe"
)

type libZ3 struct {
	ctx C.Z3_context
	buf strings.Builder
}

func libZ3Version() string { return C.GoString(C.Z3_get_full_version()) }

func newLibZ3() *libZ3 {
	return &libZ3{ctx: C.vp_mk_context()}
}

func (z *libZ3) close() {
	if z.ctx != nil {
		C.Z3_del_context(z.ctx)
		z.ctx = nil
	}
}

// eval runs the buffered commands and returns the printed output, split into trimmed lines.
func (z *libZ3) eval() []string {
	if z.buf.Len() == 0 {
		return nil
	}
	cs := C.CString(z.buf.String())
	z.buf.Reset()
	out := C.GoString(C.Z3_eval_smtlib2_string(z.ctx, cs))
	C.free(unsafe.Pointer(cs))
	var lines []string
	for _, l := range strings.Split(out, "\n") {
		l = strings.TrimSpace(l)
		if l != "" {
			lines = append(lines, l)
		}
	}
	return lines
}

package main

// ristretto z.Memclr (runtime.memclrNoHeapPointers through unsafe + linkname): zero a byte slice.
// Reached from z.ZeroOut <- logFile.zeroNextEntry.

func init() {
	registerLate(func() {
		intrinsics["github.com/dgraph-io/ristretto/v2/z.Memclr"] = func(fr *frame, a []value) value {
			b := a[0].([]value)
			for i := range b {
				b[i] = uint64(0)
			}
			return nil
		}
		// internal/stringslite.Clone (unsafe.String over a fresh copy): strings are immutable
		// values in the engine, so the clone is the string itself. Reached from strconv's
		// syntaxError/rangeError (NumError.Num) <- strconv.ParseUint <- logFile.iterate.
		intrinsics["internal/stringslite.Clone"] = func(fr *frame, a []value) value { return a[0] }
		intrinsics["strings.Clone"] = func(fr *frame, a []value) value { return a[0] }
	})
}

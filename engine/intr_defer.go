package main

import "sync"

// Deferred assertions: vpConfig("defer-asserts",1) makes vpAssert on symbolic
// conditions collect the obligation instead of querying at once; all collected
// obligations are decided together (one query sat(pc ∧ ⋁¬cᵢ)) at the next vpAssume
// and at the end of the path. Sound because sibling paths partition the inputs:
// a violation of cᵢ excluded by a later branch constraint of this path satisfies the
// path condition of a sibling path that carries the same obligation.

type deferredAssert struct {
	id, pos string
	c       *Term
}

type deferState struct {
	on   bool
	list []deferredAssert
}

var deferStates = map[*machine]*deferState{}
var deferMu sync.Mutex

func (m *machine) deferSt() *deferState {
	deferMu.Lock()
	defer deferMu.Unlock()
	st := deferStates[m]
	if st == nil {
		st = &deferState{}
		deferStates[m] = st
	}
	return st
}

func init() {
	registerLate(func() {
		vpConfigExt["defer-asserts"] = func(m *machine, v int) { m.deferSt().on = v != 0 }
	})
}

func (m *machine) deferReset() {
	st := m.deferSt()
	st.on = false
	st.list = nil
}

// deferAssert returns true if the obligation was queued.
func (m *machine) deferAssert(id, pos string, c *Term) bool {
	st := m.deferSt()
	if !st.on {
		return false
	}
	st.list = append(st.list, deferredAssert{id, pos, c})
	return true
}

func (m *machine) flushDeferred() {
	st := m.deferSt()
	list := st.list
	st.list = nil
	for len(list) > 0 {
		disj := m.ts.Bool(false)
		for _, d := range list {
			disj = m.ts.Or(disj, m.ts.Not(d.c))
		}
		r := m.sol.Check(m.ts, disj)
		switch r {
		case Unsat:
			m.sol.PopCheck()
			for _, d := range list {
				m.asserts = append(m.asserts, assertRec{ID: d.id, Pos: d.pos, Result: "holds"})
			}
			return
		case Unknown:
			m.sol.PopCheck()
			m.unknowns++
			m.E.noteUnknown("deferred assertions: solver unknown")
			for _, d := range list {
				m.asserts = append(m.asserts, assertRec{ID: d.id, Pos: d.pos, Result: "unknown"})
			}
			return
		}
		// sat: find which obligations the model violates
		var cs []*Term
		for _, d := range list {
			cs = append(cs, d.c)
		}
		mod, err := m.sol.Model(m.ts, cs)
		m.sol.PopCheck()
		if err != nil {
			m.unknowns++
			return
		}
		var rest []deferredAssert
		n := 0
		for _, d := range list {
			if d.c.Op != OpConst && mod[d.c.ID] == 0 {
				m.recordViolation(d.id, d.pos, "assert", "assertion can fail", m.ts.Not(d.c))
				m.asserts = append(m.asserts, assertRec{ID: d.id, Pos: d.pos, Result: "violated"})
				n++
			} else {
				rest = append(rest, d)
			}
		}
		if n == 0 {
			// cannot attribute: fall back to one query each
			for _, d := range rest {
				m.checkAssertNow(d.id, d.pos, d.c)
			}
			return
		}
		list = rest
	}
}

func (m *machine) checkAssertNow(id, pos string, c *Term) {
	r := m.sol.Check(m.ts, m.ts.Not(c))
	m.sol.PopCheck()
	switch r {
	case Unsat:
		m.asserts = append(m.asserts, assertRec{ID: id, Pos: pos, Result: "holds"})
	case Unknown:
		m.unknowns++
		m.asserts = append(m.asserts, assertRec{ID: id, Pos: pos, Result: "unknown"})
	case Sat:
		m.recordViolation(id, pos, "assert", "assertion can fail", m.ts.Not(c))
		m.asserts = append(m.asserts, assertRec{ID: id, Pos: pos, Result: "violated"})
	}
}

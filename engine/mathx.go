package main

import "math"

func mathFloat64bits(f float64) uint64     { return math.Float64bits(f) }
func mathFloat64frombits(b uint64) float64 { return math.Float64frombits(b) }
func mathFloat32bits(f float64) uint32     { return math.Float32bits(float32(f)) }
func mathFloat32frombits(b uint32) float64 { return float64(math.Float32frombits(b)) }
func mathCeil(f float64) float64           { return math.Ceil(f) }
func mathFloor(f float64) float64          { return math.Floor(f) }
func mathLog(f float64) float64            { return math.Log(f) }
func mathLog2(f float64) float64           { return math.Log2(f) }
func mathPow(a, b float64) float64         { return math.Pow(a, b) }
func mathSqrt(f float64) float64           { return math.Sqrt(f) }
func mathAbs(f float64) float64            { return math.Abs(f) }
func mathExp(f float64) float64            { return math.Exp(f) }

package main

import (
	"encoding/json"
	"fmt"
	"go/types"
	"os"
	"path/filepath"
	"sort"
	"strings"
	"sync"
	"time"
	"unsafe"

	"golang.org/x/tools/go/packages"
	"golang.org/x/tools/go/ssa"
	"golang.org/x/tools/go/ssa/ssautil"
)

type Config struct {
	MaxSteps      int64
	MaxDecisions  int
	MaxAlloc      int64
	MaxSymIndex   int
	MaxConcretize int
	MaxPaths      int
	Workers       int
	SolverArgv    []string
	TimeoutS      int
	Verbose       bool
	ModelSamples  int // how many completed paths get a model for native replay
	Seed          int64
}

type Engine struct {
	cfg        Config
	prog       *ssa.Program
	pkgs       map[string]*ssa.Package // by import path
	harnessPkg map[*ssa.Package]bool
	repoDir    string

	mu         sync.Mutex
	funcsSeen  map[*ssa.Function]int64
	intrSeen   map[string]int
	cuts       map[string]int
	unknownMsg map[string]int
	openFindings map[string]bool
	replayModel []modelInput
	params map[string]int64
	funcByName map[string]*ssa.Function
}

func (E *Engine) isHarnessPkg(p *ssa.Package) bool { return E.harnessPkg[p] }

// noteFunc / noteIntrinsic are called from the worker goroutines on every call: counters are
// sharded by a cheap hash of the key to keep lock contention off the interpreter's hot path.
type noteShard struct {
	mu    sync.Mutex
	funcs map[*ssa.Function]int64
	intr  map[string]int
}

var noteShards [64]noteShard

func init() {
	for i := range noteShards {
		noteShards[i].funcs = map[*ssa.Function]int64{}
		noteShards[i].intr = map[string]int{}
	}
}

func (E *Engine) noteFunc(fn *ssa.Function) {
	sh := &noteShards[(uintptr(unsafe.Pointer(fn))>>6)%64]
	sh.mu.Lock()
	sh.funcs[fn]++
	sh.mu.Unlock()
}
func (E *Engine) noteIntrinsic(n string) {
	sh := &noteShards[(len(n)*31+int(n[len(n)-1]))%64]
	sh.mu.Lock()
	sh.intr[n]++
	sh.mu.Unlock()
}

// mergeNotes folds the sharded counters into E.funcsSeen / E.intrSeen (call when workers are idle).
func (E *Engine) mergeNotes() {
	E.mu.Lock()
	defer E.mu.Unlock()
	for i := range noteShards {
		sh := &noteShards[i]
		sh.mu.Lock()
		for f, n := range sh.funcs {
			E.funcsSeen[f] += n
		}
		for k, n := range sh.intr {
			E.intrSeen[k] += n
		}
		sh.funcs = map[*ssa.Function]int64{}
		sh.intr = map[string]int{}
		sh.mu.Unlock()
	}
}
func (E *Engine) noteCut(s string) {
	E.mu.Lock()
	E.cuts[s]++
	E.mu.Unlock()
}
func (E *Engine) noteUnknown(s string) {
	E.mu.Lock()
	E.unknownMsg[s]++
	E.mu.Unlock()
}

// wantInit: packages whose init function is executed (lazily, on first global access).
func (E *Engine) wantInit(p *ssa.Package) bool {
	path := p.Pkg.Path()
	if strings.HasPrefix(path, "github.com/dgraph-io/badger/v4") {
		return !strings.HasSuffix(path, "/pb") && !strings.HasSuffix(path, "/fb")
	}
	switch path {
	case "errors", "io", "bytes", "sort", "strconv", "math", "math/bits", "hash/crc32", "encoding/binary",
		"container/heap", "bufio", "context", "sync", "sync/atomic", "unicode/utf8", "strings", "io/fs", "os", "syscall",
		"github.com/dgraph-io/ristretto/v2/z", "time", "hash", "encoding/hex", "path/filepath", "math/rand":
		return true
	}
	return false
}

// skipInInit: functions not executed during package initialisation (they return zero values).
func (E *Engine) skipInInit(fn *ssa.Function) bool {
	if fn.Pkg == nil {
		return false
	}
	path := fn.Pkg.Pkg.Path()
	if strings.HasPrefix(path, "github.com/dgraph-io/badger/v4") {
		return false
	}
	switch path {
	case "errors", "bytes", "strconv", "math", "math/bits", "hash/crc32", "encoding/binary", "sort", "strings", "unicode/utf8",
		"context": // context.init#1 closes closedchan: without it a Done() first called after cancel() never fires
		return false
	}
	if fn.Name() == "init" {
		return false
	}
	return true
}

func loadProgram(repoDir string, overlay map[string][]byte, patterns []string) (*Engine, error) {
	cfg := &packages.Config{
		Mode: packages.NeedName | packages.NeedFiles | packages.NeedCompiledGoFiles | packages.NeedImports | packages.NeedDeps |
			packages.NeedTypes | packages.NeedTypesSizes | packages.NeedSyntax | packages.NeedTypesInfo | packages.NeedModule,
		Dir:     repoDir,
		Overlay: overlay,
		// -mod=readonly: `go list -mod=mod` would rewrite /repo/go.mod (it re-sorts direct/indirect requires)
		Env:     append(os.Environ(), "GOFLAGS=-mod=readonly", "GOPROXY=off", "GOSUMDB=off", "GOTOOLCHAIN=local"),
	}
	initial, err := packages.Load(cfg, patterns...)
	if err != nil {
		return nil, err
	}
	nerr := 0
	packages.Visit(initial, nil, func(p *packages.Package) {
		for _, e := range p.Errors {
			if strings.HasPrefix(p.PkgPath, "github.com/dgraph-io/badger") {
				fmt.Fprintf(os.Stderr, "load error: %s: %v\n", p.PkgPath, e)
				nerr++
			}
		}
	})
	if nerr > 0 {
		return nil, fmt.Errorf("%d package load errors", nerr)
	}
	prog, _ := ssautil.AllPackages(initial, ssa.InstantiateGenerics)
	prog.Build()
	E := &Engine{prog: prog, pkgs: map[string]*ssa.Package{}, harnessPkg: map[*ssa.Package]bool{}, repoDir: repoDir,
		funcsSeen: map[*ssa.Function]int64{}, intrSeen: map[string]int{}, cuts: map[string]int{}, unknownMsg: map[string]int{}}
	for _, p := range prog.AllPackages() {
		E.pkgs[p.Pkg.Path()] = p
	}
	return E, nil
}

// ---------- harness runs ----------

type pathResult struct {
	Decisions []dec
	Status    string // done | killed | error | panic
	Msg       string
	Asserts   []assertRec
	Covers    []string
	Viols     []violation
	Unknowns  int
	BranchUnknowns int
	Steps     int64
	Inputs    []modelInput // model of the path (if sampled)
	Obs       map[string]string
	Stubs     map[string]int
	Events    []string
}

type harnessRun struct {
	Name    string
	Fn      *ssa.Function
	E       *Engine
	mu      sync.Mutex
	work    [][]dec
	active  int
	cond    *sync.Cond
	results HarnessResult
	samples []pathResult
	violPerID map[string]int
	start   time.Time
	stop    bool
}

type AssertStat struct {
	Checked   int `json:"checked"`
	Holds     int `json:"holds"`
	Violated  int `json:"violated"`
	Unknown   int `json:"unknown"`
	ConcTrue  int `json:"concrete_true"`
	ConcFalse int `json:"concrete_false"`
}

type HarnessResult struct {
	Harness       string                 `json:"harness"`
	Paths         int                    `json:"paths"`
	Done          int                    `json:"done"`
	Killed        int                    `json:"killed_by_assumption"`
	Errors        int                    `json:"engine_errors"`
	Panics        int                    `json:"unexpected_panics"`
	ExpPanics     int                    `json:"expected_panics"`
	Decisions     int64                  `json:"decisions"`
	Steps         int64                  `json:"ssa_instructions_executed"`
	Unknowns      int                    `json:"solver_unknowns"`
	BranchUnknowns int                   `json:"branch_feasibility_unknowns"`
	Asserts       map[string]*AssertStat `json:"asserts"`
	Covers        map[string]int         `json:"covers"`
	Violations    []violation            `json:"violations"`
	ErrorMsgs     map[string]int         `json:"error_msgs,omitempty"`
	SolverQueries int                    `json:"solver_queries"`
	SolverS       float64                `json:"solver_s"`
	SolverErrors  []string               `json:"solver_errors,omitempty"`
	UnknownReasons []string              `json:"unknown_reasons,omitempty"`
	WallS         float64                `json:"wall_s"`
	Truncated     bool                   `json:"truncated"`
	Stubs         map[string]int         `json:"stub_calls"`
	Samples       []sampleOut            `json:"samples"`
	Models        []modelOut             `json:"models"`
	MaxPathLen    int                    `json:"max_decisions_on_a_path"`
}

type sampleOut struct {
	Decisions string            `json:"decisions"`
	Status    string            `json:"status"`
	Inputs    []modelInput      `json:"inputs,omitempty"`
	Observed  map[string]string `json:"observed,omitempty"`
	Events    []string          `json:"events,omitempty"`
}

type modelOut struct {
	Inputs   []modelInput      `json:"inputs"`
	Observed map[string]string `json:"observed"`
	Status   string            `json:"status"`
	Panic    string            `json:"panic,omitempty"`
}

func decStr(d []dec) string {
	var sb strings.Builder
	for _, x := range d {
		if x.HV {
			fmt.Fprintf(&sb, "%d@%x.", x.C, x.V)
		} else {
			fmt.Fprintf(&sb, "%d", x.C)
		}
	}
	return sb.String()
}

func (E *Engine) findHarness(spec string) (*ssa.Function, error) {
	// spec: <pkgpath-suffix>.<Func>
	i := strings.LastIndex(spec, ".")
	if i < 0 {
		return nil, fmt.Errorf("harness spec %q: want pkg.Func", spec)
	}
	pk, fn := spec[:i], spec[i+1:]
	var cands []*ssa.Package
	for path, p := range E.pkgs {
		if path == pk || strings.HasSuffix(path, "/"+pk) || (pk == "badger" && path == "github.com/dgraph-io/badger/v4") {
			cands = append(cands, p)
		}
	}
	for _, p := range cands {
		if f := p.Func(fn); f != nil {
			E.harnessPkg[p] = true
			return f, nil
		}
	}
	return nil, fmt.Errorf("harness %q not found", spec)
}

func (E *Engine) RunHarness(spec string) (*HarnessResult, error) {
	fn, err := E.findHarness(spec)
	if err != nil {
		return nil, err
	}
	h := &harnessRun{Name: spec, Fn: fn, E: E, start: time.Now()}
	h.cond = sync.NewCond(&h.mu)
	h.results = HarnessResult{Harness: spec, Asserts: map[string]*AssertStat{}, Covers: map[string]int{}, ErrorMsgs: map[string]int{}, Stubs: map[string]int{}}
	h.work = [][]dec{nil}
	var wg sync.WaitGroup
	deadline := time.Now().Add(time.Duration(E.cfg.TimeoutS) * time.Second)
	solvers := make([]*Solver, E.cfg.Workers)
	for w := 0; w < E.cfg.Workers; w++ {
		sol, err := NewSolver(E.cfg.SolverArgv)
		if err != nil {
			return nil, err
		}
		solvers[w] = sol
		wg.Add(1)
		go func(w int, sol *Solver) {
			defer wg.Done()
			m := &machine{E: E, H: h, sol: sol, wid: w}
			m.runtimeErrT = E.pkgs["runtime"].Type("errorString").Object().Type()
			for {
				h.mu.Lock()
				for len(h.work) == 0 && h.active > 0 && !h.stop {
					h.cond.Wait()
				}
				if h.stop || (len(h.work) == 0 && h.active == 0) {
					h.mu.Unlock()
					h.cond.Broadcast()
					return
				}
				pfx := h.work[len(h.work)-1]
				h.work = h.work[:len(h.work)-1]
				h.active++
				h.mu.Unlock()

				res, alts := m.runPath(fn, pfx)

				h.mu.Lock()
				h.active--
				h.work = append(h.work, alts...)
				h.record(res)
				if h.results.Paths >= E.cfg.MaxPaths || time.Now().After(deadline) {
					if len(h.work) > 0 || h.active > 0 {
						h.results.Truncated = true
					}
					h.stop = true
				}
				h.mu.Unlock()
				h.cond.Broadcast()
			}
		}(w, sol)
	}
	wg.Wait()
	for _, s := range solvers {
		h.results.SolverQueries += s.Queries
		h.results.SolverS += s.Time.Seconds()
		for _, e := range s.Errors {
			if len(h.results.SolverErrors) < 10 {
				h.results.SolverErrors = append(h.results.SolverErrors, e)
			}
		}
		for _, e := range s.UnknownReasons {
			if len(h.results.UnknownReasons) < 10 {
				h.results.UnknownReasons = append(h.results.UnknownReasons, e)
			}
		}
		s.Close()
	}
	h.results.WallS = time.Since(h.start).Seconds()
	E.mergeNotes()
	return &h.results, nil
}

func (h *harnessRun) record(r pathResult) {
	R := &h.results
	R.Paths++
	R.Decisions += int64(len(r.Decisions))
	if len(r.Decisions) > R.MaxPathLen {
		R.MaxPathLen = len(r.Decisions)
	}
	R.Steps += r.Steps
	R.Unknowns += r.Unknowns
	R.BranchUnknowns += r.BranchUnknowns
	switch r.Status {
	case "done":
		R.Done++
	case "killed":
		R.Killed++
	case "error":
		R.Errors++
		R.ErrorMsgs[firstLine(r.Msg)]++
	case "panic":
		R.Panics++
	case "expected-panic":
		R.ExpPanics++
	}
	for _, a := range r.Asserts {
		st := R.Asserts[a.ID]
		if st == nil {
			st = &AssertStat{}
			R.Asserts[a.ID] = st
		}
		st.Checked++
		switch a.Result {
		case "holds":
			st.Holds++
		case "violated":
			st.Violated++
		case "unknown":
			st.Unknown++
		case "concrete-true":
			st.ConcTrue++
		case "concrete-false":
			st.ConcFalse++
		}
	}
	for _, c := range r.Covers {
		R.Covers[c]++
	}
	for k, v := range r.Stubs {
		R.Stubs[k] += v
	}
	for _, v := range r.Viols {
		if h.violPerID == nil {
			h.violPerID = map[string]int{}
		}
		h.violPerID[v.AssertID]++
		if h.violPerID[v.AssertID] <= 3 && len(R.Violations) < 200 {
			R.Violations = append(R.Violations, v)
		}
	}
	if len(R.Samples) < 5 && (r.Status == "done" || r.Status == "expected-panic") {
		R.Samples = append(R.Samples, sampleOut{Decisions: decStr(r.Decisions), Status: r.Status, Inputs: r.Inputs, Observed: r.Obs, Events: r.Events})
	}
	if r.Inputs != nil && (r.Status == "done" || r.Status == "expected-panic") && len(R.Models) < h.E.cfg.ModelSamples {
		R.Models = append(R.Models, modelOut{Inputs: r.Inputs, Observed: r.Obs, Status: r.Status, Panic: r.Msg})
	}
}

func firstLine(s string) string {
	if i := strings.Index(s, "\n"); i >= 0 {
		return s[:i]
	}
	return s
}

// runPath executes the harness once along the given decision prefix.
func (m *machine) runPath(fn *ssa.Function, prefix []dec) (res pathResult, alts [][]dec) {
	m.beginPath(prefix)
	func() {
		defer func() {
			r := recover()
			switch r := r.(type) {
			case nil:
				res.Status = "done"
			case pathEnd:
				if r.reason == "done" {
					res.Status = "done"
				} else {
					res.Status = "killed"
					res.Msg = r.reason
				}
			case engineError:
				res.Status = "error"
				res.Msg = r.msg
			case targetPanic:
				m.onPanic(&res, r.String(), "panic")
			case goroutinePanic:
				m.onPanic(&res, "in goroutine: "+r.tp.String(), "panic")
			default:
				res.Status = "error"
				res.Msg = fmt.Sprintf("engine panic: %v", r)
			}
		}()
		m.callSSA(nil, 0, fn, nil, nil)
	}()
	if res.Status != "error" {
		func() {
			defer func() {
				if r := recover(); r != nil {
					res.Status = "error"
					res.Msg = fmt.Sprintf("while deciding deferred assertions: %v", r)
				}
			}()
			m.flushDeferred()
		}()
	}
	res.Decisions = append([]dec(nil), m.decisions...)
	res.Asserts = m.asserts
	for c := range m.covers {
		res.Covers = append(res.Covers, c)
	}
	sort.Strings(res.Covers)
	res.Unknowns = m.unknowns
	res.BranchUnknowns = m.branchUnknowns
	res.Steps = m.steps
	res.Stubs = m.stubCalls
	res.Events = m.events
	// sample a model for completed paths
	if res.Status == "done" || res.Status == "expected-panic" {
		if m.H.wantModel() {
			if in, obs, ok := m.pathModel(); ok {
				res.Inputs = in
				res.Obs = obs
			}
		}
	}
	res.Viols = m.viols
	alts = m.newAlts
	m.endPath()
	return
}

func (h *harnessRun) wantModel() bool {
	h.mu.Lock()
	defer h.mu.Unlock()
	return len(h.results.Models) < h.E.cfg.ModelSamples
}

func (m *machine) onPanic(res *pathResult, msg string, kind string) {
	if m.expectPanic {
		res.Status = "expected-panic"
		res.Msg = msg
		return
	}
	res.Status = "panic"
	res.Msg = msg
	// an unexpected panic on a feasible path is a violation; get a model
	v := violation{AssertID: m.panicAssertID(), Kind: kind, Msg: msg, Harness: m.H.Name}
	if in, obs, ok := m.pathModel(); ok {
		v.Inputs = in
		v.Observed = obs
		v.prefix = append([]dec(nil), m.decisions...)
		v.Decisions = decInts(m.decisions)
		m.viols = append(m.viols, v)
	} else {
		res.Status = "killed"
		res.Msg = "panic on infeasible/unknown path: " + msg
	}
}

func (m *machine) panicAssertID() string {
	if id, ok := m.userState["panic_id"].(string); ok {
		return id
	}
	return "panic"
}

func decInts(d []dec) []int {
	out := make([]int, len(d))
	for i, x := range d {
		out[i] = x.C
	}
	return out
}

// pathModel returns values for all inputs under some model of the path condition (plus extra).
func (m *machine) pathModel(extra ...*Term) ([]modelInput, map[string]string, bool) {
	var want []*Term
	for _, in := range m.inputs {
		if in.IsSym {
			want = append(want, in.term)
		}
	}
	for _, o := range m.obs {
		collectTerms(o.Val, &want)
	}
	for _, t := range want {
		m.sol.define(m.ts, t)
	}
	r := m.sol.Check(m.ts, extra...)
	if r != Sat {
		m.sol.PopCheck()
		return nil, nil, false
	}
	mod, err := m.sol.Model(m.ts, want)
	m.sol.PopCheck()
	if err != nil {
		return nil, nil, false
	}
	var out []modelInput
	for _, in := range m.inputs {
		mi := modelInput{Name: in.Name, Kind: in.Kind}
		if in.IsSym {
			mi.Value = mod[in.term.ID]
		} else {
			mi.Value = in.Conc
		}
		out = append(out, mi)
	}
	obs := map[string]string{}
	for _, o := range m.obs {
		obs[o.Name] = renderUnderModel(o.Val, mod)
	}
	return out, obs, true
}

func collectTerms(v value, out *[]*Term) {
	switch v := v.(type) {
	case *Term:
		*out = append(*out, v)
	case *symstr:
		for _, b := range v.b {
			collectTerms(b, out)
		}
	case []value:
		for _, b := range v {
			collectTerms(b, out)
		}
	case array:
		for _, b := range v {
			collectTerms(b, out)
		}
	case structure:
		for _, b := range v {
			collectTerms(b, out)
		}
	}
}

func renderUnderModel(v value, mod map[int]uint64) string {
	switch v := v.(type) {
	case *Term:
		return fmt.Sprintf("%d", mod[v.ID])
	case uint64:
		return fmt.Sprintf("%d", v)
	case bool:
		if v {
			return "1"
		}
		return "0"
	case string:
		return fmt.Sprintf("%x", v)
	case *symstr:
		return renderUnderModel(v.b, mod)
	case []value:
		var sb strings.Builder
		for _, b := range v {
			var x uint64
			switch b := b.(type) {
			case uint64:
				x = b
			case *Term:
				x = mod[b.ID]
			}
			fmt.Fprintf(&sb, "%02x", x&0xff)
		}
		return sb.String()
	}
	return fmt.Sprint(v)
}

// ---------- evidence helpers ----------

type funcStat struct {
	Name   string `json:"name"`
	Instrs int    `json:"ssa_instructions"`
	Calls  int64  `json:"calls"`
}

func (E *Engine) repoFuncs() []funcStat {
	E.mu.Lock()
	defer E.mu.Unlock()
	var out []funcStat
	for fn, n := range E.funcsSeen {
		if fn.Pkg == nil && fn.Parent() == nil && fn.Origin() == nil {
			continue
		}
		pk := fn.Pkg
		if pk == nil && fn.Parent() != nil {
			pk = fn.Parent().Pkg
		}
		if pk == nil && fn.Origin() != nil {
			pk = fn.Origin().Pkg
		}
		if pk == nil || !strings.HasPrefix(pk.Pkg.Path(), "github.com/dgraph-io/badger/v4") {
			continue
		}
		pos := E.prog.Fset.Position(fn.Pos())
		if strings.Contains(filepath.Base(pos.Filename), "zz_verif") {
			continue
		}
		ni := 0
		for _, b := range fn.Blocks {
			ni += len(b.Instrs)
		}
		out = append(out, funcStat{Name: shortName(fn.String()), Instrs: ni, Calls: n})
	}
	sort.Slice(out, func(i, j int) bool { return out[i].Name < out[j].Name })
	return out
}

func writeJSON(path string, v interface{}) error {
	b, err := json.MarshalIndent(v, "", " ")
	if err != nil {
		return err
	}
	return os.WriteFile(path, b, 0o644)
}

var _ = types.Typ

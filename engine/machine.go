package main

import (
	"fmt"
	"go/types"
	"sort"
	"strings"
	"sync"

	"golang.org/x/tools/go/ssa"
)

type inputRec struct {
	Name  string
	Kind  string // u8,u16,u32,u64,bool,choose
	W     int
	term  *Term
	Conc  uint64 // for choose
	IsSym bool
}

type assertRec struct {
	ID     string
	Pos    string
	Result string // "holds" (unsat), "violated", "unknown", "concrete-true", "concrete-false"
}

type violation struct {
	AssertID  string            `json:"assert_id"`
	Pos       string            `json:"pos"`
	Kind      string            `json:"kind"` // assert | panic | deadlock
	Msg       string            `json:"msg"`
	Decisions []int             `json:"decisions"`
	prefix    []dec
	Inputs    []modelInput      `json:"inputs"`
	Observed  map[string]string `json:"observed,omitempty"`
	Harness   string            `json:"harness"`
}

type modelInput struct {
	Name  string `json:"name"`
	Kind  string `json:"kind"`
	Value uint64 `json:"value"`
}

// dec is one recorded decision: the branch taken (C) and, for concretisation
// decisions, the candidate value that was tested (so that replay is solver-free).
type dec struct {
	C  int
	V  uint64
	HV bool
}

type gor struct {
	id      int
	wake    chan bool
	done    bool
	started bool
	ready   func() bool
	main    bool
	fn      value
	args    []value
	name    string
}

type observation struct {
	Name string
	Val  value
	W    int
}

// machine: the state of one worker; path-specific parts are reset by beginPath.
type machine struct {
	E   *Engine
	H   *harnessRun
	ts  *TermStore
	sol *Solver
	wid int

	runtimeErrT types.Type

	globals  map[*ssa.Global]*value
	initDone map[*ssa.Package]bool
	initDepth int

	prefix    []dec
	decisions []dec
	pendVal   uint64
	pendHas   bool
	pc        []*Term
	pcVars    map[int]bool
	pcSeen    map[int]bool
	model     map[int]uint64 // cached model of pc (var id -> value); nil if unknown
	modelOK   bool

	stubs     map[string]value
	inStub    map[string]bool
	stubCalls map[string]int

	inputs   []inputRec
	asserts  []assertRec
	covers   map[string]bool
	obs      []observation
	viols    []violation
	unknowns int
	branchUnknowns int
	newAlts  [][]dec

	steps    int64
	depth    int
	chanSeq  int
	inputSeq int
	replayPos int

	mapOrderNondet bool
	goMode         string // "spawn" (default), "skip", "inline"
	schedNondet    bool
	expectPanic    bool

	gors  []*gor
	cur   *gor
	fatal interface{}
	gwg   sync.WaitGroup

	condGen   map[*value]int
	lastClock *Term
	selectNondet bool
	selectPrio   func([]int) int
	mutexOwner map[*value]*gor
	events     []string
	userState  map[string]value
}

func (m *machine) beginPath(prefix []dec) {
	m.ts = NewTermStore()
	m.globals = map[*ssa.Global]*value{}
	m.initDone = map[*ssa.Package]bool{}
	m.initDepth = 0
	m.prefix = prefix
	m.decisions = m.decisions[:0]
	m.pc = nil
	m.pcVars = map[int]bool{}
	m.pcSeen = map[int]bool{}
	m.model = map[int]uint64{}
	m.modelOK = true
	m.stubs = map[string]value{}
	m.inStub = map[string]bool{}
	m.stubCalls = map[string]int{}
	m.inputs = nil
	m.asserts = nil
	m.covers = map[string]bool{}
	m.obs = nil
	m.viols = nil
	m.unknowns = 0
	m.branchUnknowns = 0
	m.newAlts = nil
	m.steps = 0
	m.depth = 0
	m.chanSeq = 0
	m.inputSeq = 0
	m.replayPos = 0
	m.mapOrderNondet = false
	m.goMode = "spawn"
	m.schedNondet = false
	m.expectPanic = false
	m.gors = nil
	m.fatal = nil
	m.mutexOwner = map[*value]*gor{}
	m.events = nil
	m.userState = map[string]value{}
	m.condGen = map[*value]int{}
	m.lastClock = nil
	m.deferReset()
	m.selectNondet = false
	m.selectPrio = nil
	mg := &gor{id: 0, wake: make(chan bool, 1), main: true, started: true, name: "main"}
	m.gors = []*gor{mg}
	m.cur = mg
	m.sol.BeginPath()
}

func (m *machine) endPath() {
	// terminate parked goroutines
	for _, g := range m.gors {
		if g.main || g.done {
			continue
		}
		g.wake <- false
	}
	m.gwg.Wait()
	m.sol.EndPath()
}

// ---------- decisions ----------

// freshBoolVar: c is v or ¬v for a boolean variable not occurring in the path condition.
func (m *machine) freshBoolVar(c *Term) bool {
	if c.Op == OpNot {
		c = c.Args[0]
	}
	return c.Op == OpVar && c.W == 0 && !m.pcVars[c.ID]
}

func (m *machine) noteVars(t *Term) {
	if m.pcSeen[t.ID] {
		return
	}
	m.pcSeen[t.ID] = true
	if t.Op == OpVar {
		m.pcVars[t.ID] = true
	}
	for _, a := range t.Args {
		m.noteVars(a)
	}
}

func (m *machine) addPC(c *Term) {
	if isTrue(c) {
		return
	}
	m.noteVars(c)
	m.pc = append(m.pc, c)
	m.sol.Assert(m.ts, c)
}

func (m *machine) evalUnderModel(c *Term) (uint64, bool) {
	if !m.modelOK {
		return 0, false
	}
	m.ts.evalFail = false
	v := m.ts.Eval(c, m.model, map[int]uint64{})
	if m.ts.evalFail {
		return 0, false
	}
	return v, true
}

func (m *machine) refreshModel() {
	vars := m.ts.vars
	if len(m.ts.ufApps) > 0 {
		vars = append(append([]*Term{}, vars...), m.sol.definedOf(m.ts.ufApps)...)
	}
	mod, err := m.sol.Model(m.ts, vars)
	if err != nil {
		m.modelOK = false
		return
	}
	m.model = mod
	m.modelOK = true
}

// feasible decides sat(pc ∧ c); on sat the cached model is refreshed to a model of pc ∧ c.
func (m *machine) feasible(c *Term) SatResult {
	r := m.sol.Check(m.ts, c)
	if r == Sat {
		m.refreshModel()
	}
	m.sol.PopCheck()
	return r
}

// decide forks on a symbolic boolean.
func (m *machine) decide(c *Term, why string) bool {
	if c.Op == OpConst {
		return c.C == 1
	}
	if v, ok := m.decidedLookup(c); ok { // intr_skl.go: this very term was decided earlier on the path
		m.pendHas = false
		return v
	}
	idx := len(m.decisions)
	if idx < len(m.prefix) {
		ch := m.prefix[idx].C
		m.decidedRecord(c, ch == 1)
		m.decisions = append(m.decisions, m.prefix[idx])
		m.pendHas = false
		if ch == 1 {
			m.addPC(c)
		} else {
			m.addPC(m.ts.Not(c))
		}
		if v, ok := m.evalUnderModel(c); !ok || (v == 1) != (ch == 1) {
			m.modelOK = false
		}
		return ch == 1
	}
	if len(m.decisions) >= m.E.cfg.MaxDecisions {
		panic(engineError{fmt.Sprintf("decision limit %d exceeded (unwinding bound)", m.E.cfg.MaxDecisions)})
	}
	nc := m.ts.Not(c)
	var tF, fF SatResult
	unk := func(r SatResult) SatResult {
		if r == Unknown {
			// over-approximation: the branch is explored as if feasible. Every assertion on it is
			// still decided by the solver and every counterexample is replayed before it is
			// reported, so a branch that is in fact infeasible cannot turn into a false alarm
			// and cannot hide a violation; it is counted separately, not as an inconclusive run.
			m.branchUnknowns++
			m.E.noteUnknown("branch feasibility unknown, explored as feasible (" + why + ")")
		}
		return r
	}
	v, known := m.evalUnderModel(c)
	switch {
	case m.freshBoolVar(c):
		// a boolean input that the path condition does not mention: both sides feasible
		tF, fF = Sat, Sat
		m.modelOK = false
	case known && v == 1:
		tF = Sat
		sm, sok := m.model, m.modelOK
		fF = unk(m.feasible(nc))
		m.model, m.modelOK = sm, sok
	case known:
		fF = Sat
		sm, sok := m.model, m.modelOK
		tF = unk(m.feasible(c))
		if tF == Unsat {
			m.model, m.modelOK = sm, sok
		}
	default:
		tF = unk(m.feasible(c))
		if tF == Unsat {
			fF = Sat // pc is satisfiable, so pc ∧ ¬c is
			m.modelOK = false
		} else {
			sm, sok := m.model, m.modelOK
			fF = unk(m.feasible(nc))
			m.model, m.modelOK = sm, sok
		}
	}
	if tF == Unsat && fF == Unsat {
		panic(pathEnd{"infeasible path condition"})
	}
	takeTrue := tF != Unsat
	if tF != Unsat && fF != Unsat {
		alt := make([]dec, len(m.decisions)+1)
		copy(alt, m.decisions)
		alt[len(m.decisions)] = dec{C: 0, V: m.pendVal, HV: m.pendHas}
		m.newAlts = append(m.newAlts, alt)
	}
	if takeTrue {
		m.decisions = append(m.decisions, dec{C: 1, V: m.pendVal, HV: m.pendHas})
		m.addPC(c)
	} else {
		m.decisions = append(m.decisions, dec{C: 0, V: m.pendVal, HV: m.pendHas})
		m.addPC(nc)
	}
	m.pendHas = false
	if v, ok := m.evalUnderModel(c); !ok || (v == 1) != takeTrue {
		m.modelOK = false
	}
	m.decidedRecord(c, takeTrue)
	return takeTrue
}

// choose forks n ways concretely (all alternatives feasible).
func (m *machine) choose(n int, name string) int {
	if n <= 1 {
		return 0
	}
	idx := len(m.decisions)
	if idx < len(m.prefix) {
		ch := m.prefix[idx].C
		m.decisions = append(m.decisions, m.prefix[idx])
		return ch
	}
	if len(m.decisions) >= m.E.cfg.MaxDecisions {
		panic(engineError{fmt.Sprintf("decision limit %d exceeded (unwinding bound)", m.E.cfg.MaxDecisions)})
	}
	for k := n - 1; k >= 1; k-- {
		alt := make([]dec, len(m.decisions)+1)
		copy(alt, m.decisions)
		alt[len(m.decisions)] = dec{C: k}
		m.newAlts = append(m.newAlts, alt)
	}
	m.decisions = append(m.decisions, dec{C: 0})
	return 0
}

// modelValue returns the value of t in some model of the path condition.
func (m *machine) modelValue(t *Term, why string) uint64 {
	if v, ok := m.evalUnderModel(t); ok {
		return v
	}
	m.sol.define(m.ts, t)
	r := m.sol.Check(m.ts)
	if r != Sat {
		m.sol.PopCheck()
		if r == Unknown {
			m.unknowns++
			m.E.noteUnknown("solver unknown (" + why + ")")
			panic(engineError{"solver unknown during concretisation (" + why + ")"})
		}
		panic(pathEnd{"infeasible at concretisation"})
	}
	m.refreshModel()
	mod, err := m.sol.Model(m.ts, []*Term{t})
	m.sol.PopCheck()
	if err != nil {
		panic(engineError{"cannot read model during concretisation (" + why + "): " + err.Error()})
	}
	return mod[t.ID]
}

// concretize enumerates the feasible values of t (forking), bounded by MaxConcretize.
func (m *machine) concretize(t *Term, why string) uint64 {
	if t.Op == OpConst {
		return t.C
	}
	for n := 0; n < m.E.cfg.MaxConcretize; n++ {
		var cand uint64
		if idx := len(m.decisions); idx < len(m.prefix) && m.prefix[idx].HV {
			cand = m.prefix[idx].V
		} else {
			cand = m.modelValue(t, why)
		}
		m.pendVal, m.pendHas = cand, true
		if m.decide(m.ts.Eq(t, m.ts.Const(t.W, cand)), "concretize "+why) {
			return cand
		}
	}
	panic(engineError{fmt.Sprintf("more than %d feasible values while concretising (%s)", m.E.cfg.MaxConcretize, why)})
}

// ---------- globals and package init ----------

func (m *machine) globalAddr(g *ssa.Global) *value {
	if p, ok := m.globals[g]; ok {
		return p
	}
	pkg := g.Pkg
	if !m.initDone[pkg] {
		m.initDone[pkg] = true
		for _, mem := range pkg.Members {
			if gv, ok := mem.(*ssa.Global); ok {
				cell := zero(deref(gv.Type()))
				m.globals[gv] = &cell
			}
		}
		if m.E.wantInit(pkg) {
			m.runInit(pkg)
		}
	}
	if p, ok := m.globals[g]; ok {
		return p
	}
	cell := zero(deref(g.Type()))
	m.globals[g] = &cell
	return &cell
}

func (m *machine) runInit(pkg *ssa.Package) {
	initFn := pkg.Func("init")
	if initFn == nil || initFn.Blocks == nil {
		return
	}
	m.initDepth++
	savedSteps := m.steps
	defer func() {
		m.initDepth--
		m.steps = savedSteps
		if r := recover(); r != nil {
			switch r.(type) {
			case targetPanic, engineError:
				m.E.noteCut(fmt.Sprintf("init of %s stopped early: %v", pkg.Pkg.Path(), r))
			default:
				panic(r)
			}
		}
	}()
	m.callSSA(nil, 0, initFn, nil, nil)
}

// ---------- goroutines (coroutines: exactly one runs at a time) ----------

func (m *machine) spawn(fr *frame, instr *ssa.Go, fn value, args []value) {
	switch m.goMode {
	case "skip":
		m.E.noteCut("go statement skipped at " + m.pos(instr.Pos()))
		return
	case "inline":
		m.call(fr, instr.Pos(), fn, args)
		return
	}
	g := &gor{id: len(m.gors), wake: make(chan bool, 1), fn: fn, args: args, name: m.pos(instr.Pos())}
	m.gors = append(m.gors, g)
	m.gwg.Add(1)
	go m.gorMain(g)
}

func (m *machine) gorMain(g *gor) {
	defer m.gwg.Done()
	if ok := <-g.wake; !ok {
		return
	}
	g.started = true
	defer func() {
		r := recover()
		g.done = true
		if r != nil {
			if _, ok := r.(abortGoroutine); ok {
				return
			}
			if tp, ok := r.(targetPanic); ok {
				r = goroutinePanic{tp}
			}
			if m.fatal == nil {
				m.fatal = r
			}
			// wake main to report
			m.cur = m.gors[0]
			m.gors[0].wake <- true
			return
		}
		m.handoff(g, false)
	}()
	m.call(nil, 0, g.fn, g.args)
}

type goroutinePanic struct{ tp targetPanic }

// pickNext returns the next runnable goroutine other than (or including) g.
func (m *machine) pickNext(g *gor) *gor {
	var cands []*gor
	for _, h := range m.gors {
		if h.done {
			continue
		}
		if h.ready == nil || h.ready() {
			cands = append(cands, h)
		}
	}
	if len(cands) == 0 {
		return nil
	}
	if m.schedNondet && len(cands) > 1 {
		return cands[m.choose(len(cands), "schedule")]
	}
	// prefer non-main goroutines in id order after g, so that spawned work progresses
	sort.Slice(cands, func(i, j int) bool { return cands[i].id < cands[j].id })
	for _, h := range cands {
		if h.id > g.id {
			return h
		}
	}
	return cands[0]
}

// handoff passes the baton from g to another goroutine. If wait, g parks until woken.
func (m *machine) handoff(g *gor, wait bool) {
	h := m.pickNext(g)
	if h == nil {
		dl := targetPanic{iface{t: m.runtimeErrT, v: "all goroutines are asleep - deadlock!"}}
		if g.main {
			panic(dl)
		}
		if m.fatal == nil {
			m.fatal = dl
		}
		h = m.gors[0]
	}
	if h == g {
		return
	}
	m.cur = h
	h.wake <- true
	if wait {
		if ok := <-g.wake; !ok {
			panic(abortGoroutine{})
		}
		m.cur = g
		if g.main && m.fatal != nil {
			f := m.fatal
			m.fatal = nil
			panic(f)
		}
	}
}

// block parks the current goroutine until ready() holds.
func (m *machine) block(ready func() bool) {
	g := m.cur
	for !ready() {
		g.ready = ready
		m.handoff(g, true)
	}
	g.ready = nil
}

// yield lets other goroutines run until they block or finish.
func (m *machine) yield() {
	g := m.cur
	others := false
	for _, h := range m.gors {
		if h != g && !h.done && (h.ready == nil || h.ready()) {
			others = true
		}
	}
	if !others {
		return
	}
	g.ready = nil
	// run others first: temporarily mark g as lowest priority by handing off
	h := m.pickNextExcluding(g)
	if h == nil {
		return
	}
	m.cur = h
	h.wake <- true
	if ok := <-g.wake; !ok {
		panic(abortGoroutine{})
	}
	m.cur = g
	if g.main && m.fatal != nil {
		f := m.fatal
		m.fatal = nil
		panic(f)
	}
}

func (m *machine) pickNextExcluding(g *gor) *gor {
	for _, h := range m.gors {
		if h != g && !h.done && (h.ready == nil || h.ready()) {
			return h
		}
	}
	return nil
}

// ---------- channels ----------

func (m *machine) chanSend(ch *channel, v value) {
	if ch == nil {
		m.block(func() bool { return false })
	}
	if ch.closed {
		panic(targetPanic{iface{t: m.runtimeErrT, v: "send on closed channel"}})
	}
	if ch.cap == 0 {
		// rendezvous: enqueue and wait until taken
		ch.buf = append(ch.buf, copyVal(v))
		n := len(ch.buf)
		_ = n
		ch.sendSeq++
		my := ch.sendSeq
		m.block(func() bool { return ch.recvSeq >= my || ch.closed })
		return
	}
	m.block(func() bool { return len(ch.buf) < ch.cap || ch.closed })
	if ch.closed {
		panic(targetPanic{iface{t: m.runtimeErrT, v: "send on closed channel"}})
	}
	ch.buf = append(ch.buf, copyVal(v))
	ch.sendSeq++
}

func (m *machine) chanCanRecv(ch *channel) bool {
	return ch != nil && (len(ch.buf) > 0 || ch.closed)
}

func (m *machine) chanTake(ch *channel, et types.Type) (value, bool) {
	if len(ch.buf) > 0 {
		v := ch.buf[0]
		ch.buf = ch.buf[1:]
		ch.recvSeq++
		return v, true
	}
	return zero(et), false
}

func (m *machine) chanRecv(ch *channel, commaOk bool, et types.Type) value {
	if ch == nil {
		m.block(func() bool { return false })
	}
	m.block(func() bool { return m.chanCanRecv(ch) })
	v, ok := m.chanTake(ch, et)
	if commaOk {
		return tuple{v, ok}
	}
	return v
}

func (m *machine) chanClose(ch *channel) {
	if ch == nil {
		panic(targetPanic{iface{t: m.runtimeErrT, v: "close of nil channel"}})
	}
	if ch.closed {
		panic(targetPanic{iface{t: m.runtimeErrT, v: "close of closed channel"}})
	}
	ch.closed = true
}

func (m *machine) selectInstr(fr *frame, instr *ssa.Select) value {
	type st struct {
		ch   *channel
		send value
		dir  types.ChanDir
		et   types.Type
	}
	states := make([]st, len(instr.States))
	for i, s := range instr.States {
		ch, _ := fr.get(s.Chan).(*channel)
		states[i] = st{ch: ch, dir: s.Dir, et: s.Chan.Type().Underlying().(*types.Chan).Elem()}
		if s.Send != nil {
			states[i].send = fr.get(s.Send)
		}
	}
	readyIdx := func() []int {
		var out []int
		for i, s := range states {
			if s.ch == nil {
				continue
			}
			if s.dir == types.RecvOnly {
				if m.chanCanRecv(s.ch) {
					out = append(out, i)
				}
			} else {
				if s.ch.closed || (s.ch.cap > 0 && len(s.ch.buf) < s.ch.cap) || (s.ch.cap == 0 && s.ch.recvWaiting > 0) {
					out = append(out, i)
				}
			}
		}
		return out
	}
	rd := readyIdx()
	if len(rd) == 0 {
		if !instr.Blocking {
			r := tuple{uint64(^uint64(0)), false}
			for _, s := range states {
				if s.dir == types.RecvOnly {
					r = append(r, zero(s.et))
				}
			}
			return r
		}
		// let others run, then re-evaluate; for unbuffered sends advertise nothing (cut)
		m.block(func() bool { return len(readyIdx()) > 0 })
		rd = readyIdx()
	}
	chosen := rd[0]
	if len(rd) > 1 {
		if m.selectNondet {
			chosen = rd[m.choose(len(rd), "select")]
		} else if m.selectPrio != nil {
			chosen = m.selectPrio(rd)
		}
	}
	s := states[chosen]
	r := tuple{uint64(chosen), false}
	var recvd value
	if s.dir == types.RecvOnly {
		v, ok := m.chanTake(s.ch, s.et)
		recvd = v
		r[1] = ok
	} else {
		if s.ch.closed {
			panic(targetPanic{iface{t: m.runtimeErrT, v: "send on closed channel"}})
		}
		s.ch.buf = append(s.ch.buf, copyVal(s.send))
		s.ch.sendSeq++
	}
	for i, st := range states {
		if st.dir == types.RecvOnly {
			if i == chosen {
				r = append(r, recvd)
			} else {
				r = append(r, zero(st.et))
			}
		}
	}
	return r
}

func (m *machine) event(s string) {
	m.events = append(m.events, s)
}

func shortName(s string) string {
	s = strings.ReplaceAll(s, "github.com/dgraph-io/badger/v4", "badger")
	return s
}

package main

// Symbolic interpreter for go/ssa, structured after x/tools/go/ssa/interp.

import (
	"strconv"
	"fmt"
	"go/token"
	"go/types"
	"os"
	"runtime"
	"runtime/debug"
	"strings"
	"sync"

	"golang.org/x/tools/go/ssa"
)

// panicTrace (env GOSYM_PANIC_TRACE=1): print every frame a target panic unwinds through.
var panicTrace = os.Getenv("GOSYM_PANIC_TRACE") != ""

// engineError: something the engine cannot model was reached on this path.
type engineError struct{ msg string }

func (e engineError) Error() string { return e.msg }

// pathEnd: the path terminates (assumption failed, vpDone, limit).
type pathEnd struct{ reason string }

// abortGoroutine unwinds a parked interpreter goroutine at path end.
type abortGoroutine struct{}

type deferred struct {
	fn    value
	args  []value
	instr *ssa.Defer
	tail  *deferred
}

type funcInfo struct {
	index map[ssa.Value]int
	n     int
}

var funcInfos sync.Map // *ssa.Function -> *funcInfo

func getFuncInfo(fn *ssa.Function) *funcInfo {
	if fi, ok := funcInfos.Load(fn); ok {
		return fi.(*funcInfo)
	}
	fi := &funcInfo{index: make(map[ssa.Value]int)}
	add := func(v ssa.Value) {
		if _, ok := fi.index[v]; !ok {
			fi.index[v] = fi.n
			fi.n++
		}
	}
	for _, p := range fn.Params {
		add(p)
	}
	for _, fv := range fn.FreeVars {
		add(fv)
	}
	for _, l := range fn.Locals {
		add(l)
	}
	for _, b := range fn.Blocks {
		for _, ins := range b.Instrs {
			if v, ok := ins.(ssa.Value); ok {
				add(v)
			}
		}
	}
	act, _ := funcInfos.LoadOrStore(fn, fi)
	return act.(*funcInfo)
}

type frame struct {
	m                *machine
	g                *gor
	caller           *frame
	fn               *ssa.Function
	fi               *funcInfo
	block, prevBlock *ssa.BasicBlock
	env              []value
	locals           []value
	defers           *deferred
	result           value
	panicking        bool
	panic            interface{}
	phitemps         []value
	callPos          token.Pos
	firstNonPhi      int
	curInstr         ssa.Instruction
}

func (fr *frame) get(key ssa.Value) value {
	switch key := key.(type) {
	case nil:
		return nil
	case *ssa.Function:
		return key
	case *ssa.Builtin:
		return key
	case *ssa.Const:
		return constValue(key)
	case *ssa.Global:
		return fr.m.globalAddr(key)
	}
	if i, ok := fr.fi.index[key]; ok {
		v := fr.env[i]
		if v == nil {
			panic(fmt.Sprintf("get: nil value for %T: %v in %s", key, key.Name(), fr.fn))
		}
		return v
	}
	panic(fmt.Sprintf("get: no value for %T: %v in %s", key, key.Name(), fr.fn))
}

func (fr *frame) set(key ssa.Value, v value) {
	fr.env[fr.fi.index[key]] = v
}

func (fr *frame) runDefer(d *deferred) {
	var ok bool
	defer func() {
		if !ok {
			r := recover()
			if !isTargetPanic(r) {
				panic(r)
			}
			fr.panicking = true
			fr.panic = r
		}
	}()
	fr.m.call(fr, d.instr.Pos(), d.fn, d.args)
	ok = true
}

func isTargetPanic(r interface{}) bool {
	_, ok := r.(targetPanic)
	return ok
}

func (fr *frame) runDefers() {
	for d := fr.defers; d != nil; d = d.tail {
		fr.defers = d.tail
		fr.runDefer(d)
	}
	fr.defers = nil
	if fr.panicking {
		panic(fr.panic)
	}
}

func (m *machine) lookupMethod(typ types.Type, meth *types.Func) *ssa.Function {
	return m.E.prog.LookupMethod(typ, meth.Pkg(), meth.Name())
}

func (m *machine) visitInstr(fr *frame, instr ssa.Instruction) (ret bool, jump bool) {
	m.steps++
	if m.steps > m.E.cfg.MaxSteps {
		panic(engineError{fmt.Sprintf("step limit %d exceeded (unwinding bound)", m.E.cfg.MaxSteps)})
	}
	switch instr := instr.(type) {
	case *ssa.DebugRef:
	case *ssa.UnOp:
		fr.set(instr, m.unop(instr, fr.get(instr.X)))
	case *ssa.BinOp:
		fr.set(instr, m.binop(instr, fr.get(instr.X), fr.get(instr.Y)))
	case *ssa.Call:
		if m.initDepth > 0 && fr.fn.Name() == "init" && fr.fn.Parent() == nil {
			m.initCall(fr, instr)
			break
		}
		fn, args := m.prepareCall(fr, &instr.Call)
		r := m.call(fr, instr.Pos(), fn, args)
		fr.set(instr, r)
	case *ssa.ChangeInterface:
		fr.set(instr, fr.get(instr.X))
	case *ssa.ChangeType:
		fr.set(instr, fr.get(instr.X))
	case *ssa.Convert:
		fr.set(instr, m.conv(instr.Type(), instr.X.Type(), fr.get(instr.X)))
	case *ssa.SliceToArrayPointer:
		fr.set(instr, m.sliceToArrayPointer(instr.Type(), fr.get(instr.X)))
	case *ssa.MakeInterface:
		fr.set(instr, iface{t: instr.X.Type(), v: fr.get(instr.X)})
	case *ssa.Extract:
		fr.set(instr, fr.get(instr.Tuple).(tuple)[instr.Index])
	case *ssa.Slice:
		fr.set(instr, m.slice(fr.get(instr.X), fr.get(instr.Low), fr.get(instr.High), fr.get(instr.Max), instr.X.Type()))
	case *ssa.Return:
		switch len(instr.Results) {
		case 0:
		case 1:
			fr.result = fr.get(instr.Results[0])
		default:
			res := make(tuple, len(instr.Results))
			for i, r := range instr.Results {
				res[i] = fr.get(r)
			}
			fr.result = res
		}
		fr.block = nil
		return true, false
	case *ssa.RunDefers:
		fr.runDefers()
	case *ssa.Panic:
		panic(targetPanic{fr.get(instr.X)})
	case *ssa.Send:
		m.chanSend(fr.get(instr.Chan).(*channel), fr.get(instr.X))
	case *ssa.Store:
		m.storePtr(fr.get(instr.Addr), fr.get(instr.Val))
	case *ssa.If:
		succ := 1
		switch c := fr.get(instr.Cond).(type) {
		case bool:
			if c {
				succ = 0
			}
		case *Term:
			if m.decide(c, "") {
				succ = 0
			}
		default:
			panic(fmt.Sprintf("If on %T", c))
		}
		fr.prevBlock, fr.block = fr.block, fr.block.Succs[succ]
		return false, true
	case *ssa.Jump:
		fr.prevBlock, fr.block = fr.block, fr.block.Succs[0]
		return false, true
	case *ssa.Defer:
		fn, args := m.prepareCall(fr, &instr.Call)
		defers := &fr.defers
		if instr.DeferStack != nil {
			if into := fr.get(instr.DeferStack); into != nil {
				defers = into.(**deferred)
			}
		}
		*defers = &deferred{fn: fn, args: args, instr: instr, tail: *defers}
	case *ssa.Go:
		fn, args := m.prepareCall(fr, &instr.Call)
		m.spawn(fr, instr, fn, args)
	case *ssa.MakeChan:
		m.chanSeq++
		fr.set(instr, &channel{cap: int(m.concInt(fr.get(instr.Size), 64, "chan size")), id: m.chanSeq})
	case *ssa.Alloc:
		var addr *value
		if instr.Heap {
			addr = new(value)
			fr.set(instr, addr)
		} else {
			addr = fr.get(instr).(*value)
		}
		*addr = zero(deref(instr.Type()))
	case *ssa.MakeSlice:
		c := m.concInt(fr.get(instr.Cap), 64, "make cap")
		l := m.concInt(fr.get(instr.Len), 64, "make len")
		if l < 0 || c < l {
			m.runtimePanic("makeslice: len out of range")
		}
		if c > m.E.cfg.MaxAlloc {
			panic(engineError{fmt.Sprintf("make([]T, %d) exceeds maxAlloc %d at %s", c, m.E.cfg.MaxAlloc, m.E.prog.Fset.Position(instr.Pos()))})
		}
		sl := make([]value, c)
		tElt := instr.Type().Underlying().(*types.Slice).Elem()
		for i := range sl {
			sl[i] = zero(tElt)
		}
		fr.set(instr, sl[:l])
	case *ssa.MakeMap:
		fr.set(instr, newOmap(instr.Type().Underlying().(*types.Map).Key()))
	case *ssa.Range:
		fr.set(instr, m.rangeIter(fr.get(instr.X), instr.X.Type()))
	case *ssa.Next:
		fr.set(instr, m.iterNext(fr.get(instr.Iter)))
	case *ssa.FieldAddr:
		p := fr.get(instr.X).(*value)
		if p == nil {
			m.runtimePanic("invalid memory address or nil pointer dereference")
		}
		fr.set(instr, &(*p).(structure)[instr.Field])
	case *ssa.Field:
		fr.set(instr, copyVal(fr.get(instr.X).(structure)[instr.Field]))
	case *ssa.IndexAddr:
		fr.set(instr, m.indexAddr(instr, fr.get(instr.X), fr.get(instr.Index)))
	case *ssa.Index:
		fr.set(instr, m.index(instr, fr.get(instr.X), fr.get(instr.Index)))
	case *ssa.Lookup:
		fr.set(instr, m.lookup(instr, fr.get(instr.X), fr.get(instr.Index)))
	case *ssa.MapUpdate:
		mp := fr.get(instr.Map).(*omap)
		if mp == nil {
			panic(targetPanic{iface{t: m.runtimeErrT, v: "assignment to entry in nil map"}})
		}
		m.mapInsert(mp, fr.get(instr.Key), copyVal(fr.get(instr.Value)))
	case *ssa.TypeAssert:
		fr.set(instr, m.typeAssert(instr, fr.get(instr.X).(iface)))
	case *ssa.MakeClosure:
		bindings := make([]value, len(instr.Bindings))
		for i, b := range instr.Bindings {
			bindings[i] = fr.get(b)
		}
		fr.set(instr, &closure{instr.Fn.(*ssa.Function), bindings})
	case *ssa.Phi:
		panic("unreachable phi")
	case *ssa.Select:
		fr.set(instr, m.selectInstr(fr, instr))
	default:
		panic(engineError{fmt.Sprintf("unexpected instruction: %T", instr)})
	}
	return false, false
}

// initCall executes one call of a package initialiser leniently: calls of other
// packages' init are skipped (packages initialise lazily), and a call that cannot be
// executed leaves the zero value (recorded as a cut).
func (m *machine) initCall(fr *frame, instr *ssa.Call) {
	if f, ok := instr.Call.Value.(*ssa.Function); ok && f.Name() == "init" && f.Pkg != nil && f.Pkg != fr.fn.Pkg {
		fr.set(instr, nil)
		return
	}
	defer func() {
		if r := recover(); r != nil {
			switch r.(type) {
			case targetPanic, engineError:
				m.E.noteCut(fmt.Sprintf("package init: call at %s left as zero value: %.120v", m.pos(instr.Pos()), r))
				if instr.Type() != nil {
					if tt, ok := instr.Type().(*types.Tuple); ok && tt.Len() == 0 {
						fr.set(instr, nil)
					} else {
						fr.set(instr, zero(instr.Type()))
					}
				}
			default:
				panic(r)
			}
		}
	}()
	fn, args := m.prepareCall(fr, &instr.Call)
	r := m.call(fr, instr.Pos(), fn, args)
	fr.set(instr, r)
}

func (m *machine) elemScalarW(t types.Type) (int, bool) {
	if w, _, ok := intInfo(t); ok {
		return w, true
	}
	if isBool(t) {
		return 0, true
	}
	return 0, false
}

func (m *machine) indexAddr(instr *ssa.IndexAddr, x, idx value) value {
	var base []value
	var et types.Type
	switch x := x.(type) {
	case []value:
		base = x
		et = instr.X.Type().Underlying().(*types.Slice).Elem()
	case *value:
		if x == nil {
			m.runtimePanic("invalid memory address or nil pointer dereference")
		}
		base = []value((*x).(array))
		et = deref(instr.X.Type()).Underlying().(*types.Array).Elem()
	default:
		panic(fmt.Sprintf("unexpected x type in IndexAddr: %T", x))
	}
	switch i := idx.(type) {
	case uint64:
		if int64(i) < 0 || int64(i) >= int64(len(base)) {
			m.runtimePanic(fmt.Sprintf("index out of range [%d] with length %d", int64(i), len(base)))
		}
		return &base[i]
	case *Term:
		it := m.idx64(i, instr.Index.Type())
		if !m.decide(m.ts.Cmp(OpUlt, it, m.ts.Const(64, uint64(len(base)))), "index in range") {
			m.runtimePanic(fmt.Sprintf("index out of range [sym] with length %d", len(base)))
		}
		if len(base) == 1 {
			return &base[0]
		}
		if w, ok := m.elemScalarW(et); ok && len(base) <= m.E.cfg.MaxSymIndex {
			return &symptr{base: base, idx: it, w: w}
		}
		c := m.concretize(it, "symbolic index into non-scalar slice")
		return &base[c]
	}
	panic(fmt.Sprintf("indexAddr: index %T", idx))
}

// idx64 widens an index term to 64 bits according to its static type.
func (m *machine) idx64(i *Term, t types.Type) *Term {
	if i.W == 64 {
		return i
	}
	_, signed, _ := intInfo(t)
	if signed {
		return m.ts.Sext(i, 64)
	}
	return m.ts.Zext(i, 64)
}

func (m *machine) index(instr *ssa.Index, x, idx value) value {
	var base []value
	switch x := x.(type) {
	case array:
		base = x
	case string:
		base = strBytes(x)
	case *symstr:
		base = x.b
	default:
		panic(fmt.Sprintf("unexpected x type in Index: %T", x))
	}
	return m.indexVals(base, idx, instr.Index.Type())
}

func (m *machine) indexVals(base []value, idx value, it types.Type) value {
	switch i := idx.(type) {
	case uint64:
		if int64(i) < 0 || int64(i) >= int64(len(base)) {
			m.runtimePanic(fmt.Sprintf("index out of range [%d] with length %d", int64(i), len(base)))
		}
		return copyVal(base[i])
	case *Term:
		t := m.idx64(i, it)
		if !m.decide(m.ts.Cmp(OpUlt, t, m.ts.Const(64, uint64(len(base)))), "index in range") {
			m.runtimePanic(fmt.Sprintf("index out of range [sym] with length %d", len(base)))
		}
		scalar := true
		w := -1
		for _, e := range base {
			switch e := e.(type) {
			case *Term:
				w = e.W
			case uint64, bool:
			default:
				scalar = false
			}
		}
		if scalar && len(base) <= m.E.cfg.MaxSymIndex {
			if w < 0 {
				// all concrete: need the width; assume bytes for strings, else from first elem kind
				if _, ok := base[0].(bool); ok {
					w = 0
				} else {
					w = 64
					// find the minimal width holding all values is unsound; require 8 for byte tables
					panic(engineError{"symbolic index into all-concrete array of unknown width"})
				}
			}
			return m.loadPtr(&symptr{base: base, idx: t, w: w})
		}
		c := m.concretize(t, "symbolic index")
		return copyVal(base[c])
	}
	panic(fmt.Sprintf("index: %T", idx))
}

func (m *machine) sliceToArrayPointer(tdst types.Type, x value) value {
	n := deref(tdst).Underlying().(*types.Array).Len()
	s := x.([]value)
	if int64(len(s)) < n {
		m.runtimePanic("cannot convert slice to array pointer: length too small")
	}
	if s == nil {
		return (*value)(nil)
	}
	// share the backing store
	var v value = array(s[:n:n])
	return &v
}

func (m *machine) typeAssert(instr *ssa.TypeAssert, itf iface) value {
	var v value
	err := ""
	if itf.t == nil {
		err = fmt.Sprintf("interface conversion: interface is nil, not %s", instr.AssertedType)
	} else if idst, ok := instr.AssertedType.Underlying().(*types.Interface); ok {
		v = itf
		if meth, _ := types.MissingMethod(itf.t, idst, true); meth != nil {
			err = fmt.Sprintf("interface conversion: %v is not %v: missing method %s", itf.t, idst, meth.Name())
		}
	} else if types.Identical(itf.t, instr.AssertedType) {
		v = itf.v
	} else {
		err = fmt.Sprintf("interface conversion: interface is %s, not %s", itf.t, instr.AssertedType)
	}
	if err != "" {
		if !instr.CommaOk {
			panic(targetPanic{iface{t: m.runtimeErrT, v: err}})
		}
		return tuple{zero(instr.AssertedType), false}
	}
	if instr.CommaOk {
		return tuple{v, true}
	}
	return v
}

func (m *machine) prepareCall(fr *frame, call *ssa.CallCommon) (fn value, args []value) {
	v := fr.get(call.Value)
	if call.Method == nil {
		fn = v
	} else {
		recv := v.(iface)
		if recv.t == nil {
			m.runtimePanic("invalid memory address or nil pointer dereference (method call on nil interface)")
		}
		f := m.lookupMethod(recv.t, call.Method)
		if f == nil {
			panic(fmt.Sprintf("method set for dynamic type %v does not contain %s", recv.t, call.Method))
		}
		fn = f
		args = append(args, recv.v)
	}
	for _, arg := range call.Args {
		args = append(args, copyVal(fr.get(arg)))
	}
	return
}

func (m *machine) call(caller *frame, callpos token.Pos, fn value, args []value) value {
	switch fn := fn.(type) {
	case *ssa.Function:
		if fn == nil {
			m.runtimePanic("call of nil function")
		}
		return m.callSSA(caller, callpos, fn, args, nil)
	case *closure:
		if fn == nil {
			m.runtimePanic("call of nil function")
		}
		return m.callSSA(caller, callpos, fn.Fn, args, fn.Env)
	case *ssa.Builtin:
		return m.callBuiltin(caller, callpos, fn, args)
	}
	panic(fmt.Sprintf("cannot call %T", fn))
}

func (m *machine) pos(p token.Pos) string {
	if p == token.NoPos {
		return "?"
	}
	ps := m.E.prog.Fset.Position(p)
	f := ps.Filename
	if i := strings.LastIndex(f, "/"); i >= 0 {
		f = f[i+1:]
	}
	return fmt.Sprintf("%s:%d", f, ps.Line)
}

func (m *machine) callSSA(caller *frame, callpos token.Pos, fn *ssa.Function, args []value, env []value) value {
	name := cachedFuncName(fn) // fn.String() re-renders the type string on every call (20% of run time)
	if fn.Parent() == nil || fn.Synthetic != "" {
		// re-entrancy guard is per engine goroutine: another goroutine scheduled while this one
		// is inside the stub (preemption at an atomic) must still get the stub, not the real code.
		if st, ok := m.stubs[name]; ok && !m.inStub[stubKey(name, m.cur)] {
			sk := stubKey(name, m.cur)
			m.inStub[sk] = true
			defer func() { m.inStub[sk] = false }()
			m.stubCalls[name]++
			return m.call(caller, callpos, st, args)
		}
		if ext := lookupIntrinsic(name); ext != nil {
			m.E.noteIntrinsic(name)
			fr := &frame{m: m, caller: caller, fn: fn, callPos: callpos}
			if caller != nil {
				fr.g = caller.g
			}
			return ext(fr, args)
		}
		if strings.HasPrefix(fn.Name(), "vp") && fn.Pkg != nil && m.E.isHarnessPkg(fn.Pkg) {
			if h := vpFuncs[fn.Name()]; h != nil {
				fr := &frame{m: m, caller: caller, fn: fn, callPos: callpos}
				if caller != nil {
					fr.g = caller.g
				}
				return h(fr, args)
			}
		}
	}
	if fn.Blocks == nil {
		if m.initDepth > 0 {
			return zero(fn.Signature.Results())
		}
		if r, ok := m.genericExternal(fn, args); ok {
			return r
		}
		panic(engineError{"no code and no model for function: " + name + " (called at " + m.pos(callpos) + ")"})
	}
	if fn.TypeParams().Len() > 0 && len(fn.TypeArgs()) == 0 {
		panic(engineError{"uninstantiated generic function " + name})
	}
	if m.initDepth > 0 && m.E.skipInInit(fn) {
		return zero(fn.Signature.Results())
	}
	m.E.noteFunc(fn)
	m.depth++
	if m.depth > 2000 {
		panic(engineError{"call depth exceeded"})
	}
	defer func() { m.depth-- }()

	fi := getFuncInfo(fn)
	fr := &frame{m: m, caller: caller, fn: fn, fi: fi, callPos: callpos}
	if caller != nil {
		fr.g = caller.g
	}
	fr.env = make([]value, fi.n)
	fr.block = fn.Blocks[0]
	fr.locals = make([]value, len(fn.Locals))
	for i, l := range fn.Locals {
		fr.locals[i] = zero(deref(l.Type()))
		fr.set(l, &fr.locals[i])
	}
	for i, p := range fn.Params {
		fr.set(p, args[i])
	}
	for i, fv := range fn.FreeVars {
		fr.set(fv, env[i])
	}
	for fr.block != nil {
		m.runFrame(fr)
	}
	return fr.result
}

func (m *machine) runFrame(fr *frame) {
	defer func() {
		if fr.block == nil {
			return // normal return
		}
		r := recover()
		if r == nil {
			return
		}
		if !isTargetPanic(r) {
			if re, ok := r.(runtime.Error); ok {
				panic(engineError{fmt.Sprintf("engine fault in %s at %s: %v\n%s", fr.fn, m.curPos(fr), re, debug.Stack())})
			}
			panic(r)
		}
		if panicTrace {
			fmt.Fprintf(os.Stderr, "panic-trace: %v unwinds %s at %s\n", r.(targetPanic).String(), fr.fn, m.curPos(fr))
		}
		fr.panicking = true
		fr.panic = r
		fr.runDefers()
		fr.block = fr.fn.Recover
		if fr.block == nil {
			// recovered in a function without named results: return zero values
			fr.result = zero(fr.fn.Signature.Results())
			if fr.fn.Signature.Results().Len() == 0 {
				fr.result = nil
			}
		}
	}()
	for {
		fr.executePhis()
		instrs := fr.block.Instrs
		for i := fr.firstNonPhi; i < len(instrs); i++ {
			fr.curInstr = instrs[i]
			ret, jump := m.visitInstr(fr, instrs[i])
			if ret {
				return
			}
			if jump {
				break
			}
		}
	}
}

func (m *machine) curPos(fr *frame) string {
	if fr.curInstr != nil {
		return m.pos(fr.curInstr.Pos())
	}
	return "?"
}

func (fr *frame) executePhis() {
	first := 0
	instrs := fr.block.Instrs
	for first < len(instrs) {
		if _, ok := instrs[first].(*ssa.Phi); !ok {
			break
		}
		first++
	}
	fr.firstNonPhi = first
	if first > 0 {
		predIndex := -1
		for i, p := range fr.block.Preds {
			if p == fr.prevBlock {
				predIndex = i
				break
			}
		}
		fr.phitemps = fr.phitemps[:0]
		for _, phi := range instrs[:first] {
			fr.phitemps = append(fr.phitemps, fr.get(phi.(*ssa.Phi).Edges[predIndex]))
		}
		for i, phi := range instrs[:first] {
			fr.set(phi.(*ssa.Phi), fr.phitemps[i])
		}
	}
}

func (m *machine) doRecover(caller *frame) value {
	if caller != nil && !caller.panicking && caller.caller != nil && caller.caller.panicking {
		caller.caller.panicking = false
		p := caller.caller.panic
		caller.caller.panic = nil
		switch p := p.(type) {
		case targetPanic:
			return p.v
		default:
			panic(fmt.Sprintf("unexpected panic type %T in target call to recover()", p))
		}
	}
	return iface{}
}

func (m *machine) callBuiltin(caller *frame, callpos token.Pos, fn *ssa.Builtin, args []value) value {
	switch fn.Name() {
	case "append":
		if len(args) == 1 {
			return args[0]
		}
		a0 := args[0].([]value)
		var src []value
		switch s := args[1].(type) {
		case string:
			src = strBytes(s)
		case *symstr:
			src = s.b
		case []value:
			src = s
		}
		if len(src) == 0 {
			return a0
		}
		if int64(len(a0)+len(src)) > m.E.cfg.MaxAlloc {
			panic(engineError{fmt.Sprintf("append grows slice to %d > maxAlloc at %s", len(a0)+len(src), m.pos(callpos))})
		}
		if len(a0)+len(src) <= cap(a0) {
			r := a0[:len(a0)+len(src)]
			for i, v := range src {
				r[len(a0)+i] = copyVal(v)
			}
			return r
		}
		// grow: mimic Go's amortised doubling so that cap-dependent code is exercised plausibly
		nc := 2 * cap(a0)
		if nc < len(a0)+len(src) {
			nc = len(a0) + len(src)
		}
		r := make([]value, len(a0)+len(src), nc)
		for i, v := range a0 {
			r[i] = v
		}
		for i, v := range src {
			r[len(a0)+i] = copyVal(v)
		}
		// zero the spare capacity with the element zero
		if nc > len(r) {
			et := fn.Type().(*types.Signature).Params().At(0).Type().Underlying().(*types.Slice).Elem()
			full := r[:nc]
			for i := len(r); i < nc; i++ {
				full[i] = zero(et)
			}
		}
		return r
	case "copy":
		dst := args[0].([]value)
		var src []value
		switch s := args[1].(type) {
		case string:
			src = strBytes(s)
		case *symstr:
			src = s.b
		case []value:
			src = s
		}
		n := len(dst)
		if len(src) < n {
			n = len(src)
		}
		if n > 0 {
			tmp := make([]value, n)
			for i := 0; i < n; i++ {
				tmp[i] = copyVal(src[i])
			}
			copy(dst, tmp)
		}
		return uint64(n)
	case "close":
		m.chanClose(args[0].(*channel))
		return nil
	case "delete":
		mp := args[0].(*omap)
		if mp != nil {
			m.mapDelete(mp, args[1])
		}
		return nil
	case "print", "println":
		return nil
	case "len":
		switch x := args[0].(type) {
		case string:
			return uint64(len(x))
		case *symstr:
			return uint64(len(x.b))
		case array:
			return uint64(len(x))
		case *value:
			if x == nil {
				// len of nil *array is the array length; need static type
				t := fn.Type().(*types.Signature).Params().At(0).Type()
				return uint64(deref(t).Underlying().(*types.Array).Len())
			}
			return uint64(len((*x).(array)))
		case []value:
			return uint64(len(x))
		case *omap:
			if x == nil {
				return uint64(0)
			}
			return uint64(x.n)
		case *channel:
			if x == nil {
				return uint64(0)
			}
			return uint64(len(x.buf))
		default:
			panic(fmt.Sprintf("len: illegal operand: %T", x))
		}
	case "cap":
		switch x := args[0].(type) {
		case array:
			return uint64(len(x))
		case *value:
			return uint64(len((*x).(array)))
		case []value:
			return uint64(cap(x))
		case *channel:
			if x == nil {
				return uint64(0)
			}
			return uint64(x.cap)
		default:
			panic(fmt.Sprintf("cap: illegal operand: %T", x))
		}
	case "min", "max":
		t := fn.Type().(*types.Signature).Params().At(0).Type()
		acc := args[0]
		for _, a := range args[1:] {
			acc = m.minmax(fn.Name() == "min", t, acc, a)
		}
		return acc
	case "panic":
		panic(targetPanic{args[0]})
	case "recover":
		return m.doRecover(caller)
	case "ssa:wrapnilchk":
		recv := args[0]
		if p, ok := recv.(*value); ok && p == nil {
			m.runtimePanic(fmt.Sprintf("value method %v.%v called using nil pointer", args[1], args[2]))
		}
		return recv
	case "ssa:deferstack":
		return &caller.defers
	case "clear":
		switch x := args[0].(type) {
		case *omap:
			if x != nil {
				for i := range x.live {
					x.live[i] = false
				}
				x.n = 0
				x.index = map[interface{}]int{}
				x.symKeys = 0
			}
		case []value:
			et := fn.Type().(*types.Signature).Params().At(0).Type().Underlying().(*types.Slice).Elem()
			for i := range x {
				x[i] = zero(et)
			}
		}
		return nil
	}
	panic(engineError{"unknown built-in: " + fn.Name()})
}

func (m *machine) minmax(isMin bool, t types.Type, a, b value) value {
	if w, signed, ok := intInfo(t); ok {
		op := token.LSS
		lt := m.intBinop(op, w, signed, a, b, t)
		switch c := lt.(type) {
		case bool:
			if c == isMin {
				return a
			}
			return b
		case *Term:
			if isMin {
				return fromTerm(m.ts.Ite(c, m.toTerm(a, w), m.toTerm(b, w)))
			}
			return fromTerm(m.ts.Ite(c, m.toTerm(b, w), m.toTerm(a, w)))
		}
	}
	if isFloat(t) {
		x, y := a.(float64), b.(float64)
		if (x < y) == isMin {
			return x
		}
		return y
	}
	if isString(t) {
		lt := m.bytesLess(strBytes(a), strBytes(b))
		c, ok := lt.(bool)
		if !ok {
			c = m.decide(lt.(*Term), "string min/max")
		}
		if c == isMin {
			return a
		}
		return b
	}
	panic("minmax: unsupported type")
}

// ---------- maps ----------

func newOmap(kt types.Type) *omap {
	return &omap{kt: kt, index: map[interface{}]int{}}
}

// hashKey returns a Go-comparable key for a fully concrete map key, or false.
func hashKey(v value) (interface{}, bool) {
	switch v := v.(type) {
	case bool, uint64, float64, string, *value, *channel, *omap, complex128:
		return v, true
	case *Term, *symstr, *symptr:
		return nil, false
	case array:
		var sb strings.Builder
		sb.WriteString("A")
		for _, e := range v {
			k, ok := hashKey(e)
			if !ok {
				return nil, false
			}
			fmt.Fprintf(&sb, "|%T:%v", k, k)
		}
		return sb.String(), true
	case structure:
		var sb strings.Builder
		sb.WriteString("S")
		for _, e := range v {
			k, ok := hashKey(e)
			if !ok {
				return nil, false
			}
			fmt.Fprintf(&sb, "|%T:%v", k, k)
		}
		return sb.String(), true
	case iface:
		if v.t == nil {
			return "I<nil>", true
		}
		k, ok := hashKey(v.v)
		if !ok {
			return nil, false
		}
		return fmt.Sprintf("I%s|%T:%v", v.t.String(), k, k), true
	case unsafePtr:
		return hashKey(v.v)
	case rtype:
		return "R" + v.t.String(), true
	}
	panic(fmt.Sprintf("hashKey: unexpected %T", v))
}

// mapFind returns the slot holding key, or -1. Symbolic comparisons fork.
func (m *machine) mapFind(mp *omap, key value) int {
	hk, conc := hashKey(key)
	if conc && mp.symKeys == 0 {
		if i, ok := mp.index[hk]; ok {
			return i
		}
		return -1
	}
	if conc {
		if i, ok := mp.index[hk]; ok {
			return i
		}
	}
	for i := range mp.keys {
		if !mp.live[i] {
			continue
		}
		_, kc := hashKey(mp.keys[i])
		if conc && kc {
			continue // both concrete and not equal (index miss)
		}
		eq := m.equals(mp.kt, key, mp.keys[i])
		switch e := eq.(type) {
		case bool:
			if e {
				return i
			}
		case *Term:
			if m.decide(e, "map key equality") {
				return i
			}
		}
	}
	return -1
}

func (m *machine) mapInsert(mp *omap, key, val value) {
	if i := m.mapFind(mp, key); i >= 0 {
		mp.vals[i] = val
		return
	}
	mp.keys = append(mp.keys, copyVal(key))
	mp.vals = append(mp.vals, val)
	mp.live = append(mp.live, true)
	mp.n++
	if hk, ok := hashKey(key); ok {
		mp.index[hk] = len(mp.keys) - 1
	} else {
		mp.symKeys++
	}
}

func (m *machine) mapDelete(mp *omap, key value) {
	i := m.mapFind(mp, key)
	if i < 0 {
		return
	}
	mp.live[i] = false
	mp.n--
	if hk, ok := hashKey(mp.keys[i]); ok {
		delete(mp.index, hk)
	} else {
		mp.symKeys--
	}
}

func (m *machine) lookup(instr *ssa.Lookup, x, idx value) value {
	switch x := x.(type) {
	case *omap:
		var v value
		ok := false
		if x != nil {
			if i := m.mapFind(x, idx); i >= 0 {
				v, ok = copyVal(x.vals[i]), true
			}
		}
		if !ok {
			v = zero(instr.X.Type().Underlying().(*types.Map).Elem())
		}
		if instr.CommaOk {
			return tuple{v, ok}
		}
		return v
	case string:
		return m.indexVals(strBytes(x), idx, instr.Index.Type())
	case *symstr:
		return m.indexVals(x.b, idx, instr.Index.Type())
	}
	panic(fmt.Sprintf("unexpected x type in Lookup: %T", x))
}

func (m *machine) rangeIter(x value, t types.Type) value {
	switch x := x.(type) {
	case *omap:
		it := &mapIter{m: x}
		if x != nil {
			for i := range x.keys {
				if x.live[i] {
					it.order = append(it.order, i)
				}
			}
			if m.mapOrderNondet && len(it.order) > 1 && len(it.order) <= 4 {
				it.order = m.permute(it.order)
			}
		}
		return it
	case string, *symstr:
		return &strIter{s: x}
	}
	panic(fmt.Sprintf("cannot range over %T", x))
}

// permute picks a symbolic-schedule permutation of order via vpChoose-style forks.
func (m *machine) permute(order []int) []int {
	rest := append([]int{}, order...)
	var out []int
	for len(rest) > 1 {
		k := m.choose(len(rest), "map-order")
		out = append(out, rest[k])
		rest = append(rest[:k], rest[k+1:]...)
	}
	return append(out, rest[0])
}

func (m *machine) iterNext(it value) value {
	switch it := it.(type) {
	case *mapIter:
		for it.i < len(it.order) {
			slot := it.order[it.i]
			it.i++
			if it.m.live[slot] {
				return tuple{true, copyVal(it.m.keys[slot]), copyVal(it.m.vals[slot])}
			}
		}
		return tuple{false, nil, nil}
	case *strIter:
		b := strBytes(it.s)
		if it.i >= len(b) {
			return tuple{false, uint64(0), uint64(0)}
		}
		r, n, ok := decodeRune(b[it.i:])
		if !ok {
			// symbolic byte: treat as single-byte rune (ASCII assumption is recorded)
			m.E.noteCut("range over symbolic string treats each symbolic byte as one rune")
			pos := it.i
			it.i++
			bt := m.toTerm(b[pos], 8)
			return tuple{true, uint64(pos), fromTerm(m.ts.Zext(bt, 32))}
		}
		pos := it.i
		it.i += n
		return tuple{true, uint64(pos), uint64(uint32(r))}
	}
	panic(fmt.Sprintf("iterNext: %T", it))
}

func stubKey(name string, g *gor) string {
	if g == nil || g.id == 0 {
		return name
	}
	return name + "#g" + strconv.Itoa(g.id)
}

package main

// SMT terms: hash-consed DAG with constant folding. Width 0 = Bool sort,
// otherwise (_ BitVec w). Arrays and uninterpreted functions are supported
// for byte-array objects and UF-abstractions (crc, keystream, hashes).

import (
	"fmt"
	"math/bits"
	"strconv"
	"strings"
)

type Op uint8

const (
	OpConst Op = iota
	OpVar
	OpNot
	OpAnd
	OpOr
	OpEq
	OpIte
	OpBvAdd
	OpBvSub
	OpBvMul
	OpBvUDiv
	OpBvURem
	OpBvSDiv
	OpBvSRem
	OpBvAnd
	OpBvOr
	OpBvXor
	OpBvShl
	OpBvLShr
	OpBvAShr
	OpBvNot
	OpBvNeg
	OpUlt
	OpUle
	OpSlt
	OpSle
	OpExtract // aux: hi, lo
	OpZext    // to width W
	OpSext    // to width W
	OpConcat
	OpUF // name; args; result width W
)

var opNames = [...]string{"const", "var", "not", "and", "or", "=", "ite", "bvadd", "bvsub", "bvmul", "bvudiv", "bvurem", "bvsdiv", "bvsrem",
	"bvand", "bvor", "bvxor", "bvshl", "bvlshr", "bvashr", "bvnot", "bvneg", "bvult", "bvule", "bvslt", "bvsle", "extract", "zext", "sext", "concat", "uf"}

type Term struct {
	ID   int
	Op   Op
	W    int // 0 = bool
	Args []*Term
	C    uint64 // const value (bool: 0/1); extract: hi<<8|lo
	Name string // var / uf name
}

func (t *Term) IsConst() bool { return t.Op == OpConst }

type TermStore struct {
	tab   map[string]*Term
	next  int
	vars  []*Term
	ufs   map[string]string // name -> declaration
	ufOrd []string
	ufApps []*Term // every UF application created (for model queries)
	evalFail bool  // set by Eval when a UF application has no value in env
}

func NewTermStore() *TermStore {
	return &TermStore{tab: make(map[string]*Term), ufs: make(map[string]string)}
}

func mask(w int) uint64 {
	if w >= 64 {
		return ^uint64(0)
	}
	return (uint64(1) << uint(w)) - 1
}

func sext64(v uint64, w int) int64 {
	if w >= 64 {
		return int64(v)
	}
	sh := uint(64 - w)
	return int64(v<<sh) >> sh
}

func (s *TermStore) mk(op Op, w int, c uint64, name string, args ...*Term) *Term {
	var sb strings.Builder
	sb.WriteByte(byte(op))
	sb.WriteString(strconv.Itoa(w))
	sb.WriteByte(':')
	sb.WriteString(strconv.FormatUint(c, 16))
	sb.WriteByte(':')
	sb.WriteString(name)
	for _, a := range args {
		sb.WriteByte(',')
		sb.WriteString(strconv.Itoa(a.ID))
	}
	k := sb.String()
	if t, ok := s.tab[k]; ok {
		return t
	}
	t := &Term{ID: s.next, Op: op, W: w, Args: args, C: c, Name: name}
	s.next++
	s.tab[k] = t
	return t
}

func (s *TermStore) Const(w int, v uint64) *Term { return s.mk(OpConst, w, v&mask(w), "") }
func (s *TermStore) Bool(b bool) *Term {
	if b {
		return s.mk(OpConst, 0, 1, "")
	}
	return s.mk(OpConst, 0, 0, "")
}
func (s *TermStore) Var(name string, w int) *Term {
	n := len(s.tab)
	t := s.mk(OpVar, w, 0, name)
	if len(s.tab) != n {
		s.vars = append(s.vars, t)
	}
	return t
}

func (s *TermStore) UF(name string, w int, args ...*Term) *Term {
	if _, ok := s.ufs[name]; !ok {
		var sb strings.Builder
		sb.WriteString("(declare-fun " + name + " (")
		for i, a := range args {
			if i > 0 {
				sb.WriteByte(' ')
			}
			sb.WriteString(sortName(a.W))
		}
		sb.WriteString(") " + sortName(w) + ")")
		s.ufs[name] = sb.String()
		s.ufOrd = append(s.ufOrd, name)
	}
	n := len(s.tab)
	t := s.mk(OpUF, w, 0, name, args...)
	if len(s.tab) != n {
		s.ufApps = append(s.ufApps, t)
	}
	return t
}

func sortName(w int) string {
	if w == 0 {
		return "Bool"
	}
	return "(_ BitVec " + strconv.Itoa(w) + ")"
}

func isTrue(t *Term) bool  { return t.Op == OpConst && t.W == 0 && t.C == 1 }
func isFalse(t *Term) bool { return t.Op == OpConst && t.W == 0 && t.C == 0 }

func (s *TermStore) Not(a *Term) *Term {
	if a.Op == OpConst {
		return s.Bool(a.C == 0)
	}
	if a.Op == OpNot {
		return a.Args[0]
	}
	return s.mk(OpNot, 0, 0, "", a)
}

func (s *TermStore) And(a, b *Term) *Term {
	if isFalse(a) || isFalse(b) {
		return s.Bool(false)
	}
	if isTrue(a) {
		return b
	}
	if isTrue(b) {
		return a
	}
	if a == b {
		return a
	}
	return s.mk(OpAnd, 0, 0, "", a, b)
}

func (s *TermStore) Or(a, b *Term) *Term {
	if isTrue(a) || isTrue(b) {
		return s.Bool(true)
	}
	if isFalse(a) {
		return b
	}
	if isFalse(b) {
		return a
	}
	if a == b {
		return a
	}
	return s.mk(OpOr, 0, 0, "", a, b)
}

func (s *TermStore) Eq(a, b *Term) *Term {
	if a.W != b.W {
		panic(fmt.Sprintf("Eq width mismatch %d %d", a.W, b.W))
	}
	if a == b {
		return s.Bool(true)
	}
	if a.Op == OpConst && b.Op == OpConst {
		return s.Bool(a.C == b.C)
	}
	if a.W == 0 {
		if isTrue(a) {
			return b
		}
		if isTrue(b) {
			return a
		}
		if isFalse(a) {
			return s.Not(b)
		}
		if isFalse(b) {
			return s.Not(a)
		}
	}
	if a.Op == OpBvNot && b.Op == OpBvNot { // ^x = ^y  <=>  x = y
		return s.Eq(a.Args[0], b.Args[0])
	}
	if a.ID > b.ID {
		a, b = b, a
	}
	return s.mk(OpEq, 0, 0, "", a, b)
}

func (s *TermStore) Ite(c, a, b *Term) *Term {
	if a.W != b.W {
		panic("Ite width mismatch")
	}
	if isTrue(c) {
		return a
	}
	if isFalse(c) {
		return b
	}
	if a == b {
		return a
	}
	if a.W == 0 {
		if isTrue(a) && isFalse(b) {
			return c
		}
		if isFalse(a) && isTrue(b) {
			return s.Not(c)
		}
	}
	return s.mk(OpIte, a.W, 0, "", c, a, b)
}

// evalBin evaluates a binary bit-vector op on constants with SMT-LIB semantics.
func evalBin(op Op, w int, x, y uint64) uint64 {
	m := mask(w)
	x &= m
	y &= m
	switch op {
	case OpBvAdd:
		return (x + y) & m
	case OpBvSub:
		return (x - y) & m
	case OpBvMul:
		return (x * y) & m
	case OpBvUDiv:
		if y == 0 {
			return m
		}
		return x / y
	case OpBvURem:
		if y == 0 {
			return x
		}
		return x % y
	case OpBvSDiv:
		sx, sy := sext64(x, w), sext64(y, w)
		if sy == 0 {
			if sx >= 0 {
				return m
			}
			return 1
		}
		if sy == -1 {
			return uint64(-sx) & m
		}
		return uint64(sx/sy) & m
	case OpBvSRem:
		sx, sy := sext64(x, w), sext64(y, w)
		if sy == 0 {
			return x
		}
		if sy == -1 {
			return 0
		}
		return uint64(sx%sy) & m
	case OpBvAnd:
		return x & y
	case OpBvOr:
		return x | y
	case OpBvXor:
		return x ^ y
	case OpBvShl:
		if y >= uint64(w) {
			return 0
		}
		return (x << y) & m
	case OpBvLShr:
		if y >= uint64(w) {
			return 0
		}
		return x >> y
	case OpBvAShr:
		sx := sext64(x, w)
		if y >= uint64(w) {
			if sx < 0 {
				return m
			}
			return 0
		}
		return uint64(sx>>y) & m
	}
	panic("evalBin: bad op")
}

func evalCmp(op Op, w int, x, y uint64) bool {
	m := mask(w)
	x &= m
	y &= m
	switch op {
	case OpUlt:
		return x < y
	case OpUle:
		return x <= y
	case OpSlt:
		return sext64(x, w) < sext64(y, w)
	case OpSle:
		return sext64(x, w) <= sext64(y, w)
	}
	panic("evalCmp")
}

func (s *TermStore) Bin(op Op, a, b *Term) *Term {
	if a.W != b.W || a.W == 0 {
		panic(fmt.Sprintf("Bin %s width mismatch %d %d", opNames[op], a.W, b.W))
	}
	w := a.W
	if a.Op == OpConst && b.Op == OpConst {
		return s.Const(w, evalBin(op, w, a.C, b.C))
	}
	// light algebraic simplifications
	switch op {
	case OpBvAdd:
		if a.Op == OpConst && a.C == 0 {
			return b
		}
		if b.Op == OpConst && b.C == 0 {
			return a
		}
	case OpBvSub:
		if b.Op == OpConst && b.C == 0 {
			return a
		}
		if a == b {
			return s.Const(w, 0)
		}
		if a.Op == OpConst && a.C == mask(w) { // all-ones - x = ^x (math.MaxUint64-ts in KeyWithTs/ParseTs)
			return s.BvNot(b)
		}
	case OpBvMul:
		if a.Op == OpConst && a.C == 1 {
			return b
		}
		if b.Op == OpConst && b.C == 1 {
			return a
		}
		if (a.Op == OpConst && a.C == 0) || (b.Op == OpConst && b.C == 0) {
			return s.Const(w, 0)
		}
	case OpBvAnd:
		if a == b {
			return a
		}
		if (a.Op == OpConst && a.C == 0) || (b.Op == OpConst && b.C == 0) {
			return s.Const(w, 0)
		}
		if a.Op == OpConst && a.C == mask(w) {
			return b
		}
		if b.Op == OpConst && b.C == mask(w) {
			return a
		}
	case OpBvOr:
		if a == b {
			return a
		}
		if a.Op == OpConst && a.C == 0 {
			return b
		}
		if b.Op == OpConst && b.C == 0 {
			return a
		}
	case OpBvXor:
		if a == b {
			return s.Const(w, 0)
		}
		if a.Op == OpConst && a.C == 0 {
			return b
		}
		if b.Op == OpConst && b.C == 0 {
			return a
		}
	case OpBvShl, OpBvLShr, OpBvAShr:
		if b.Op == OpConst && b.C == 0 {
			return a
		}
		if b.Op == OpConst && b.C >= uint64(w) && op != OpBvAShr {
			return s.Const(w, 0)
		}
		// (zext x) >> k where k >= width(x) = 0 ; common in byte packing
		if op == OpBvLShr && b.Op == OpConst && a.Op == OpZext && b.C >= uint64(a.Args[0].W) {
			return s.Const(w, 0)
		}
	}
	return s.mk(op, w, 0, "", a, b)
}

func (s *TermStore) Cmp(op Op, a, b *Term) *Term {
	if a.W != b.W || a.W == 0 {
		panic("Cmp width mismatch")
	}
	if a.Op == OpConst && b.Op == OpConst {
		return s.Bool(evalCmp(op, a.W, a.C, b.C))
	}
	if a == b {
		return s.Bool(op == OpUle || op == OpSle)
	}
	if op == OpUlt && b.Op == OpConst && b.C == 0 {
		return s.Bool(false)
	}
	if (op == OpUlt || op == OpUle) && a.Op == OpBvNot && b.Op == OpBvNot { // ^x < ^y  <=>  y < x
		return s.Cmp(op, b.Args[0], a.Args[0])
	}
	if op == OpUle && a.Op == OpConst && a.C == 0 {
		return s.Bool(true)
	}
	// zext(x) < const where const > max(x)
	if (op == OpUlt || op == OpUle) && a.Op == OpZext && b.Op == OpConst && b.C > mask(a.Args[0].W) {
		return s.Bool(true)
	}
	return s.mk(op, 0, 0, "", a, b)
}

func (s *TermStore) BvNot(a *Term) *Term {
	if a.Op == OpConst {
		return s.Const(a.W, ^a.C)
	}
	if a.Op == OpBvNot {
		return a.Args[0]
	}
	return s.mk(OpBvNot, a.W, 0, "", a)
}

func (s *TermStore) BvNeg(a *Term) *Term {
	if a.Op == OpConst {
		return s.Const(a.W, -a.C)
	}
	return s.mk(OpBvNeg, a.W, 0, "", a)
}

func (s *TermStore) Extract(a *Term, hi, lo int) *Term {
	w := hi - lo + 1
	if w == a.W {
		return a
	}
	if a.Op == OpConst {
		return s.Const(w, a.C>>uint(lo))
	}
	if a.Op == OpZext || a.Op == OpSext {
		in := a.Args[0]
		if hi < in.W {
			return s.Extract(in, hi, lo)
		}
		if a.Op == OpZext && lo >= in.W {
			return s.Const(w, 0)
		}
	}
	if a.Op == OpConcat {
		lw := a.Args[1].W
		if hi < lw {
			return s.Extract(a.Args[1], hi, lo)
		}
		if lo >= lw {
			return s.Extract(a.Args[0], hi-lw, lo-lw)
		}
	}
	if a.Op == OpExtract {
		ilo := int(a.C & 0xff)
		return s.Extract(a.Args[0], hi+ilo, lo+ilo)
	}
	if a.Op == OpBvNot { // (^x)[hi:lo] = ^(x[hi:lo])
		return s.BvNot(s.Extract(a.Args[0], hi, lo))
	}
	// extract of low bits through bitwise ops / shifts of zext bytes: common in
	// byte(x >> 8k) patterns after packing; push extract through or/and/xor.
	if a.Op == OpBvOr || a.Op == OpBvAnd || a.Op == OpBvXor {
		l := s.Extract(a.Args[0], hi, lo)
		r := s.Extract(a.Args[1], hi, lo)
		return s.Bin(a.Op, l, r)
	}
	if a.Op == OpBvShl && a.Args[1].Op == OpConst {
		k := int(a.Args[1].C)
		if lo >= k {
			return s.Extract(a.Args[0], hi-k, lo-k)
		}
		if hi < k {
			return s.Const(w, 0)
		}
	}
	if a.Op == OpBvLShr && a.Args[1].Op == OpConst {
		k := int(a.Args[1].C)
		if hi+k < a.W {
			return s.Extract(a.Args[0], hi+k, lo+k)
		}
	}
	return s.mk(OpExtract, w, uint64(hi)<<8|uint64(lo), "", a)
}

func (s *TermStore) Zext(a *Term, w int) *Term {
	if w == a.W {
		return a
	}
	if w < a.W {
		return s.Extract(a, w-1, 0)
	}
	if a.Op == OpConst {
		return s.Const(w, a.C)
	}
	if a.Op == OpZext {
		return s.Zext(a.Args[0], w)
	}
	return s.mk(OpZext, w, 0, "", a)
}

func (s *TermStore) Sext(a *Term, w int) *Term {
	if w == a.W {
		return a
	}
	if w < a.W {
		return s.Extract(a, w-1, 0)
	}
	if a.Op == OpConst {
		return s.Const(w, uint64(sext64(a.C, a.W)))
	}
	if a.Op == OpZext { // zero-extended value is non-negative
		return s.Zext(a.Args[0], w)
	}
	return s.mk(OpSext, w, 0, "", a)
}

func (s *TermStore) Concat(hi, lo *Term) *Term {
	w := hi.W + lo.W
	if hi.Op == OpConst && lo.Op == OpConst && w <= 64 {
		return s.Const(w, hi.C<<uint(lo.W)|lo.C)
	}
	if hi.Op == OpBvNot && lo.Op == OpBvNot {
		return s.BvNot(s.Concat(hi.Args[0], lo.Args[0]))
	}
	// adjacent slices of one term: x[h:m+1] ++ x[m:l] = x[h:l] (bytes of a packed integer re-joined)
	if hi.Op == OpExtract && lo.Op == OpExtract && hi.Args[0] == lo.Args[0] &&
		int(hi.C&0xff) == int(lo.C>>8)+1 {
		return s.Extract(hi.Args[0], int(hi.C>>8), int(lo.C&0xff))
	}
	return s.mk(OpConcat, w, 0, "", hi, lo)
}

// Eval evaluates a term under an assignment of variables (by term ID) and UF
// interpretations (unsupported: UF terms must have an entry in ufv).
func (s *TermStore) Eval(t *Term, env map[int]uint64, memo map[int]uint64) uint64 {
	if v, ok := memo[t.ID]; ok {
		return v
	}
	var r uint64
	a := func(i int) uint64 { return s.Eval(t.Args[i], env, memo) }
	switch t.Op {
	case OpConst:
		r = t.C
	case OpVar:
		r = env[t.ID] & maskB(t.W)
	case OpNot:
		r = 1 - a(0)
	case OpAnd:
		r = a(0) & a(1)
	case OpOr:
		r = a(0) | a(1)
	case OpEq:
		if a(0) == a(1) {
			r = 1
		}
	case OpIte:
		if a(0) == 1 {
			r = a(1)
		} else {
			r = a(2)
		}
	case OpBvNot:
		r = ^a(0) & mask(t.W)
	case OpBvNeg:
		r = -a(0) & mask(t.W)
	case OpUlt, OpUle, OpSlt, OpSle:
		if evalCmp(t.Op, t.Args[0].W, a(0), a(1)) {
			r = 1
		}
	case OpExtract:
		hi, lo := int(t.C>>8), int(t.C&0xff)
		r = (a(0) >> uint(lo)) & mask(hi-lo+1)
	case OpZext:
		r = a(0)
	case OpSext:
		r = uint64(sext64(a(0), t.Args[0].W)) & mask(t.W)
	case OpConcat:
		r = a(0)<<uint(t.Args[1].W) | a(1)
	case OpUF:
		// UF values are taken from env (filled from the solver's model by ID)
		v, ok := env[t.ID]
		if !ok {
			s.evalFail = true
		}
		r = v & maskB(t.W)
	default:
		r = evalBin(t.Op, t.W, a(0), a(1))
	}
	memo[t.ID] = r
	return r
}

func maskB(w int) uint64 {
	if w == 0 {
		return 1
	}
	return mask(w)
}

func bvLit(w int, v uint64) string {
	if w%4 == 0 {
		return fmt.Sprintf("#x%0*x", w/4, v&mask(w))
	}
	return fmt.Sprintf("(_ bv%d %d)", v&mask(w), w)
}

// smtExpr prints the node with children referenced by name.
func (t *Term) smtExpr() string {
	switch t.Op {
	case OpConst:
		if t.W == 0 {
			if t.C == 1 {
				return "true"
			}
			return "false"
		}
		return bvLit(t.W, t.C)
	case OpVar:
		return t.Name
	}
	var sb strings.Builder
	sb.WriteByte('(')
	switch t.Op {
	case OpExtract:
		fmt.Fprintf(&sb, "(_ extract %d %d)", t.C>>8, t.C&0xff)
	case OpZext:
		fmt.Fprintf(&sb, "(_ zero_extend %d)", t.W-t.Args[0].W)
	case OpSext:
		fmt.Fprintf(&sb, "(_ sign_extend %d)", t.W-t.Args[0].W)
	case OpUF:
		sb.WriteString(t.Name)
	default:
		sb.WriteString(opNames[t.Op])
	}
	for _, a := range t.Args {
		sb.WriteByte(' ')
		sb.WriteString(a.ref())
	}
	sb.WriteByte(')')
	return sb.String()
}

func (t *Term) ref() string {
	switch t.Op {
	case OpConst:
		return t.smtExpr()
	case OpVar:
		return t.Name
	}
	return "t" + strconv.Itoa(t.ID)
}

func (t *Term) String() string {
	return t.strDepth(4)
}

func (t *Term) strDepth(d int) string {
	switch t.Op {
	case OpConst, OpVar:
		return t.smtExpr()
	}
	if d == 0 {
		return "…"
	}
	var sb strings.Builder
	sb.WriteByte('(')
	sb.WriteString(opNames[t.Op])
	if t.Op == OpUF {
		sb.WriteString(":" + t.Name)
	}
	for _, a := range t.Args {
		sb.WriteByte(' ')
		sb.WriteString(a.strDepth(d - 1))
	}
	sb.WriteByte(')')
	return sb.String()
}

var _ = bits.Len

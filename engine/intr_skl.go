package main

// Support added with the skiplist / trie / publisher harnesses (C22, C32).

// Decided-term cache: a branch condition that is syntactically the term (terms are
// hash-consed) already decided earlier on this path, or its negation, is implied by the
// path condition; decide() answers it without a solver query and without recording a
// decision. The cache lives in userState, which beginPath resets, and its content depends
// only on the decisions taken so far, so replaying a decision prefix hits it identically.
const decidedKey = "engine.decided-terms"

func (m *machine) decidedLookup(c *Term) (bool, bool) {
	d, _ := m.userState[decidedKey].(map[int]bool)
	if d == nil {
		return false, false
	}
	v, ok := d[c.ID]
	return v, ok
}

func (m *machine) decidedRecord(c *Term, v bool) {
	d, _ := m.userState[decidedKey].(map[int]bool)
	if d == nil {
		d = map[int]bool{}
		m.userState[decidedKey] = d
	}
	d[c.ID] = v
	d[m.ts.Not(c).ID] = !v
}

// ---------- context-bounded preemption at sync/atomic operations ----------
//
// vpConfig("preempt", n): from now on the running goroutine may be preempted immediately
// before any sync/atomic operation (Load/Store/Add/Swap/CompareAndSwap/And/Or of every
// width, which is what the typed atomic.Uint32 etc. methods execute), at most n times on
// the path. A preemption is a fork: continue, or switch to one of the other runnable
// goroutines; the preempted goroutine stays runnable and is resumed by the ordinary
// scheduler (when the running one blocks, finishes or is itself preempted). The choice is
// recorded as input "env.preempt" so that a violation's model replays its schedule.
// Code between two atomic operations runs without interruption: plain (non-atomic) accesses
// are not interleaving points, i.e. the exploration assumes data-race freedom of the
// non-atomic fields and sequentially consistent atomics.
const preemptKey = "engine.preempt-budget"

func (m *machine) preemptPoint() {
	b, _ := m.userState[preemptKey].(int)
	if b <= 0 || m.initDepth > 0 {
		return
	}
	g := m.cur
	var cands []*gor
	for _, h := range m.gors {
		if h != g && !h.done && (h.ready == nil || h.ready()) {
			cands = append(cands, h)
		}
	}
	if len(cands) == 0 {
		return
	}
	var k int
	if v, ok := m.replayNext("env.preempt", "choose"); ok {
		k = int(v)
	} else {
		k = m.choose(1+len(cands), "preempt")
		m.inputs = append(m.inputs, inputRec{Name: "env.preempt", Kind: "choose", Conc: uint64(k)})
	}
	if k == 0 || k > len(cands) {
		return
	}
	m.userState[preemptKey] = b - 1
	h := cands[k-1]
	m.event("preempt " + g.name + " -> " + h.name)
	g.ready = nil
	m.cur = h
	h.wake <- true
	if ok := <-g.wake; !ok {
		panic(abortGoroutine{})
	}
	m.cur = g
	if g.main && m.fatal != nil {
		f := m.fatal
		m.fatal = nil
		panic(f)
	}
}

func init() {
	registerLate(func() {
		for name, f := range intrinsics {
			if len(name) > 12 && name[:12] == "sync/atomic." {
				orig := f
				intrinsics[name] = func(fr *frame, a []value) value {
					fr.m.preemptPoint()
					return orig(fr, a)
				}
			}
		}
		vpConfigExt["preempt"] = func(m *machine, v int) { m.userState[preemptKey] = v }
	})
}

package badger

import (
	"io"
	"os"
	"path/filepath"
	"testing"
)

// C29 crash clause: "A crash during a drop leaves every key either with its pre-drop value or
// absent." dropAll removes the active memtable's WAL (newest versions) before dropTree makes the
// MANIFEST forget the tables. The directory as it is at the entry of dropTree (= what a kill -9 at
// that instant leaves behind) is copied and re-opened: key k shows its OLD value.
func TestHtsDropAllCrashShowsStaleVersion(t *testing.T) {
	dir, err := os.MkdirTemp("", "hts-drop")
	if err != nil {
		t.Fatal(err)
	}
	defer os.RemoveAll(dir)
	snap, err := os.MkdirTemp("", "hts-drop-crash")
	if err != nil {
		t.Fatal(err)
	}
	defer os.RemoveAll(snap)

	opt := DefaultOptions(dir).WithLoggingLevel(ERROR)
	db, err := Open(opt)
	if err != nil {
		t.Fatal(err)
	}
	set := func(v string) {
		if err := db.Update(func(txn *Txn) error { return txn.Set([]byte("k"), []byte(v)) }); err != nil {
			t.Fatal(err)
		}
	}
	set("old")
	if err := db.Close(); err != nil { // flushes the memtable: k=old is in an SSTable now
		t.Fatal(err)
	}
	if db, err = Open(opt); err != nil {
		t.Fatal(err)
	}
	set("new") // memtable + WAL only
	get := func(d *DB) string {
		var out string
		err := d.View(func(txn *Txn) error {
			it, err := txn.Get([]byte("k"))
			if err != nil {
				return err
			}
			return it.Value(func(v []byte) error { out = string(v); return nil })
		})
		if err == ErrKeyNotFound {
			return "<absent>"
		}
		if err != nil {
			t.Fatal(err)
		}
		return out
	}
	if g := get(db); g != "new" {
		t.Fatalf("pre-drop value: %q", g)
	}

	vpDropTreeHook = func() { // crash image: every file of the directory as it is right now
		ents, _ := os.ReadDir(dir)
		for _, e := range ents {
			if e.Name() == lockFile {
				continue
			}
			src, err := os.Open(filepath.Join(dir, e.Name()))
			if err != nil {
				t.Fatal(err)
			}
			dst, err := os.Create(filepath.Join(snap, e.Name()))
			if err != nil {
				t.Fatal(err)
			}
			if _, err := io.Copy(dst, src); err != nil {
				t.Fatal(err)
			}
			src.Close()
			dst.Close()
		}
	}
	if err := db.DropAll(); err != nil {
		t.Fatal(err)
	}
	vpDropTreeHook = nil
	if g := get(db); g != "<absent>" {
		t.Fatalf("after DropAll: %q", g)
	}
	db.Close()

	crashed, err := Open(DefaultOptions(snap).WithLoggingLevel(ERROR))
	if err != nil {
		t.Fatal(err)
	}
	defer crashed.Close()
	g := get(crashed)
	t.Logf("after a crash inside DropAll (before dropTree): k = %q (pre-drop value \"new\")", g)
	if g != "new" && g != "<absent>" {
		t.Errorf("C29 violated: crash during DropAll resurrected the stale version %q", g)
	}
}

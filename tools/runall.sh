#!/bin/sh
# runs the quick check of every property given (default: all registered), one after another; prints one status line each
cd "$(dirname "$0")/.."
props="$@"
if [ -z "$props" ]; then props=$(python3 -c "
import sys; sys.path.insert(0,'tools')
from cfgload import load_cfg
print(' '.join(sorted(load_cfg()['properties'])))"); fi
for p in $props; do
  s=$(date +%s)
  out=$(./check $p --tier ${TIER:-quick} 2>/tmp/runall-$p.err | grep -E "^(HOLDS|VIOLATION|INCONCLUSIVE|KNOWN-FINDING)" | cut -c1-300)
  rc=$?
  e=$(date +%s)
  echo "== $p ($((e-s)) s)"; echo "$out"
done

#!/usr/bin/env python3
"""Regenerates MANIFEST.json from checks.json (+ notes in tools/na.json)."""
import json, os
V = os.path.dirname(os.path.dirname(os.path.abspath(__file__)))
import sys
sys.path.insert(0, os.path.join(V, "tools"))
from cfgload import load_cfg
cfg = load_cfg()
na = json.load(open(os.path.join(V, "tools", "na.json")))
props = [json.loads(l) for l in open(os.path.join(V, "properties.jsonl"))]
checks = []
for p in props:
    pid = p["id"]
    pc = cfg["properties"].get(pid)
    if not pc:
        continue
    hs = pc["harnesses"]
    bounds = "; ".join("%s: %s" % (h, (cfg["harnesses"][h].get("bounds", {}).get("quick") or cfg["harnesses"][h].get("bounds", {}).get("all", ""))) for h in hs)
    checks.append({
        "property_id": pid,
        "quick_cmd": "./check %s --tier quick" % pid,
        "thorough_cmd": "./check %s --tier thorough" % pid,
        "evidence_file": "/verif/evidence/%s.json" % pid,
        "replay_cmd_template": "./check %s --replay {path}" % pid,
        "engine": "gosym",
        "level_claimed": {
            "category": "model_checking",
            "text": pc.get("level_text", "Bounded symbolic execution of the real functions (go/ssa of /repo's working tree) with SMT-decided assertions; holds for every input within the stated bounds, nothing claimed outside them.") + " Bounds (quick): " + bounds,
            "design_ref": pc.get("design_ref", "DESIGN.md §5 " + pid),
        },
        "level_note": pc.get("level_note", "Trusted: the gosym interpreter and its intrinsics/stubs (listed in the evidence), z3; composition of kernels into whole-database behaviour is a paper argument (DESIGN §5.0)."),
        "technique": pc.get("technique", "solver-based bounded symbolic execution of go/ssa (own engine) + z3; counterexamples replayed natively"),
    })
claimed = set(c["property_id"] for c in checks)
not_app = [{"property_id": p["id"], "reason": na.get(p["id"], "check not built yet in this round; no claim is made")} for p in props if p["id"] not in claimed]
man = {
    "version": 1,
    "setup_cmd": "./setup.sh",
    "hooks": {
        "guard": "verif",
        "enable": "none needed: harnesses enter the build through go/packages Overlay (engine) and `go test -overlay` (native replay); no file of /repo is modified",
        "baseline_off_cmd": "cd /repo && for m in . ; do go test -vet=off -count=1 -timeout 25m ./... ; done",
        "source_commits": [],
        "add_only": True,
    },
    "engines": [{"name": "gosym", "path": "/verif/engine", "serves_properties": sorted(claimed),
                 "kind_free_text": "symbolic interpreter for go/ssa (x/tools v0.29.0) with SMT-term scalars, decision-prefix replay exploration, in-process libz3 4.8.12 back end (SMT-LIB2 text through Z3_eval_smtlib2_string; external z3 -in selectable), native model replay"}],
    "checks": checks,
    "not_applicable": not_app,
    "notes": "See DESIGN.md. Exit codes: 0 holds within bounds, 1 VIOLATION (replayed), 3 inconclusive (never reported as success).",
}
json.dump(man, open(os.path.join(V, "MANIFEST.json"), "w"), indent=1)
print("MANIFEST: %d checks, %d not_applicable" % (len(checks), len(not_app)))

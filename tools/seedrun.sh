#!/bin/sh
# seedrun.sh <seeded-id> <engine args...>: applies /verif/seeded/<id>/patch.diff to a scratch worktree of /repo's HEAD,
# runs bin/gosym on it with the given arguments, removes the worktree.
id=$1; shift
wt=/tmp/seed-$id-$$
git -C /repo worktree add --detach $wt >/dev/null 2>&1 || exit 2
if ! git -C $wt apply /verif/seeded/$id/patch.diff; then echo "patch does not apply"; git -C /repo worktree remove --force $wt; exit 2; fi
/verif/bin/gosym-main -repo $wt "$@" 2>&1 | grep -E "^\[|violation|error" | head -8
git -C /repo worktree remove --force $wt

import glob, json, os
V = os.path.dirname(os.path.dirname(os.path.abspath(__file__)))

def load_cfg():
    """checks.json merged with every checks.d/*.json fragment (harnesses: dict union;
    properties: harness lists and assumptions concatenated, other keys last-wins)."""
    cfg = json.load(open(os.path.join(V, "checks.json")))
    for f in sorted(glob.glob(os.path.join(V, "checks.d", "*.json"))):
        frag = json.load(open(f))
        cfg["harnesses"].update(frag.get("harnesses", {}))
        for pid, pc in frag.get("properties", {}).items():
            cur = cfg["properties"].setdefault(pid, {"harnesses": [], "assumptions": []})
            for h in pc.get("harnesses", []):
                if h not in cur["harnesses"]:
                    cur["harnesses"].append(h)
            for a in pc.get("assumptions", []):
                if a not in cur.setdefault("assumptions", []):
                    cur["assumptions"].append(a)
            for k, v in pc.items():
                if k not in ("harnesses", "assumptions"):
                    cur[k] = v
    return cfg

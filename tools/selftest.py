#!/usr/bin/env python3
"""Engine regression: runs y.VpHSelfTest and checks that every must-hold assertion is unsat on
every path and every must-fail assertion has a counterexample (the engine can find violations)."""
import json, os, subprocess, sys, tempfile
V = os.path.dirname(os.path.dirname(os.path.abspath(__file__)))
out = tempfile.mktemp(suffix=".json", dir=os.path.join(V, "build"))
env = dict(os.environ, GOFLAGS="-mod=mod", GOPROXY="off", GOSUMDB="off", GOTOOLCHAIN="local")
r = subprocess.run([os.path.join(V, "bin", "gosym"), "-repo", os.environ.get("VERIF_REPO", "/repo"), "-harness-dir", os.path.join(V, "harness"), "-run", "y.VpHSelfTest", "-out", out, "-models", "0", "-timeout", "600"],
                   env=env, capture_output=True, text=True)
if r.returncode != 0 or not os.path.exists(out):
    print("selftest: engine failed\n" + r.stderr[-2000:]); sys.exit(1)
res = json.load(open(out))["harnesses"][0]
os.remove(out)
bad = []
if res["engine_errors"] or res["solver_unknowns"] or res["truncated"] or not res["done"]:
    bad.append("errors=%s unknown=%s truncated=%s done=%s %s" % (res["engine_errors"], res["solver_unknowns"], res["truncated"], res["done"], res.get("error_msgs")))
nh = nf = 0
for a, st in res["asserts"].items():
    viol = st["violated"] + st["concrete_false"]
    if a.startswith("must-hold:"):
        nh += 1
        if viol or st["unknown"]:
            bad.append("%s: expected to hold, got %s" % (a, st))
    elif a.startswith("must-fail:"):
        nf += 1
        if not viol:
            bad.append("%s: expected a counterexample, got %s" % (a, st))
if nh < 22 or nf < 13:
    bad.append("only %d must-hold / %d must-fail assertions reached" % (nh, nf))
if bad:
    print("selftest FAILED:\n  " + "\n  ".join(bad)); sys.exit(1)
print("selftest ok: %d must-hold unsat, %d must-fail with counterexample, %d paths" % (nh, nf, res["paths"]))

#!/usr/bin/env python3
"""Rewrites the generated block of DESIGN.md (between the GENERATED markers): per property the
harnesses that decide it with their quick bounds, the open/fixed findings, and the seeded changes."""
import glob, json, os, sys
V = os.path.dirname(os.path.dirname(os.path.abspath(__file__)))
sys.path.insert(0, os.path.join(V, "tools"))
from cfgload import load_cfg
cfg = load_cfg()
props = [json.loads(l) for l in open(os.path.join(V, "properties.jsonl"))]
out = []
out.append("### 10.3 Registered checks (generated from checks.json + checks.d by tools/gen_design_tables.py)\n")
for p in props:
    pc = cfg["properties"].get(p["id"])
    if not pc:
        continue
    out.append("**%s — %s**\n" % (p["id"], p["title"]))
    for h in pc["harnesses"]:
        hc = cfg["harnesses"][h]
        b = hc.get("bounds", {})
        out.append("* `%s` — quick: %s%s" % (h, b.get("quick") or b.get("all", ""), (" — thorough: " + b["thorough"]) if b.get("thorough") and b.get("thorough") != "same" else ""))
    for a in pc.get("assumptions", []):
        out.append("  * assumes: %s" % a)
    out.append("")
kf = json.load(open(os.path.join(V, "known_findings.json")))["findings"]
out.append("### 10.3b Findings file (known_findings.json) — see §11 for the narrative\n")
out.append("| property | key | status | what fails |\n|---|---|---|---|")
for f in kf:
    out.append("| %s | %s | %s | %s |" % (f["property"], f["key"], f["status"], (f.get("short") or f.get("record") or f.get("text", "")).replace("|", "/")[:400]))
out.append("")
block = "\n".join(out)
p = os.path.join(V, "DESIGN.md")
s = open(p).read()
a, b = "<!-- GENERATED:BEGIN -->", "<!-- GENERATED:END -->"
if a in s:
    s = s[:s.index(a) + len(a)] + "\n" + block + "\n" + s[s.index(b):]
    open(p, "w").write(s)
    print("DESIGN.md generated block updated (%d lines)" % len(out))
else:
    print("markers not found")

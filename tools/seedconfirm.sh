#!/bin/sh
# seedconfirm.sh [ids...]: for each /verif/seeded/<id>: scratch worktree of /repo HEAD, demonstration WITHOUT the patch
# (must pass), apply patch, go build ./... (must compile), demonstration WITH the patch (must fail). Appends the outcome to
# seeded/<id>/confirm.txt. The existing-suite run with the patch applied is the author's (log named in meta.json).
export GOFLAGS=-mod=readonly GOPROXY=off GOSUMDB=off GOTOOLCHAIN=local
ids="$@"; [ -z "$ids" ] && ids=$(ls /verif/seeded)
for id in $ids; do
  d=/verif/seeded/$id
  wt=/tmp/seedc-$id-$$
  git -C /repo worktree add --detach $wt >/dev/null 2>&1 || { echo "$id: worktree failed"; continue; }
  dir=$(python3 -c "import json;print(json.load(open('$d/meta.json')).get('demo_package_dir','.'))" 2>/dev/null); [ -z "$dir" ] && dir=.
  demo=$(ls $d/zz_demo_*_test.go | head -1)
  cp $demo $wt/$dir/
  pat=$(grep -o "^func Test[A-Za-z0-9_]*" $demo | sed 's/func //' | paste -sd'|')
  ( cd $wt && go test -vet=off -count=1 -timeout 20m -run "^($pat)\$" $dir/ > /tmp/seedc-$id-clean.log 2>&1 ); clean=$?
  ( cd $wt && git apply $d/patch.diff ) ; applied=$?
  ( cd $wt && go build ./... > /tmp/seedc-$id-build.log 2>&1 ); build=$?
  ( cd $wt && go test -vet=off -count=1 -timeout 20m -run "^($pat)\$" $dir/ > /tmp/seedc-$id-mut.log 2>&1 ); mut=$?
  res="$(date -u +%FT%TZ) repo=$(git -C /repo rev-parse --short HEAD) patch_applies=$applied build=$build demo_without_patch_exit=$clean (0=pass) demo_with_patch_exit=$mut (nonzero=fail) tests=$pat"
  echo "$res" > $d/confirm.txt
  echo "$id: $res"
  git -C /repo worktree remove --force $wt
done

#!/bin/sh
# Build the engine offline from files on disk.
set -e
cd "$(dirname "$0")"
export GOFLAGS=-mod=mod GOPROXY=off GOSUMDB=off GOTOOLCHAIN=local
mkdir -p bin build evidence replays
(cd engine && go build -o ../bin/gosym .)

# engine regression suite: must-hold assertions unsat, must-fail assertions have counterexamples
python3 tools/selftest.py
echo "setup ok"

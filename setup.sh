#!/bin/sh
# Build the engine offline from files on disk.
set -e
cd "$(dirname "$0")"
export GOFLAGS=-mod=mod GOPROXY=off GOSUMDB=off GOTOOLCHAIN=local
mkdir -p bin build evidence replays
(cd engine && go build -o ../bin/gosym .)
echo "setup ok"
